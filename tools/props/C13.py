"""C13 — exported circuits and results re-import to equivalent objects.

Ingredients
  * theorems: lean/QV/Props/C13.lean — QASM writer/reader round trip on circuit skeletons
    for all well-formed circuits, gate dictionary round trip for all update histories,
    result payload round trip for all reachable results; the reader's name table is a
    regenerated kernel obligation (lean/QV/Gen/C13_Ob0.lean); custom-gate expansion =
    inlining by substitution (Props/C13b over Model/QasmDef), argument evaluation of
    parenthesis-free expressions (Props/C13c over Model/QasmExpr), measurement merging and
    register layout (Props/C13d), operand order per class as a traced kernel obligation
    (Props/C13e, lean/QV/Gen/C13_Ob1.lean) — suites of tools/props/C13_defs.py;
  * correspondence: the executable models (lean/DriverC13.lean) against the real
    `Circuit.to_qasm` (text, line by line), `Circuit.from_qasm` (skeleton of the imported
    circuit, also on foreign statement lists), `_qibo_gate_name`, `Gate.raw/from_dict`
    on update histories, and the dump/load state machine of results;
  * search on the real code: every labelled class x parameter values x qubit orders,
    register layouts, collapse / mid-circuit measurements, register names, QASM programs
    with custom gates / expressions / aliases against an independent evaluator (regression
    suite of the reader; the features in OBSERVATION_ONLY are recorded as observations), dict and
    JSON round trips of every gate class (controlled_by, after set_parameters, fused,
    channels), M.load, result dump/load in all kinds and access histories.
"""
from __future__ import annotations

import inspect
import itertools
import json
import math
import os
import shutil
import tempfile
import warnings

import numpy as np

from vlib import leanrun, qgates
from vlib.driver import run_driver
from vlib.proofs import build_and_audit, registry

from props import C13_defs, C13_results

PROP = "C13"
DRIVER = "DriverC13.lean"

PRE = "import numpy as np, qibo, warnings\nwarnings.simplefilter('ignore')\nfrom qibo import gates, Circuit\nqibo.set_backend('numpy')\n"

# independent reading of the OpenQASM names the importer accepts (spec side)
QASM_SPEC = {
    "h": "H", "x": "X", "y": "Y", "z": "Z", "s": "S", "sdg": "SDG", "t": "T", "tdg": "TDG",
    "sx": "SX", "sxdg": "SXDG", "id": "I", "rx": "RX", "ry": "RY", "rz": "RZ", "u1": "U1",
    "u2": "U2", "u3": "U3", "u": "U3", "U": "U3", "cx": "CNOT", "cy": "CY", "cz": "CZ",
    "swap": "SWAP", "ccx": "TOFFOLI", "crx": "CRX", "cry": "CRY", "crz": "CRZ", "cu1": "CU1",
    "cu3": "CU3", "rxx": "RXX", "ryy": "RYY", "rzz": "RZZ", "iswap": "iSWAP", "csx": "CSX",
    "ccz": "CCZ", "fswap": "FSWAP",
}
ARITY = {"H": (1, 0), "X": (1, 0), "Y": (1, 0), "Z": (1, 0), "S": (1, 0), "SDG": (1, 0), "T": (1, 0),
         "TDG": (1, 0), "SX": (1, 0), "SXDG": (1, 0), "I": (1, 0), "RX": (1, 1), "RY": (1, 1), "RZ": (1, 1),
         "U1": (1, 1), "U2": (1, 2), "U3": (1, 3), "CNOT": (2, 0), "CY": (2, 0), "CZ": (2, 0), "SWAP": (2, 0),
         "TOFFOLI": (3, 0), "CRX": (2, 1), "CRY": (2, 1), "CRZ": (2, 1), "CU1": (2, 1), "CU3": (2, 3),
         "RXX": (2, 1), "RYY": (2, 1), "RZZ": (2, 1), "iSWAP": (2, 0), "CSX": (2, 0), "CCZ": (3, 0), "FSWAP": (2, 0)}


def setup():
    import qibo

    qibo.set_backend("numpy")
    warnings.simplefilter("ignore")
    from qibo import Circuit, gates

    return qibo, Circuit, gates


# ---------------------------------------------------------------------------
# catalogue of classes with a qasm label (introspection of the current source)


def labelled_classes():
    """name -> (info, label, parameter_names list, ctor positional names after qubits)."""
    _, _, gates = setup()
    out = {}
    for name, info in sorted(qgates.gate_infos().items()):
        try:
            if info.generic:
                g = info.make(list(range(info.nq)), [0.25] * info.np)
            elif name == "I":
                g = gates.I(0)
            else:
                continue
            label = g.qasm_label
        except NotImplementedError:
            continue
        except Exception:
            continue
        pn = getattr(g, "parameter_names", None) if isinstance(g, gates.ParametrizedGate) else []
        pn = [pn] if isinstance(pn, str) else list(pn or [])
        sig = list(inspect.signature(info.cls.__init__).parameters.values())[1:]
        ctor = [p.name for p in sig if p.kind == p.POSITIONAL_OR_KEYWORD and p.name not in info.qnames]
        out[name] = (info, label, pn, ctor)
    return out


def names_table(ctx, lab):
    """regenerate the name table as a Lean definition + kernel-decided obligation, and tie
    the model of `_qibo_gate_name` to the real function."""
    from qibo.models._openqasm import _qibo_gate_name

    def ls(xs):
        return "[" + ", ".join(json.dumps(x) for x in xs) + "]"

    rows = [f"⟨{json.dumps(n)}, {json.dumps(l)}, {ls(pn)}, {ls(ct)}⟩" for n, (_, l, pn, ct) in sorted(lab.items())]
    src = ("import QV.Model.Qasm\nnamespace QV.Gen.C13\nopen QV.Qasm\n"
           "/-- regenerated from the gate classes of the checked source tree -/\n"
           "def table : List NameRow := [\n  " + ",\n  ".join(rows) + "]\n"
           "theorem C13_names_ok : tableOk table = true := by decide +kernel\n"
           "end QV.Gen.C13\n")
    leanrun.write_if_changed(leanrun.LEAN_DIR / "QV" / "Gen" / "C13_Ob0.lean", src)
    leanrun.write_if_changed(leanrun.LEAN_DIR / "QV" / "Gen" / "C13_Ob.lean", "import QV.Gen.C13_Ob0\nimport QV.Gen.C13_Ob1\n")
    # python-side evaluation of the same predicate (decides whether the kernel obligation
    # can hold; a false row goes to the failing-input search below)
    bad = []
    for n, (_, l, pn, ct) in sorted(lab.items()):
        if _qibo_gate_name(l) != n or ct[: len(pn)] != pn:
            bad.append(n)
    ctx.stat("labelled_classes", len(lab))
    return bad


def corr_gate_name(ctx, lab):
    from qibo.models._openqasm import _qibo_gate_name

    labels = [l for (_, l, _, _) in lab.values()]
    # tie: Lean qiboGateName == real _qibo_gate_name on labels, aliases and other strings
    probes = sorted(set(labels) | set(QASM_SPEC) | {"foo", "Rx", "cX", "iSWAP", "u0", "cu2", "measure", "a1_b", "ecr", "rzx"})
    ans = run_driver([f"NAME {p}" for p in probes], driver=DRIVER)
    diff = [(p, a, _qibo_gate_name(p)) for p, a in zip(probes, ans) if a != _qibo_gate_name(p)]
    ctx.case(("names", len(probes)), n=len(probes))
    ctx.ob("C13_corr_gate_name", not diff, "correspondence", f"model/real differ on {diff[:4]}")


# ---------------------------------------------------------------------------
# helpers on real circuits


def tok(x):
    return str(float(x))


def skeleton(c):
    """(n, [(label, qubits, param tokens)], [(register, qubits)]) of a real circuit."""
    _, _, gates = setup()
    gs = []
    for g in c.queue:
        if isinstance(g, gates.M):
            continue
        ps = [tok(x) for x in g.parameters] if isinstance(g, gates.ParametrizedGate) else []
        gs.append((g.qasm_label, list(g.qubits), ps))
    regs = [(name, list(qs)) for name, qs in c.measurement_tuples.items()]
    return c.nqubits, gs, regs


def skel_line(sk):
    n, gs, regs = sk
    t = [str(n), str(len(gs))]
    for l, qs, ps in gs:
        t += [l, str(len(qs)), *map(str, qs), str(len(ps)), *ps]
    t.append(str(len(regs)))
    for name, qs in regs:
        t += [name, str(len(qs)), *map(str, qs)]
    return " ".join(t)


def skel_show(sk):
    n, gs, regs = sk
    g = " ; ".join(f"{l} {' '.join(map(str, qs))} ( {' '.join(ps)} )" for l, qs, ps in gs)
    r = " ; ".join(f"{name}: {' '.join(map(str, qs))}" for name, qs in regs)
    return f"{n} ; {g} # {r}"


def all_measurements(c):
    _, _, gates = setup()
    return [(m.register_name, tuple(m.target_qubits), bool(m.collapse)) for m in c.queue if isinstance(m, gates.M)]


def unitary_part(c):
    """unitary of the non-measurement part (None when it cannot be formed)."""
    try:
        return np.asarray(c.unitary())
    except Exception:
        return None


def build_code(n, ops, dm=False):
    """python source that rebuilds a circuit from a list of constructor expressions."""
    s = PRE + f"c = Circuit({n}{', density_matrix=True' if dm else ''})\n"
    for o in ops:
        s += f"c.add({o})\n"
    return s


def gate_expr(name, qs, ps, extra=""):
    a = ", ".join([*map(str, qs), *[repr(float(p)) if not isinstance(p, int) else repr(p) for p in ps]])
    return f"gates.{name}({a}{extra})"


RT_CHECK = (
    "def ms(c): return [(m.register_name, tuple(m.target_qubits), bool(m.collapse)) for m in c.queue if isinstance(m, gates.M)]\n"
    "try:\n    t = c.to_qasm()\nexcept Exception:\n    raise SystemExit(0)  # refusing to export is fine\n"
    "c2 = Circuit.from_qasm(t)\n"
    "assert c2.nqubits == c.nqubits, (c2.nqubits, c.nqubits)\n"
    "assert ms(c2) == ms(c), (ms(c2), ms(c))\n"
    "g1 = [g for g in c.queue if not isinstance(g, gates.M)]; g2 = [g for g in c2.queue if not isinstance(g, gates.M)]\n"
    "assert [(type(g).__name__, g.qubits) for g in g1] == [(type(g).__name__, g.qubits) for g in g2]\n"
    "for a, b in zip(g1, g2):\n"
    "    for x, y in zip(a.parameters, b.parameters): assert abs(float(x) - float(y)) <= 1e-12 * max(1, abs(float(x))), (a, x, y)\n"
)


def qasm_roundtrip_problem(c):
    """None if `from_qasm(to_qasm(c))` is equivalent to c (or export raises); else text."""
    _, Circuit, gates = setup()
    try:
        text = c.to_qasm()
    except Exception:
        return None, "export-raises"
    try:
        c2 = Circuit.from_qasm(text)
    except Exception as e:
        return f"importer rejects the exported text: {type(e).__name__}: {str(e)[:120]}", "import-raises"
    if c2.nqubits != c.nqubits:
        return f"nqubits {c2.nqubits} != {c.nqubits}", "diff"
    if all_measurements(c2) != all_measurements(c):
        return f"measurements {all_measurements(c2)} != {all_measurements(c)}", "diff"
    g1 = [g for g in c.queue if not isinstance(g, gates.M)]
    g2 = [g for g in c2.queue if not isinstance(g, gates.M)]
    if [(type(g).__name__, g.qubits) for g in g1] != [(type(g).__name__, g.qubits) for g in g2]:
        return "gate list differs", "diff"
    small = True
    for a, b in zip(g1, g2):
        if len(a.parameters) != len(b.parameters):
            return f"parameter count of {a.name}", "diff"
        for x, y in zip(a.parameters, b.parameters):
            x, y = float(x), float(y)
            if abs(x) > 1e6:
                small = False
            if not abs(x - y) <= 1e-12 * max(1.0, abs(x)):
                return f"parameter of {type(a).__name__}: {x!r} -> {y!r}", "diff"
    if small and c.nqubits <= 5:
        u1, u2 = unitary_part(c), unitary_part(c2)
        if u1 is not None and (u2 is None or not np.allclose(u1, u2, atol=1e-10)):
            return "unitary differs", "diff"
    return None, "ok"


# ---------------------------------------------------------------------------
# search 1: every labelled class x parameter values x qubit orders

PVALS = [0, 1, -2, 1e-300, 1e-5, 1e20, -0.0, math.pi, -math.pi / 2, 3 * math.pi, 0.3, -1.7, 5e-324, 1.5e300,
         123456789.12345679, 1 / 3, -1e-17, 2.5e-7]


def search_gates(ctx, lab, bad_names):
    _, Circuit, gates = setup()
    n = 4
    for name, (info, label, pn, ct) in sorted(lab.items()):
        npar = len(pn)
        nq = info.nq if info.generic else None
        layouts = list(itertools.permutations(range(n), nq)) if nq else [(2,), (3, 0), (1, 3, 0, 2)]
        if not ctx.thorough and len(layouts) > 12:
            layouts = ctx.rng.sample(layouts, 12)
        plists = [[]]
        if npar:
            plists = [[v] * npar for v in PVALS]
            plists += [[ctx.rng.choice(PVALS) for _ in range(npar)] for _ in range(4)]
            plists += [[ctx.rng.uniform(-7, 7) for _ in range(npar)] for _ in range(3)]
            plists += [[np.float32(0.25)] * npar, [np.float64(-1.5)] * npar, [np.int64(3)] * npar]
        for qs in layouts:
            for ps in (plists if ctx.thorough or npar == 0 else ctx.rng.sample(plists, min(len(plists), 9))):
                try:
                    c = Circuit(n)
                    c.add(info.cls(*qs, *ps))
                except Exception:
                    ctx.stat("gate_ctor_reject")
                    continue
                ctx.case(("qasm-gate", name, qs, tuple(map(float, ps))))
                prob, kind = qasm_roundtrip_problem(c)
                ctx.stat(f"qasm_gate_{kind}")
                if prob:
                    ctx.fail(f"qasm:gate:{name}", f"QASM round trip of {name}{tuple(qs)}{tuple(map(float, ps))}: {prob}",
                             build_code(n, [gate_expr(name, qs, [float(p) for p in ps])]) + RT_CHECK,
                             expected="re-imports equal or export raises", observed=prob,
                             broken=(["C13_names_ok"] if name in bad_names else []))
    # gates built through controlled_by that default to a labelled class, and ones that do not
    for base, ctrl in [("X", (1,)), ("X", (1, 2)), ("RX", (3,)), ("U3", (0,)), ("Z", (3,)), ("H", (1,)), ("SWAP", (0,)), ("RY", (0, 1))]:
        info = qgates.gate_infos()[base]
        tq = [q for q in range(n) if q not in ctrl][: info.nq]
        ps = [0.3 + 0.1 * i for i in range(info.np)]
        c = Circuit(n)
        c.add(info.make(tq, ps).controlled_by(*ctrl))
        prob, kind = qasm_roundtrip_problem(c)
        ctx.case(("qasm-ctrl", base, ctrl))
        ctx.stat(f"qasm_ctrl_{kind}")
        if prob:
            ctx.fail(f"qasm:controlled_by:{base}", f"{base}.controlled_by{ctrl}: {prob}",
                     build_code(n, [gate_expr(base, tq, ps) + f".controlled_by({', '.join(map(str, ctrl))})"]) + RT_CHECK, observed=prob)


# ---------------------------------------------------------------------------
# random circuits with register layouts: correspondence with the model + search

REGNAMES = ["a", "b", "c0", "m_1", "reg", "z9", "out", "q", "c", "register7"]


def random_layout_circuit(ctx, lab, allow_collapse):
    """returns (n, ops as python expressions, feature tags)."""
    rng = ctx.rng
    n = rng.randint(1, 5)
    names = [k for k, v in lab.items() if (v[0].nq if v[0].generic else 1) <= n]
    ops, tags = [], set()

    def rand_gate():
        nm = rng.choice(names)
        info, _, pn, _ = lab[nm]
        k = info.nq if info.generic else rng.randint(1, n)
        qs = rng.sample(range(n), k)
        ps = [rng.choice(PVALS) if rng.random() < 0.5 else round(rng.uniform(-4, 4), 6) for _ in pn]
        return gate_expr(nm, qs, ps), set(qs)

    for _ in range(rng.randint(0, 5)):
        ops.append(rand_gate()[0])
    # registers: a random family of disjoint or overlapping ordered qubit lists
    nreg = rng.randint(0, 3)
    pool = list(range(n))
    rng.shuffle(pool)
    measured = set()
    used_names = set()
    for r in range(nreg):
        if not pool:
            break
        k = rng.randint(1, min(3, len(pool)))
        qs = [pool.pop() for _ in range(k)]
        rng.shuffle(qs)
        if rng.random() < 0.35:
            kw = ""
        else:
            nm = rng.choice([x for x in REGNAMES if x not in used_names])
            used_names.add(nm)
            kw = f", register_name={nm!r}"
        if allow_collapse and rng.random() < 0.25:
            kw += ", collapse=True"
            tags.add("collapse")
        ops.append(f"gates.M({', '.join(map(str, qs))}{kw})")
        measured |= set(qs)
        if rng.random() < 0.5:
            g, gq = rand_gate()
            if gq & measured:
                if not allow_collapse:
                    continue
                tags.add("midcircuit")
            ops.append(g)
    return n, ops, tags


def corr_and_search_layouts(ctx, lab):
    _, Circuit, gates = setup()
    count = 400 if ctx.thorough else 120
    lines, reals = [], []
    for i in range(count):
        allow = i % 3 == 0
        n, ops, tags = random_layout_circuit(ctx, lab, allow)
        try:
            c = Circuit(n)
            env = {"gates": gates}
            for o in ops:
                c.add(eval(o, env))
        except Exception:
            ctx.stat("layout_build_reject")
            continue
        ctx.case(("layout", n, tuple(ops)))
        for t in tags or {"plain"}:
            ctx.stat(f"layout_{t}")
        # property on the real code
        prob, kind = qasm_roundtrip_problem(c)
        ctx.stat(f"layout_rt_{kind}")
        if prob:
            key = "qasm:collapse-dropped" if (tags & {"collapse", "midcircuit"}) else "qasm:layout"
            ctx.fail(key, f"QASM round trip: {prob}", build_code(n, ops) + RT_CHECK,
                     expected="re-imports equal or export raises", observed=prob,
                     broken=["C13_corr_qasm_writer"] if key == "qasm:layout" else [])
        # correspondence (same skeleton to the model)
        try:
            text = c.to_qasm()
        except Exception:
            continue
        try:
            c2 = Circuit.from_qasm(text)
            re_sk = skel_show(skeleton(c2))
        except Exception as e:
            re_sk = "NONE"
        sk = skeleton(c)
        lines.append("EXP " + skel_line(sk))
        reals.append((text, re_sk, ops, n))
        if i < 2:
            ctx.sample({"circuit": ops, "qasm": text.split("\n")[3:]})
    ans = run_driver(lines, driver=DRIVER)
    bad_w, bad_r = [], []
    for a, (text, re_sk, ops, n) in zip(ans, reals):
        mtext, mimp, mwf = a.split(" || ")
        real_lines = [l.strip() for l in text.split("\n")[3:]]
        if [l.strip() for l in mtext.split(" | ")] != real_lines:
            bad_w.append((ops, real_lines, mtext))
        if " ".join(mimp.split()) != " ".join(re_sk.split()):
            bad_r.append((ops, re_sk, mimp))
    ctx.ob("C13_corr_qasm_writer", not bad_w, "correspondence", f"{len(bad_w)} differ, e.g. {bad_w[:1]}")
    ctx.ob("C13_corr_qasm_reader", not bad_r, "correspondence", f"{len(bad_r)} differ, e.g. {bad_r[:1]}")
    if bad_r and not bad_w:
        ops, re_sk, mimp = bad_r[0]
        n = reals[[r[2] for r in reals].index(ops)][3]
        ctx.fail("qasm:reader", f"re-imported circuit {re_sk!r} differs from the model's reading {mimp!r}",
                 build_code(n, ops) + RT_CHECK, expected=mimp, observed=re_sk, broken=["C13_corr_qasm_reader"])


def search_register_names(ctx):
    _, Circuit, gates = setup()
    good = ["a", "abc", "a1", "a_b", "reg0", "register12", "q", "c", "x9_y"]
    odd = ["a-b", "1a", "a b", "measure", "a.b", "a[0]", "creg", "gate", "a;b", "if", "bit", "input"]
    for nm in good + odd:
        c = Circuit(2)
        c.add(gates.H(0))
        c.add(gates.M(1, 0, register_name=nm))
        prob, kind = qasm_roundtrip_problem(c)
        ctx.case(("regname", nm))
        ctx.stat(f"regname_{kind}")
        if prob:
            key = "qasm:register-name" if nm in odd else "qasm:layout"
            ctx.fail(key, f"register name {nm!r}: {prob}",
                     build_code(2, ["gates.H(0)", f"gates.M(1, 0, register_name={nm!r})"]) + RT_CHECK, observed=prob)


# ---------------------------------------------------------------------------
# foreign statement lists: reader model vs real reader


def corr_reader_programs(ctx):
    """statement lists the writer never produces: several qregs, measure lines in any
    order, interleaved with gates, gates after measurements.  Only fully measured cregs
    (partially measured ones are covered by the program search below)."""
    _, Circuit, gates = setup()
    rng = ctx.rng
    count = 300 if ctx.thorough else 100
    lines, reals = [], []
    one = ["h", "x", "s", "t", "sx"]
    for _ in range(count):
        qregs = [("q", rng.randint(1, 3))] + ([("r", rng.randint(1, 2))] if rng.random() < 0.4 else [])
        refs = [(nm, i) for nm, sz in qregs for i in range(sz)]
        cregs = []
        mrefs = list(refs)
        rng.shuffle(mrefs)
        for nm in ["c", "d"]:
            if mrefs and rng.random() < 0.7:
                k = rng.randint(1, min(2, len(mrefs)))
                cregs.append((nm, [mrefs.pop() for _ in range(k)]))
        stm, src = [], []
        for nm, sz in qregs:
            stm.append(f"Q {nm} {sz}")
            src.append(f"qreg {nm}[{sz}];")
        body = []
        for nm, qs in cregs:
            for i, (rn, ri) in enumerate(qs):
                body.append((f"M {rn} {ri} {nm} {i}", f"measure {rn}[{ri}] -> {nm}[{i}];"))
        for _ in range(rng.randint(0, 4)):
            if rng.random() < 0.6 or len(refs) < 2:
                rn, ri = rng.choice(refs)
                if rng.random() < 0.5:
                    l = rng.choice(one)
                    body.append((f"G {l} 0 1 {rn} {ri}", f"{l} {rn}[{ri}];"))
                else:
                    p = tok(rng.choice([0.5, -1.25, 3.0, 1e-5]))
                    body.append((f"G rz 1 {p} 1 {rn} {ri}", f"rz({p}) {rn}[{ri}];"))
            else:
                (a, ai), (b, bi) = rng.sample(refs, 2)
                body.append((f"G cx 0 2 {a} {ai} {b} {bi}", f"cx {a}[{ai}],{b}[{bi}];"))
        rng.shuffle(body)
        # declare cregs before use, at random positions before the body
        for nm, qs in cregs:
            stm.append(f"C {nm} {len(qs)}")
            src.append(f"creg {nm}[{len(qs)}];")
        stm += [b[0] for b in body]
        src += [b[1] for b in body]
        text = 'OPENQASM 2.0;\ninclude "qelib1.inc";\n' + "\n".join(src)
        try:
            c = Circuit.from_qasm(text)
            got = skel_show(skeleton(c))
        except Exception as e:
            got = "NONE"
        lines.append(f"IMP {len(stm)} " + " ".join(stm))
        reals.append((text, got))
        ctx.case(("reader", text))
        ctx.stat("reader_none" if got == "NONE" else "reader_ok")
    ans = run_driver(lines, driver=DRIVER)
    bad = [(t, g, a) for a, (t, g) in zip(ans, reals) if " ".join(a.split()) != " ".join(g.split())]
    # statement lists beyond what `to_qasm` emits (several qregs, measure lines in any order
    # and interleaved with gates): read correctly by the unchanged tree, so part of the
    # regression suite of the reader
    ctx.ob("C13_corr_qasm_reader_programs", not bad, "correspondence", f"{len(bad)} differ, e.g. {bad[:1]}")
    if bad:
        t, g, a = bad[0]
        ctx.fail("qasm-import:statements", "the reader's circuit differs from the model's reading of the statement list",
                 PRE + f"c = Circuit.from_qasm({t!r})\nregs = {{k: list(v) for k, v in c.measurement_tuples.items()}}\n"
                 f"got = (c.nqubits, [(g.qasm_label, list(g.qubits)) for g in c.queue if not isinstance(g, gates.M)], regs)\nprint(got)\nassert False, got\n",
                 expected=a, observed=g, broken=["C13_corr_qasm_reader_programs"])


# ---------------------------------------------------------------------------
# QASM programs against an independent evaluator


class E:
    """tiny expression AST with its own printer (minimal parentheses) and evaluator."""

    def __init__(self, op, *a):
        self.op, self.a = op, a

    def ev(self, env):
        o, a = self.op, self.a
        if o == "num":
            return float(a[0])
        if o == "pi":
            return math.pi
        if o == "var":
            return env[a[0]]
        if o == "neg":
            return -a[0].ev(env)
        x, y = a[0].ev(env), a[1].ev(env)
        return {"+": x + y, "-": x - y, "*": x * y, "/": x / y}[o]

    def prec(self):
        return {"num": 9, "pi": 9, "var": 9, "neg": 7, "*": 5, "/": 5, "+": 3, "-": 3}[self.op]

    def txt(self):
        o, a = self.op, self.a
        if o == "num":
            return a[0]
        if o == "pi":
            return "pi"
        if o == "var":
            return a[0]
        if o == "neg":
            s = a[0].txt()
            return "-" + (f"({s})" if a[0].prec() < 9 else s)
        l, r = a[0].txt(), a[1].txt()
        if a[0].prec() < self.prec():
            l = f"({l})"
        if a[1].prec() <= self.prec():  # right operand of equal precedence keeps its parentheses
            r = f"({r})"
        return f"{l}{o}{r}"

    def has_paren(self):
        return "(" in self.txt()

    def has_var(self):
        return self.op == "var" or any(isinstance(x, E) and x.has_var() for x in self.a)


def rand_expr(rng, vars_, depth, want_paren):
    nums = ["2", "3", "0.5", "4", "1.5", "0.25"]
    if depth == 0:
        r = rng.random()
        if vars_ and r < 0.45:
            return E("var", rng.choice(vars_))
        if r < 0.7:
            return E("pi")
        return E("num", rng.choice(nums))
    if want_paren:
        inner = E(rng.choice("+-"), rand_expr(rng, vars_, 0, False), E("num", rng.choice(nums)))
        return rng.choice([E("*", E("num", rng.choice(nums)), inner), E("/", rand_expr(rng, vars_, 0, False), E("*", E("num", "2"), E("num", rng.choice(nums)))),
                           E("-", E("num", "1"), inner), E("neg", inner)])
    op = rng.choice(["+", "-", "*", "/", "neg"])
    if op == "neg":
        return E("neg", rand_expr(rng, vars_, 0, False))
    if op in "+-":
        return E(op, E(rng.choice("*/"), rand_expr(rng, vars_, 0, False), E("num", rng.choice(nums))), rand_expr(rng, vars_, 0, False))
    return E(op, rand_expr(rng, vars_, 0, False), E("num", rng.choice(nums)))


# formal parameter names of custom gates that look like constants or functions
FORCED_SHADOW = [None]  # formal name that the next `custom-shadow` program must declare and use
SHADOW_NAMES = ["tau", "euler", "e", "pi2", "lam", "sin", "cos", "exp", "sqrt", "ln", "gamma", "api", "np2", "pie"]
LITERALS = ["1e-3", "2.5e-1", "1.5e+1", "1E-2", "-0.5", "-3", "-1e-2", "-2.5", "0.5e1", "3", "0.001"]


def literal_value(v):
    """value of the small literal / flat-expression texts used as call arguments."""
    table = {"pi": math.pi, "-pi": -math.pi, "3*pi/4": 3 * math.pi / 4, "pi/2": math.pi / 2}
    return table[v] if v in table else float(v)


FLAT_EXPRS = [E("/", E("pi"), E("num", "2")), E("neg", E("pi")), E("/", E("*", E("num", "3"), E("pi")), E("num", "4")),
              E("*", E("pi"), E("num", "0.5")), E("/", E("neg", E("pi")), E("num", "2")), E("/", E("pi"), E("num", "4")),
              E("*", E("num", "2"), E("pi"))]


def gen_program(rng, feature):
    """returns (qasm text, expected flat gate list [(cls, qubits, params)], nqubits,
    expected registers or None)."""
    n = rng.randint(2, 4)
    hdr = ['OPENQASM 2.0;', 'include "qelib1.inc";']
    qoff = {"q": 0}
    if feature == "multi-qreg":
        k = rng.randint(1, n - 1)
        hdr += [f"qreg a[{k}];", f"qreg q[{n - k}];"]
        ref = lambda i: f"a[{i}]" if i < k else f"q[{i - k}]"
    else:
        hdr += [f"qreg q[{n}];"]
        ref = lambda i: f"q[{i}]"
    labels = [l for l in QASM_SPEC if ARITY[QASM_SPEC[l]][0] <= n]
    if feature == "aliases":
        labels = ["u", "U", "id", "cx", "ccx", "u3"] if n >= 3 else ["u", "U", "id", "cx"]
    elif feature == "aliases-expr":
        labels = ["u1", "u2", "u3", "U", "u", "cx", "id"] + (["ccx"] if n >= 3 else [])
    elif feature == "custom-multiuse":
        labels = ["u2", "u3", "cu3", "u", "rx", "cx"]
    elif feature in ("custom-shadow", "custom-shared", "literals"):  # mostly parametrised gates
        labels = [l for l in labels if l not in ("u", "U", "id") and ARITY[QASM_SPEC[l]][1] >= 1] + ["cx", "h"]
    else:
        labels = [l for l in labels if l not in ("u", "U", "id")]
    body, exp = [], []
    defs = {}  # name -> (formals, qformals, flat body [(cls, qformal idx list, [E])])
    paren = feature in ("expr-paren", "custom-expr-paren")

    def call_args(label, vars_, want_expr):
        cls = QASM_SPEC[label]
        nq, npar = ARITY[cls]
        es = []
        for _ in range(npar):
            if want_expr:
                es.append(rand_expr(rng, vars_, 1, paren and rng.random() < 0.7))
            elif vars_ and (rng.random() < 0.6 or feature in ("custom-multiuse", "custom-shadow")):
                es.append(E("var", rng.choice(vars_)))
            elif feature == "literals":
                v = rng.choice(LITERALS)
                es.append(E("neg", E("num", v[1:])) if v.startswith("-") else E("num", v))
            elif feature == "aliases-expr":
                es.append(rng.choice(FLAT_EXPRS))
            else:
                es.append(E("num", rng.choice(["0.5", "1.25", "3", "0.001"])))
        if feature == "custom-multiuse" and npar >= 2 and len(vars_) >= 2:
            # several uses of one formal, and an order different from the declaration
            es = [E("var", v) for v in (list(reversed(vars_)) + [vars_[-1]] * npar)[:npar]]
        return cls, nq, es

    if feature.startswith("custom"):
        ndefs = 2 if feature in ("custom-nested", "custom-shared") else 1
        for d in range(ndefs):
            name = f"my{d}"
            formals = [["alpha", "beta", "theta", "x"][i] for i in range(rng.randint(0 if d else 1, 2))]
            if feature == "custom-nested" and d == 1:
                formals = ["theta", "w"]  # same formal name as the inner definition may use
            if feature == "custom-shadow":  # formal names that look like constants / functions
                formals = rng.sample(SHADOW_NAMES, rng.randint(1, 3))
                if FORCED_SHADOW[0] is not None:  # every name is covered on every run
                    formals = [FORCED_SHADOW[0]] + [f for f in formals if f != FORCED_SHADOW[0]][:2]
            if feature == "custom-multiuse":
                formals = rng.sample(["alpha", "beta", "theta", "x", "lam", "phi"], rng.randint(2, 3))
            if feature == "custom-shared":  # both definitions use the same formal names
                formals = ["theta", "phi"] if d == 0 else rng.choice([["theta", "phi"], ["phi", "theta"]])
            nqf = rng.randint(1, min(2, n))
            if feature == "custom-shared":
                nqf = 2
            if feature == "custom-multiuse":
                nqf = 2
            qf = ["a", "b", "c"][:nqf]
            flat, lines = [], []
            for step_i in range(rng.randint(1, 3)):
                if d == 1 and (rng.random() < 0.6 or (feature == "custom-shared" and step_i == 0)):
                    inner_name = "my0"
                    f0, q0, b0 = defs[inner_name]
                    if len(q0) <= nqf:
                        qs = rng.sample(range(nqf), len(q0))
                        args = [E("var", rng.choice(formals)) if formals and rng.random() < 0.7 else E("num", "0.75") for _ in f0]
                        if feature == "custom-shared":  # permuted arguments and qubits
                            args = [E("var", v) for v in rng.choice([["phi", "theta"], ["theta", "phi"], ["phi", "phi"]])]
                            qs = list(reversed(range(len(q0)))) if rng.random() < 0.6 else qs
                        lines.append(f"{inner_name}{'(' + ','.join(a.txt() for a in args) + ')' if f0 else ''} {','.join(qf[i] for i in qs)};")
                        for cls, qi, es in b0:
                            flat.append((cls, [qs[j] for j in qi], [("sub", e, dict(zip(f0, args))) for e in es]))
                        continue
                label = rng.choice([l for l in labels if ARITY[QASM_SPEC[l]][0] <= nqf])
                cls, nq, es = call_args(label, formals, feature in ("custom-expr", "custom-expr-paren"))
                qs = rng.sample(range(nqf), nq)
                lines.append(f"{label}{'(' + ','.join(e.txt() for e in es) + ')' if es else ''} {','.join(qf[i] for i in qs)};")
                flat.append((cls, qs, es))
            defs[name] = (formals, qf, flat)
            hdr.append(f"gate {name}{'(' + ','.join(formals) + ')' if formals else ''} {','.join(qf)} {{ {' '.join(lines)} }}")

    def ev(e, env):
        if isinstance(e, tuple):  # substituted expression of an inner definition
            _, inner, amap = e
            return inner.ev({k: ev(v, env) for k, v in amap.items()})
        return e.ev(env)

    for _ in range(rng.randint(2, 5)):
        if defs and rng.random() < 0.6:
            name = rng.choice(list(defs))
            formals, qf, flat = defs[name]
            qs = rng.sample(range(n), len(qf))
            pool = ["0.4", "1.5", "pi", "2", "0.125"]
            if feature in ("custom-shadow", "custom-multiuse", "custom-shared"):
                pool = pool + ["-0.75", "1e-2", "2.5e-1", "-pi", "3*pi/4", "pi/2"]
            vals = [rng.choice(pool) for _ in formals]
            env = {f: literal_value(v) for f, v in zip(formals, vals)}
            body.append(f"{name}{'(' + ','.join(vals) + ')' if formals else ''} {','.join(ref(q) for q in qs)};")
            for cls, qi, es in flat:
                exp.append((cls, [qs[j] for j in qi], [ev(e, env) for e in es]))
        else:
            label = rng.choice(labels)
            cls, nq, es = call_args(label, [], feature.startswith("expr"))
            if nq > n:
                continue
            qs = rng.sample(range(n), nq)
            body.append(f"{label}{'(' + ','.join(e.txt() for e in es) + ')' if es else ''} {','.join(ref(q) for q in qs)};")
            exp.append((cls, qs, [e.ev({}) for e in es]))
    regs = None
    if feature.startswith("measure"):
        size = rng.randint(2, min(3, n))
        hdr.append(f"creg c[{size}];")
        idx = list(range(size))
        if feature == "measure-partial":
            idx = sorted(rng.sample(idx, size - 1))
        qs = rng.sample(range(n), len(idx)) if len(idx) <= n else None
        if qs is None:
            idx = idx[:n]
            qs = rng.sample(range(n), len(idx))
        pairs = list(zip(idx, qs))
        rng.shuffle(pairs)
        for i, q in pairs:
            body.append(f"measure {ref(q)} -> c[{i}];")
        regs = {"c": [q for i, q in sorted(zip(idx, qs))]}
    return "\n".join(hdr + body), exp, n, regs


OBSERVED = []  # disagreements on foreign QASM programs (outside the property), per run

FEATURES = ["plain", "aliases", "aliases-expr", "literals", "expr-flat", "expr-paren", "custom", "custom-nested",
            "custom-shadow", "custom-multiuse", "custom-shared", "custom-expr", "custom-expr-paren",
            "multi-qreg", "measure-permuted", "measure-partial"]

# Foreign programs are a REGRESSION suite for the reader (custom gates, argument
# evaluation, measurement merging are anchors of the property): every feature the importer
# reads correctly on the unchanged tree alarms if it breaks (key `qasm-import:<feature>`,
# obligation `C13_search_qasm_import`).  Exactly the features below are read wrongly by the
# unchanged tree (parentheses dropped from expressions, expressions of formal parameters
# left as strings, unwritten bits of a partially measured creg measured); they are
# outside the export -> import property and stay non-alarming observations (stats + notes).
OBSERVATION_ONLY = {"expr-paren", "custom-expr", "custom-expr-paren", "measure-partial"}


def search_programs(ctx):
    _, Circuit, gates = setup()
    per = 40 if ctx.thorough else 12
    seen = {}
    nbad = 0
    for feature in FEATURES:
        for it in range(max(per, len(SHADOW_NAMES)) if feature == "custom-shadow" else per):
            try:
                if feature == "custom-shadow":
                    # round-robin over the shadowing names; keep a program only if the body of
                    # the definition really uses that formal
                    FORCED_SHADOW[0] = SHADOW_NAMES[it % len(SHADOW_NAMES)]
                    for _try in range(30):
                        text, exp, n, regs = gen_program(ctx.rng, feature)
                        body_txt = text[text.find("{"):text.find("}")]
                        if FORCED_SHADOW[0] in body_txt.replace(",", " ").replace("(", " ").replace(")", " ").split():
                            break
                    FORCED_SHADOW[0] = None
                else:
                    text, exp, n, regs = gen_program(ctx.rng, feature)
            except (ZeroDivisionError, ValueError, IndexError):
                FORCED_SHADOW[0] = None
                continue
            ctx.case(("program", text))
            ref = Circuit(n)
            for cls, qs, ps in exp:
                ref.add(getattr(gates, cls)(*qs, *ps))
            uref = np.asarray(ref.unitary())
            py = (PRE + f"text = {text!r}\nc = Circuit.from_qasm(text)\nref = Circuit({n})\n"
                  + "".join(f"ref.add(gates.{cls}(*{qs}, *{[float(p) for p in ps]}))\n" for cls, qs, ps in exp)
                  + "assert np.allclose(c.unitary(), ref.unitary(), atol=1e-9), 'unitary differs'\n"
                  + (f"assert {{k: list(v) for k, v in c.measurement_tuples.items()}} == {regs!r}, dict(c.measurement_tuples)\n" if regs is not None else ""))
            prob = None
            try:
                c = Circuit.from_qasm(text)
            except Exception as e:
                ctx.stat(f"program_{feature}_rejected")
                # the generated programs of the regression features are valid and accepted by
                # the unchanged tree: a rejection there is a regression of the reader
                prob = f"the importer rejects the program: {type(e).__name__}: {str(e)[:100]}"
                c = None
            if c is not None:
                ctx.stat(f"program_{feature}_read")
                if c.nqubits != n:
                    prob = f"nqubits {c.nqubits} != {n}"
                else:
                    try:
                        u = np.asarray(c.unitary())
                        if not np.allclose(u, uref, atol=1e-9):
                            prob = "unitary of the imported circuit differs from the program's"
                    except Exception as e:
                        prob = f"imported circuit has no unitary: {type(e).__name__}: {str(e)[:80]}"
                if not prob and regs is not None:
                    got = {k: list(v) for k, v in c.measurement_tuples.items()}
                    if got != regs:
                        prob = f"measurement registers {got} != {regs}"
            if prob and feature in OBSERVATION_ONLY:
                ctx.stat(f"observation:qasm-import:{feature}")
                seen.setdefault(feature, prob)
            elif prob:
                nbad += 1
                ctx.fail(f"qasm-import:{feature}", f"foreign program read wrongly ({prob})", py,
                         expected="the circuit the program denotes", observed=prob, broken=["C13_search_qasm_import"])
    ctx.ob("C13_search_qasm_import", nbad == 0, "search",
           f"{nbad} foreign programs of the regression features are read wrongly or rejected")
    for feature, prob in sorted(seen.items()):
        OBSERVED.append(f"qasm-import:{feature} ({prob})")
    ctx.sample({"program": gen_program(ctx.rng, "custom-nested")[0].split("\n")[2:]})


# ---------------------------------------------------------------------------
# dictionaries / JSON


def special_gate(name, gates, rng):
    from scipy.stats import unitary_group

    if name == "Unitary":
        k = rng.choice([1, 2])
        qs = rng.sample(range(4), k)
        return gates.Unitary(unitary_group.rvs(2**k, random_state=rng.randint(0, 10**6)), *qs), f"Unitary[{k}]"
    if name == "GeneralizedfSim":
        return gates.GeneralizedfSim(2, 0, unitary_group.rvs(2, random_state=rng.randint(0, 10**6)), 0.37), name
    if name == "GeneralizedRBS":
        return gates.GeneralizedRBS([3, 0], [1], 0.4, 0.2), name
    if name == "I":
        return gates.I(2, 0), name
    if name == "Align":
        return gates.Align(1, 3), name
    return None, name


def new_params(g, gates, rng):
    from scipy.stats import unitary_group

    nm = type(g).__name__
    if nm == "Unitary":
        d = g.parameters[0].shape[0]
        return unitary_group.rvs(d, random_state=rng.randint(0, 10**6))
    if nm == "GeneralizedfSim":
        return (unitary_group.rvs(2, random_state=rng.randint(0, 10**6)), -0.81)
    if nm == "GeneralizedRBS":
        return (1.3, -0.6)
    lo = 0.05 if nm == "MS" else -3  # MS validates 0 <= theta <= pi/2 in its constructor only
    vals = [round(rng.uniform(lo, 1.5 if nm == "MS" else 3), 5) for _ in g.parameters]
    return vals if len(vals) != 1 else vals[0]


def op_of(c):
    """operator of a circuit as the property sees it: unitary, or the final density matrix
    of a fixed non-trivial input when channels are present."""
    try:
        return np.asarray(c.unitary())
    except Exception:
        pass
    n = c.nqubits
    rng = np.random.default_rng(5)
    v = rng.normal(size=2**n) + 1j * rng.normal(size=2**n)
    v /= np.linalg.norm(v)
    return np.asarray(c(np.outer(v, v.conj())).state())


SPECIAL_EXPR = {
    "Unitary": "gates.Unitary(unitary_group.rvs(4, random_state=3), 2, 0)",
    "GeneralizedfSim": "gates.GeneralizedfSim(2, 0, unitary_group.rvs(2, random_state=3), 0.37)",
    "GeneralizedRBS": "gates.GeneralizedRBS([3, 0], [1], 0.4, 0.2)",
    "I": "gates.I(2, 0)",
    "Align": "gates.Align(1, 3)",
}
SPECIAL_NEW = {
    "Unitary": "unitary_group.rvs(4, random_state=8)",
    "GeneralizedfSim": "(unitary_group.rvs(2, random_state=8), -0.81)",
    "GeneralizedRBS": "(1.3, -0.6)",
}


def dict_replay(name, info, g, variant):
    """self-contained script for a failing dictionary round trip (a representative
    instance of the class and variant)."""
    if info.generic:
        tq = list(g.target_qubits) if g.is_controlled_by else list(g.qubits)
        ps = [0.3 + 0.2 * i for i in range(info.np)]
        expr = gate_expr(name, tq, ps)
        newp = repr([0.9 - 0.15 * i for i in range(info.np)]) if info.np != 1 else "0.9"
    else:
        expr = SPECIAL_EXPR.get(name, f"gates.{name}(0)")
        newp = SPECIAL_NEW.get(name, "0.9")
    s = PRE + "import json\nfrom scipy.stats import unitary_group\n" + f"g = {expr}\n"
    if variant == "controlled" and g.is_controlled_by:
        s += f"g = g.controlled_by({', '.join(map(str, g.control_qubits))})\n"
    s += "c = Circuit(4); c.add(g)\n"
    if variant == "set-gate":
        s += f"g.parameters = {newp}\n"
    elif variant == "set-circuit":
        s += f"c.set_parameters([{newp}])\n"
    elif variant == "set-twice":
        s += f"g.parameters = {newp}\ng.parameters = {newp}\n"
    s += "raw = c.raw\n" + ("raw = json.loads(json.dumps(raw))\n" if variant == "json" else "")
    s += "c2 = Circuit.from_dict(raw)\nassert np.allclose(c2.unitary(), c.unitary(), atol=1e-10)\n"
    return s


def search_dicts(ctx):
    _, Circuit, gates = setup()
    from qibo.gates.abstract import Gate

    infos = qgates.gate_infos()
    rng = ctx.rng
    n = 4
    for name, info in sorted(infos.items()):
        for variant in ("plain", "controlled", "set-gate", "set-circuit", "set-twice", "json"):
            reps = 2 if ctx.thorough else 1
            for _ in range(reps):
                try:
                    if info.generic:
                        qs = rng.sample(range(n), info.nq)
                        ps = [round(rng.uniform(-3, 3), 5) if rng.random() < 0.7 else rng.choice(PVALS[:8]) for _ in range(info.np)]
                        g = info.make(qs, ps)
                    else:
                        g, _ = special_gate(name, gates, rng)
                        if g is None:
                            break
                except Exception:
                    ctx.stat("dict_ctor_reject")
                    continue
                if variant == "controlled":
                    free = [q for q in range(n) if q not in g.qubits]
                    if not free or g.control_qubits:
                        continue
                    try:
                        g = g.controlled_by(*free[: rng.randint(1, len(free))])
                    except Exception:
                        continue
                c = Circuit(n)
                c.add(g)
                if variant.startswith("set"):
                    if not isinstance(g, gates.ParametrizedGate):
                        break
                    for _ in range(2 if variant == "set-twice" else 1):
                        p = new_params(g, gates, rng)
                        try:
                            if variant == "set-circuit":
                                c.set_parameters([p])
                            else:
                                g.parameters = p
                        except Exception:
                            ctx.stat("dict_set_reject")
                try:
                    raw = c.raw
                    if variant == "json":
                        raw = json.loads(json.dumps(raw))
                except Exception:
                    ctx.stat("dict_export_raises")
                    continue
                ctx.case(("dict", name, variant, tuple(g.qubits)))
                prob = None
                try:
                    c2 = Circuit.from_dict(raw)
                except Exception as e:
                    prob = f"from_dict rejects the exported dictionary: {type(e).__name__}: {str(e)[:100]}"
                if not prob:
                    if c2.nqubits != c.nqubits:
                        prob = "nqubits differs"
                    else:
                        a, b = op_of(c), op_of(c2)
                        if a.shape != b.shape or not np.allclose(a, b, atol=1e-10):
                            prob = "operator of the re-imported circuit differs"
                if not prob:
                    g2 = c2.queue[0]
                    if type(g2) is not type(g) or g2.target_qubits != g.target_qubits or g2.control_qubits != g.control_qubits:
                        prob = f"gate {type(g2).__name__} t={g2.target_qubits} c={g2.control_qubits}"
                ctx.stat("dict_ok" if not prob else "dict_bad")
                if prob:
                    ctx.fail(f"dict:{name}:{variant}" if name not in ("GeneralizedfSim",) else f"dict:{name}",
                             f"Circuit.from_dict(c.raw) for {name} ({variant}): {prob}", dict_replay(name, info, g, variant),
                             observed=prob, broken=["C13_corr_dict"] if variant.startswith("set") else [])
    # gate-level to_json / from_dict / M.load
    for expr in ["gates.M(2, 0)", "gates.M(1, register_name='a')", "gates.M(0, 1, p0=0.1)", "gates.M(0, 1, p0=[0.1, 0.2], p1=0.3)",
                 "gates.M(1, 0, p0={0: 0.1, 1: 0.3})", "gates.M(1, 0, basis=[gates.X, gates.Y])", "gates.M(2, basis='X')",
                 "gates.M(1, 2, collapse=True)", "gates.M(0, 3, 1, register_name='zz', basis=gates.Y)"]:
        g = eval(expr, {"gates": gates})
        ctx.case(("M", expr))
        prob = None
        for via in ("raw", "json"):
            try:
                payload = g.raw if via == "raw" else g.to_json()
            except Exception:
                continue
            try:
                g2 = Gate.from_dict(payload) if via == "raw" else gates.M.load(payload)
                obs = lambda m: (m.target_qubits, m.register_name, m.collapse, [b.__name__ for b in m.basis_gates],
                                 [(type(b).__name__, b.qubits) for b in m.basis], m.bitflip_map)
                if obs(g2) != obs(g):
                    prob = f"{via}: {obs(g2)} != {obs(g)}"
            except Exception as e:
                prob = f"{via}: importer rejects the export: {type(e).__name__}: {str(e)[:100]}"
            if prob:
                imp = "gates.Gate.from_dict(g.raw)" if via == "raw" else "gates.M.load(g.to_json())"
                ctx.fail(f"dict:M:{via}" + (":p0-dict" if "{" in expr else ""), f"{expr}: {prob}",
                         PRE + f"g = {expr}\ng2 = {imp}\nassert g2.bitflip_map == g.bitflip_map and g2.target_qubits == g.target_qubits and g2.register_name == g.register_name\n",
                         observed=prob)
                break
    # M with samples
    c = Circuit(2)
    c.add(gates.H(0))
    m = gates.M(1, 0)
    c.add(m)
    r = c(nshots=7)
    s = np.asarray(r.samples())
    m2 = gates.M.load(m.to_json())
    ok = m2.result.has_samples() and np.array_equal(np.asarray(m2.result.samples()), np.asarray(m.result.samples()))
    ctx.case("M-samples")
    if not ok:
        ctx.fail("dict:M:samples", "M.load(M.to_json()) loses the register samples",
                 PRE + "c = Circuit(2); c.add(gates.H(0)); m = gates.M(1, 0); c.add(m); r = c(nshots=7); r.samples()\nm2 = gates.M.load(m.to_json())\nassert np.array_equal(np.asarray(m2.result.samples()), np.asarray(m.result.samples()))\n")
    # fused circuits and channels
    c = Circuit(3)
    c.add([gates.H(0), gates.CNOT(0, 1), gates.RX(2, 0.3), gates.CZ(1, 2), gates.RY(0, -0.7)])
    f = c.fuse()
    ctx.case("dict-fused")
    try:
        raw = f.raw
        try:
            f2 = Circuit.from_dict(raw)
            if not np.allclose(op_of(f2), op_of(c), atol=1e-10):
                ctx.fail("dict:FusedGate", "Circuit.from_dict(c.fuse().raw) is a different operator (FusedGate contents are not serialised)",
                         PRE + "c = Circuit(3); c.add([gates.H(0), gates.CNOT(0, 1), gates.RX(2, 0.3), gates.CZ(1, 2), gates.RY(0, -0.7)])\nf = c.fuse()\nf2 = Circuit.from_dict(f.raw)\nassert np.allclose(f2.unitary(), c.unitary(), atol=1e-10)\n")
        except Exception as e:
            ctx.fail("dict:FusedGate", f"from_dict rejects c.fuse().raw: {type(e).__name__}", PRE + "c = Circuit(2); c.add([gates.H(0), gates.CNOT(0, 1)])\nCircuit.from_dict(c.fuse().raw)\n")
    except Exception:
        ctx.stat("dict_export_raises")
    chans = {
        "PauliNoiseChannel": "gates.PauliNoiseChannel(1, [('X', 0.1), ('Z', 0.2)])",
        "DepolarizingChannel": "gates.DepolarizingChannel([0, 1], 0.2)",
        "AmplitudeDampingChannel": "gates.AmplitudeDampingChannel(0, 0.3)",
        "PhaseDampingChannel": "gates.PhaseDampingChannel(1, 0.3)",
        "ResetChannel": "gates.ResetChannel(0, [0.1, 0.2])",
        "ThermalRelaxationChannel": "gates.ThermalRelaxationChannel(0, [1.0, 0.5, 0.1, 0.2])",
        "ReadoutErrorChannel": "gates.ReadoutErrorChannel(0, np.array([[0.9, 0.1], [0.2, 0.8]]))",
        "KrausChannel": "gates.KrausChannel([(0,), (0,)], [np.sqrt(0.5) * np.eye(2), np.sqrt(0.5) * np.array([[0, 1], [1, 0]])])",
        "UnitaryChannel": "gates.UnitaryChannel([(1,)], [(0.3, np.array([[0, 1], [1, 0]]))])",
    }
    for nm, expr in chans.items():
        ctx.case(("dict-channel", nm))
        try:
            c = Circuit(2, density_matrix=True)
            c.add(gates.H(0))
            c.add(eval(expr, {"gates": gates, "np": np}))
            raw = c.raw
        except Exception:
            ctx.stat("dict_export_raises")
            continue
        py = PRE + f"c = Circuit(2, density_matrix=True); c.add(gates.H(0)); c.add({expr})\nc2 = Circuit.from_dict(c.raw)\nassert np.allclose(c2().state(), c().state(), atol=1e-10)\n"
        try:
            c2 = Circuit.from_dict(raw)
            if not np.allclose(op_of(c2), op_of(c), atol=1e-10):
                ctx.fail(f"dict:channel:{nm}", f"{nm}: re-imported channel acts differently", py)
        except Exception as e:
            ctx.fail(f"dict:channel:{nm}", f"{nm}: from_dict rejects the exported dictionary ({type(e).__name__}: {str(e)[:80]})", py)


def corr_dict(ctx):
    """model of raw / from_dict on update histories with integer parameter tokens."""
    _, Circuit, gates = setup()
    from qibo.gates.abstract import REQUIRED_FIELDS_INIT_KWARGS, Gate

    rng = ctx.rng
    req = list(REQUIRED_FIELDS_INIT_KWARGS)
    lines, reals = [], []
    infos = qgates.gate_infos()
    cands = [(nm, info) for nm, info in sorted(infos.items()) if info.generic and info.np > 0]
    for nm, info in cands:
        for _ in range(3 if ctx.thorough else 1):
            ps = [rng.randint(-9, 9) for _ in range(info.np)]
            try:
                g = info.make(list(range(info.nq)), ps)
                if nm == "MS":
                    g = None
                    g = info.cls(0, 1, ps[0], ps[1], 1)
                    ps = ps[:2] + [1]
            except Exception:
                continue
            names = g.parameter_names
            names = [names] if isinstance(names, str) else list(names)
            kws = [(k, v) for k, v in g.init_kwargs.items()]
            cur0 = list(g.parameters)
            if len(cur0) != len(names):
                continue
            hist = []
            for _ in range(rng.randint(0, 3)):
                k = len(names) if (rng.random() < 0.8 or len(names) == 1) else rng.choice([len(names) + 1, len(names) - 1])
                vals = [rng.randint(-9, 9) for _ in range(k)]
                if nm == "MS" and vals:
                    vals[-1] = rng.choice([0, 1])  # the constructor (not the setter) validates 0 <= theta <= pi/2
                hist.append(vals)
                try:
                    g.parameters = vals if len(vals) != 1 else vals[0]
                except Exception:
                    ctx.stat("dictcorr_set_reject")
            def enc(v):
                return int(v) if isinstance(v, (int, float, np.integer)) and not isinstance(v, bool) and float(v).is_integer() else (1 if v is True else 0)
            # keywords as the constructor left them (before the updates) — rebuild a fresh gate for that
            g0 = info.cls(*range(info.nq), *ps)
            kws0 = [(k, enc(v)) for k, v in g0.init_kwargs.items()]
            t = ["DICT", str(len(req)), *req, "0", str(len(names)), *names, str(info.nq), *map(str, range(info.nq)),
                 str(len(kws0))]
            for k, v in kws0:
                t += [k, str(v)]
            t.append(str(len(hist)))
            for vals in hist:
                t += [str(len(vals)), *map(str, vals)]
            try:
                g2 = Gate.from_dict(g.raw)
                got = " ".join(str(enc(x)) for x in g2.parameters)
            except Exception:
                got = "NONE"
            cur = " ".join(str(enc(x)) for x in g.parameters)
            lines.append(" ".join(t))
            reals.append((nm, hist, f"{got} cur {cur}"))
            ctx.case(("dictcorr", nm, tuple(map(tuple, hist))))
    # Unitary layout: the matrix token is k * identity
    for _ in range(6 if ctx.thorough else 3):
        k0 = rng.randint(1, 9)
        g = gates.Unitary(k0 * np.eye(2), 1, check_unitary=False)
        hist = [[rng.randint(1, 9)] for _ in range(rng.randint(0, 3))]
        for (v,) in hist:
            g.parameters = v * np.eye(2)
        t = ["DICT", str(len(req)), *req, "1", "1", "u", "2", str(k0), "1", "0", str(len(hist))]
        for vals in hist:
            t += ["1", str(vals[0])]
        try:
            g2 = Gate.from_dict(g.raw)
            got = str(int(round(g2.parameters[0][0, 0].real)))
        except Exception:
            got = "NONE"
        lines.append(" ".join(t))
        reals.append(("Unitary", hist, f"{got} cur {int(round(g.parameters[0][0, 0].real))}"))
        ctx.case(("dictcorr", "Unitary", tuple(map(tuple, hist))))
    ans = run_driver(lines, driver=DRIVER)
    bad = [(nm, h, a, r) for a, (nm, h, r) in zip(ans, reals) if a.split() != r.split()]
    ctx.ob("C13_corr_dict", not bad, "correspondence", f"{len(bad)} differ, e.g. {bad[:2]}")
    for nm, h, a, r in bad[:3]:
        if r.split("cur")[0].split() != r.split("cur")[1].split():
            info = infos.get(nm)
            ps0 = list(range(1, info.np + 1)) if info else [1]
            upd = "".join(f"g.parameters = {v if len(v) != 1 else v[0]}\n" for v in h if info and len(v) == info.np)
            py = (PRE + f"g = gates.{nm}({', '.join(map(str, [*range(info.nq), *ps0]))})\n" + upd
                  + "g2 = gates.Gate.from_dict(g.raw)\nassert tuple(g2.parameters) == tuple(g.parameters), (g2.parameters, g.parameters)\n") if info else ""
            ctx.fail(f"dict:{nm}:set-gate", f"{nm}: from_dict(raw) after updates {h} has parameters {r}", py, expected=a, observed=r, broken=["C13_corr_dict"])
    ctx.stat("dictcorr_classes", len(cands) + 1)


# ---------------------------------------------------------------------------
# results


def result_configs():
    return [
        ("state-sv", dict()),
        ("state-dm", dict(dm=True)),
        ("circuitresult-sv", dict(meas=True)),
        ("circuitresult-dm", dict(meas=True, dm=True)),
        ("circuitresult-dm-noise", dict(meas=True, dm=True, noise=True)),
        ("circuitresult-bitflip", dict(meas=True, p0=True)),
        ("outcomes-noise", dict(meas=True, noise=True)),
        ("outcomes-collapse", dict(meas=True, collapse=True)),
        ("circuitresult-dm-collapse", dict(meas=True, dm=True, collapse=True)),
    ]


def build_result_circuit(rng, gates, Circuit, dm=False, meas=False, noise=False, collapse=False, p0=False):
    n = 3
    c = Circuit(n, density_matrix=dm)
    c.add(gates.H(0))
    c.add(gates.CNOT(0, 2))
    c.add(gates.RY(1, round(rng.uniform(0.3, 2.5), 3)))
    if noise:
        c.add(gates.PauliNoiseChannel(0, [("X", 0.3)]))
    if collapse:
        c.add(gates.M(1, collapse=True))
        c.add(gates.H(1))
    if meas:
        layout = rng.choice([[(2, 0), (1,)], [(1, 2, 0)], [(0,), (2,)], [(2, 1)]])
        for i, qs in enumerate(layout):
            kw = {"register_name": "ab"[i]}
            if p0 and i == 0:
                kw["p0"] = 0.2
            c.add(gates.M(*qs, **kw))
    return c


def observe(r, which):
    out = {}
    fns = {
        "state": lambda: np.asarray(r.state()),
        "probs": lambda: np.asarray(r.probabilities()),
        "samples": lambda: np.asarray(r.samples()).tolist(),
        "samples_dec": lambda: np.asarray(r.samples(binary=False)).tolist(),
        "samples_reg": lambda: {k: np.asarray(v).tolist() for k, v in r.samples(registers=True).items()},
        "freq": lambda: dict(r.frequencies()),
        "freq_dec": lambda: {int(k): int(v) for k, v in r.frequencies(binary=False).items()},
        "freq_reg": lambda: {k: dict(v) for k, v in r.frequencies(registers=True).items()},
        "nshots": lambda: r.nshots,
    }
    for w in which:
        out[w] = fns[w]()
    return out


def same_obs(a, b):
    bad = []
    for k in a:
        x, y = a[k], b.get(k)
        if isinstance(x, np.ndarray):
            ok = isinstance(y, np.ndarray) and x.shape == y.shape and np.allclose(x, y, atol=1e-12)
        else:
            ok = x == y
        if not ok:
            bad.append(k)
    return bad


def search_results(ctx, scratch):
    qibo, Circuit, gates = setup()
    from qibo.result import CircuitResult, MeasurementOutcomes, QuantumState, load_result

    rng = ctx.rng
    hists = [[], ["S"], ["F"], ["P"], ["F", "S"], ["S", "F"], ["Fr"], ["Sr"], ["P", "F"], ["F", "P"], ["Fd"]]
    vias = ["file", "load_result", "dict"]
    model_lines, model_meta = [], []
    saves_freq = None
    for cname, cfg in result_configs():
        for hist in hists:
            if not cfg.get("meas") and hist:
                continue
            for via in (vias if ctx.thorough else [rng.choice(vias)]):
                seed = rng.randint(0, 10**6)
                np.random.seed(seed)
                qibo.get_backend().set_seed(seed)
                c = build_result_circuit(rng, gates, Circuit, **cfg)
                nshots = rng.choice([1, 7, 30])
                r = c(nshots=nshots)
                kind = type(r).__name__
                for h in hist:
                    {"S": lambda: r.samples(), "F": lambda: r.frequencies(), "P": lambda: r.probabilities(),
                     "Fr": lambda: r.frequencies(registers=True), "Sr": lambda: r.samples(registers=True),
                     "Fd": lambda: r.frequencies(binary=False)}[h]()
                # what is determined now
                det = []
                if kind != "MeasurementOutcomes":
                    det += ["state"]
                    if not cfg.get("p0"):
                        det += ["probs"]
                if kind != "QuantumState":
                    det += ["nshots"]
                    has_s = r.has_samples()
                    has_f = r._frequencies is not None or getattr(r, "_repeated_execution_frequencies", None) is not None
                    if has_s:
                        det += ["samples", "samples_dec", "samples_reg", "freq", "freq_dec", "freq_reg"]
                        if cfg.get("p0") or kind == "MeasurementOutcomes":
                            det += ["probs"]
                    elif has_f:
                        det += ["freq", "freq_dec", "freq_reg"]
                        if cfg.get("p0"):
                            det += ["probs"]
                    if saves_freq is None:
                        saves_freq = any("freq" in k.lower() for k in r.to_dict())
                    ops = []
                    for h in hist:
                        if h in ("S", "Sr"):
                            ops.append("S")
                        elif h in ("F", "Fr", "Fd") or (h == "P" and cfg.get("p0")):
                            ops.append("F")
                    given = 1 if kind == "MeasurementOutcomes" or (cfg.get("collapse") and cfg.get("dm")) else 0
                    if cfg.get("p0") and "F" in ops:
                        pass  # bit-flip noise draws samples first: modelled as S then F
                    mops = []
                    for o in ops:
                        if o == "F" and cfg.get("p0") and "S" not in mops:
                            mops.append("S")
                        mops.append(o)
                    model_lines.append(f"RES {1 if saves_freq else 0} {given} {len(mops)} " + " ".join(mops))
                ctx.case(("result", cname, tuple(hist), via, nshots))
                ctx.stat(f"result_{kind}")
                # snapshot (copies) before the dump; accessing determined data draws nothing new
                snap = observe(r, det)
                path = os.path.join(scratch, f"r{len(model_meta)}_{rng.randint(0, 10**9)}.npy")
                prob = None
                try:
                    if via == "dict":
                        d = r.to_dict()
                        r2 = type(r).from_dict(d)
                    else:
                        r.dump(path)
                        r2 = load_result(path) if via == "load_result" else type(r).load(path)
                except Exception as e:
                    prob = f"load rejects the dump: {type(e).__name__}: {str(e)[:100]}"
                diff = []
                if not prob:
                    if type(r2) is not type(r):
                        prob = f"loaded a {type(r2).__name__}"
                    else:
                        got = observe(r2, det)
                        diff = same_obs(snap, got)
                        after = observe(r, det)  # the original is unchanged by dumping
                        diff2 = same_obs(snap, after)
                        if diff2:
                            prob = f"dump changed the original's {diff2}"
                        elif diff:
                            prob = f"{diff} differ after load"
                if kind != "QuantumState":
                    model_meta.append((cname, hist, via, diff, prob))
                if prob:
                    freq_only = kind != "QuantumState" and not r.has_samples() or (diff and set(diff) <= {"freq", "freq_dec", "freq_reg", "probs"} and "S" not in hist and "Sr" not in hist)
                    only_freq_hist = bool(hist) and all(h in ("F", "Fr", "Fd", "P") for h in hist)
                    key = "result:roundtrip:frequencies-only" if (only_freq_hist and diff and set(diff) <= {"freq", "freq_dec", "freq_reg", "probs"}) else f"result:roundtrip:{cname}"
                    calls = {"S": "r.samples()", "F": "r.frequencies()", "P": "r.probabilities()", "Fr": "r.frequencies(registers=True)",
                             "Sr": "r.samples(registers=True)", "Fd": "r.frequencies(binary=False)"}
                    py = (PRE + "import tempfile, os, shutil\nfrom qibo.result import load_result\n"
                          f"c = Circuit(3, density_matrix={bool(cfg.get('dm'))})\nc.add([gates.H(0), gates.CNOT(0, 2), gates.RY(1, 0.8)])\n"
                          + ("c.add(gates.PauliNoiseChannel(0, [('X', 0.3)]))\n" if cfg.get("noise") else "")
                          + ("c.add(gates.M(1, collapse=True)); c.add(gates.H(1))\n" if cfg.get("collapse") else "")
                          + (f"c.add(gates.M(2, 0, register_name='a'{', p0=0.2' if cfg.get('p0') else ''})); c.add(gates.M(1, register_name='b'))\n" if cfg.get("meas") else "")
                          + f"r = c(nshots=30)\n" + "".join(calls[h] + "\n" for h in hist)
                          + ("f = dict(r.frequencies())\n" if "freq" in det else "")
                          + ("s = np.asarray(r.samples()).tolist()\n" if "samples" in det else "")
                          + "d = tempfile.mkdtemp(); p = os.path.join(d, 'r.npy')\ntry:\n    r.dump(p); r2 = load_result(p)\nfinally:\n    shutil.rmtree(d)\n"
                          + ("assert dict(r2.frequencies()) == f, (dict(r2.frequencies()), f)\n" if "freq" in det else "")
                          + ("assert np.asarray(r2.samples()).tolist() == s\n" if "samples" in det else "")
                          + ("assert np.allclose(r2.state(), r.state())\n" if "state" in det else ""))
                    ctx.fail(key, f"{cname}, accessed {hist or 'nothing'}, via {via}: {prob}", py,
                             expected="the loaded result returns what the dumped one had determined", observed=prob,
                             broken=[] if key.endswith("frequencies-only") else ["C13_corr_result_sm"])
                for fpath in (path,):
                    if os.path.exists(fpath):
                        os.remove(fpath)
    # state-machine correspondence: where the model says "same" the real objects must agree
    ans = run_driver(model_lines, driver=DRIVER)
    bad = []
    for a, (cname, hist, via, diff, prob) in zip(ans, model_meta):
        s_ok, f_ok = a.split()
        real_s = "diff" if any(k.startswith("samples") for k in diff) else "same"
        real_f = "diff" if any(k.startswith("freq") for k in diff) else "same"
        if (s_ok == "same" and real_s != "same") or (f_ok == "same" and real_f != "same"):
            bad.append((cname, hist, via, a, diff))
        if f_ok == "diff":
            ctx.stat("result_model_predicts_redraw")
    ctx.ob("C13_corr_result_sm", not bad, "correspondence", f"{len(bad)} differ, e.g. {bad[:2]}")
    ctx.stat("result_payload_saves_frequencies", int(bool(saves_freq)))
    # a payload can be loaded twice
    c = build_result_circuit(rng, gates, Circuit, meas=True)
    r = c(nshots=5)
    r.samples()
    d = r.to_dict()
    keys = sorted(d)
    try:
        a = CircuitResult.from_dict(d)
        b = CircuitResult.from_dict(d)
        ok = np.array_equal(np.asarray(a.samples()), np.asarray(b.samples())) and sorted(d) == keys
    except Exception as e:
        ok = False
    ctx.case("payload-twice")
    if not ok:
        ctx.fail("result:from_dict-consumes-payload", "CircuitResult.from_dict removes entries from the payload it is given; loading the same payload twice fails",
                 PRE + "from qibo.result import CircuitResult\nc = Circuit(2); c.add(gates.H(0)); c.add(gates.M(0, 1)); r = c(nshots=5); r.samples()\nd = r.to_dict()\na = CircuitResult.from_dict(d); b = CircuitResult.from_dict(d)\nassert np.array_equal(np.asarray(a.samples()), np.asarray(b.samples()))\n")



# ---------------------------------------------------------------------------
# export histories and repeated imports (scripts are executed in-process and are the replay)


def run_script(ctx, key, what, script, broken=()):
    """exec a self-contained script; an exception (other than SystemExit(0)) is a failing
    input, reported with the script itself as replay."""
    env = {}
    try:
        exec(compile(script, "<c13-script>", "exec"), env)
        return True
    except SystemExit as e:
        if not e.code:
            return True
        msg = f"exit {e.code}"
    except Exception as e:  # noqa: BLE001
        msg = f"{type(e).__name__}: {str(e)[:160]}"
    ctx.fail(key, f"{what}: {msg}", script, observed=msg, broken=list(broken))
    return False


HIST_HELPERS = (
    "import json, copy\n"
    "def regs(c): return {k: tuple(v) for k, v in c.measurement_tuples.items()}\n"
    "def pars(c): return [tuple(float(x) for x in g.parameters) for g in c.queue if isinstance(g, gates.ParametrizedGate)]\n"
    "def same(c, c2, what):\n"
    "    assert c2.nqubits == c.nqubits, what + ': nqubits'\n"
    "    assert regs(c2) == regs(c), what + f': registers {regs(c2)} != {regs(c)}'\n"
    "    assert len(pars(c2)) == len(pars(c)) and all(np.allclose(a, b, rtol=1e-12, atol=1e-12) for a, b in zip(pars(c2), pars(c))), what + f': parameters {pars(c2)} != current {pars(c)}'\n"
    "    assert np.allclose(c2.unitary(), c.unitary(), atol=1e-10), what + ': operator differs from the circuit as it is now'\n"
    "def export_qasm(c):\n"
    "    try:\n        return c.to_qasm()\n    except Exception:\n        raise SystemExit(0)  # refusing to export is fine\n"
)

ROUTES = ["set-list", "set-dict", "set-flat", "gate-trainable", "gate-nontrainable", "add-gate", "add-measurement"]


def history_circuit(rng, with_m):
    """script lines building a 3-qubit circuit with named gates: trainable 1-parameter and
    multi-parameter gates and non-trainable ones; returns (lines, gate table)."""
    n = 3
    lines = [f"c = Circuit({n})"]
    table = []  # (var, class, nparams, trainable)
    one = ["RX", "RY", "RZ", "U1", "GPI2"]
    two = ["CRX", "CU1", "RXX", "RZZ", "CRZ"]
    specs = [(rng.choice(one), 1, True), ("U3", 3, True), (rng.choice(one), 1, False), (rng.choice(two), 1, rng.random() < 0.5),
             ("U2", 2, rng.random() < 0.5), ("CU3", 3, False)]
    rng.shuffle(specs)
    for i, (cls, k, tr) in enumerate(specs):
        nq = 2 if cls in two or cls == "CU3" else 1
        qs = rng.sample(range(n - 1 if with_m else n), nq) if (n - 1 if with_m else n) >= nq else list(range(nq))
        ps = [round(rng.uniform(-3, 3), 4) for _ in range(k)]
        args = ", ".join([*map(str, qs), *map(repr, ps)])
        lines.append(f"g{i} = gates.{cls}({args}{'' if tr else ', trainable=False'}); c.add(g{i})")
        table.append((f"g{i}", cls, k, tr))
        if rng.random() < 0.3:
            lines.append(f"c.add(gates.{rng.choice(['H', 'S', 'X'])}({rng.randrange(n - 1 if with_m else n)}))")
    if with_m:
        lines.append(f"c.add(gates.M({n - 1}, register_name='a'))")
    return lines, table, n


def route_lines(rng, route, table, n, with_m, step):
    val = lambda k: tuple(round(rng.uniform(-3, 3), 4) for _ in range(k)) if k > 1 else round(rng.uniform(-3, 3), 4)
    tr = [t for t in table if t[3]]
    if route == "set-list":
        return [f"c.set_parameters([{', '.join(repr(val(k)) for _, _, k, _ in tr)}])"]
    if route == "set-flat":
        flat = [round(rng.uniform(-3, 3), 4) for _, _, k, _ in tr for _ in range(k)]
        return [f"c.set_parameters({flat!r})"]
    if route == "set-dict":
        sub = rng.sample(tr, rng.randint(1, len(tr)))
        return ["c.set_parameters({" + ", ".join(f"{v}: {val(k)!r}" for v, _, k, _ in sub) + "})"]
    if route == "gate-trainable":
        v, _, k, _ = rng.choice(tr)
        return [f"{v}.parameters = {val(k)!r}"]
    if route == "gate-nontrainable":
        v, _, k, _ = rng.choice([t for t in table if not t[3]])
        return [f"{v}.parameters = {val(k)!r}"]
    if route == "add-gate":
        q = rng.randrange(n - 1 if with_m else n)
        var = f"h{step}_{len(table)}"
        table.append((var, "R", 1, True))  # the added gate is trainable: later set_parameters calls include it
        return [f"{var} = gates.{rng.choice(['RY', 'RZ', 'RX'])}({q}, {val(1)!r}); c.add({var})"]
    if route == "add-measurement":
        # a new register on a qubit that no later gate touches (the last qubit when free)
        q = n - 1 - step
        return [f"c.add(gates.M({q}, register_name='b{step}'))"]
    raise ValueError(route)


def search_histories(ctx):
    rng = ctx.rng
    reps = 6 if ctx.thorough else 2
    nq = nd = 0
    for route in ROUTES:
        for rep in range(reps):
            for second in [None] + ([rng.choice(ROUTES)] if rep % 2 == 0 else []):
                with_m = rng.random() < 0.4 and route != "add-measurement" and second != "add-measurement"
                lines, table, n = history_circuit(rng, with_m)
                build = PRE + HIST_HELPERS + "\n".join(lines) + "\n"
                seq = [route] + ([second] if second else [])
                # OpenQASM: export, update, export again, ...
                body = "t = export_qasm(c); same(c, Circuit.from_qasm(t), 'first export')\n"
                tab = list(table)
                for i, r in enumerate(seq):
                    body += "\n".join(route_lines(rng, r, tab, n, with_m, i)) + "\n"
                    body += f"t = export_qasm(c); same(c, Circuit.from_qasm(t), 'export after {r}')\n"
                ctx.case(("qasm-history", tuple(seq), tuple(lines)))
                nq += 1
                run_script(ctx, f"qasm:history:{seq[-1] if second else route}", f"export / update ({' then '.join(seq)}) / export", build + body,
                           broken=["C13_search_export_histories"])
                # dictionaries and JSON
                body = "r = c.raw; j = json.dumps(c.raw); same(c, Circuit.from_dict(r), 'first raw')\n"
                tab = list(table)
                for i, r in enumerate(seq):
                    body += "\n".join(route_lines(rng, r, tab, n, with_m, i)) + "\n"
                    body += (f"r = c.raw; same(c, Circuit.from_dict(r), 'raw after {r}')\n"
                             f"j = json.dumps(c.raw); same(c, Circuit.from_dict(json.loads(j)), 'json after {r}')\n"
                             "for _g in c.queue:\n"
                             "    if isinstance(_g, gates.ParametrizedGate):\n"
                             f"        _k = gates.Gate.from_dict(json.loads(_g.to_json())); assert np.allclose(_k.parameters, _g.parameters), 'Gate.to_json after {r}'\n")
                ctx.case(("dict-history", tuple(seq), tuple(lines)))
                nd += 1
                run_script(ctx, f"dict:history:{seq[-1] if second else route}", f"raw / update ({' then '.join(seq)}) / raw", build + body,
                           broken=["C13_search_export_histories"])
    bad = [f for f in ctx.failures if f["key"].startswith(("qasm:history:", "dict:history:"))]
    ctx.ob("C13_search_export_histories", not bad, "search", f"{len(bad)} export histories fail")
    ctx.stat("qasm_histories", nq)
    ctx.stat("dict_histories", nd)


TWICE_HELPERS = (
    "import json, copy\n"
    "def deq(a, b):\n"
    "    if isinstance(a, dict): return isinstance(b, dict) and list(a) == list(b) and all(deq(a[k], b[k]) for k in a)\n"
    "    if isinstance(a, (list, tuple)): return type(a) is type(b) and len(a) == len(b) and all(deq(x, y) for x, y in zip(a, b))\n"
    "    if isinstance(a, np.ndarray) or isinstance(b, np.ndarray): return isinstance(a, np.ndarray) and isinstance(b, np.ndarray) and a.shape == b.shape and np.array_equal(a, b)\n"
    "    return type(a) is type(b) and a == b\n"
    "def op(c):\n"
    "    try:\n        return np.asarray(c.unitary())\n    except Exception:\n        pass\n"
    "    v = np.arange(1, 2 ** c.nqubits + 1) * (1 + 0.5j); v = v / np.linalg.norm(v)\n"
    "    return np.asarray(c(np.outer(v, v.conj())).state())\n"
)


def search_import_twice(ctx):
    """every dictionary / JSON import is done twice from the same in-memory object: the
    payload must be unchanged and both imports equivalent to the original."""
    _, Circuit, gates = setup()
    rng = ctx.rng
    infos = qgates.gate_infos()
    cases = []  # (kind, setup lines)
    for name, info in sorted(infos.items()):
        if info.generic:
            qs = rng.sample(range(4), info.nq)
            ps = [round(rng.uniform(-3, 3), 4) for _ in range(info.np)]
            if name == "MS":
                ps[-1] = abs(ps[-1]) / 3
            expr = gate_expr(name, qs, ps)
        elif name in SPECIAL_EXPR:
            expr = SPECIAL_EXPR[name]
        else:
            continue
        cases.append((f"gate:{name}", f"g = {expr}\nc = Circuit(4); c.add(g)\n"))
    cases.append(("gate:controlled", "g = gates.RY(2, 0.4).controlled_by(0, 3)\nc = Circuit(4); c.add(g)\n"))
    cases.append(("gate:controlled-unitary", "g = gates.Unitary(unitary_group.rvs(2, random_state=4), 1).controlled_by(3)\nc = Circuit(4); c.add(g)\n"))
    big = ("c = Circuit(4); c.add([gates.H(0), gates.CNOT(0, 1), gates.RX(2, 0.3), gates.CZ(1, 2), gates.RY(0, -0.7), gates.U3(3, 0.1, 0.2, 0.3), "
           "gates.fSim(2, 3, 0.4, 0.5), gates.CRZ(3, 0, 1.1), gates.TOFFOLI(0, 1, 2)])\n")
    circuit_cases = [
        ("circuit", big),
        ("circuit-measured", big + "c.add(gates.M(3, 1, register_name='a')); c.add(gates.M(0, p0=0.1))\n"),
        ("circuit-fused", big + "c = c.fuse()\n"),
        ("circuit-fused-3", big + "c = c.fuse(max_qubits=3)\n"),
        ("circuit-fused-measured", big + "c.add(gates.M(2, 0)); c = c.fuse()\n"),
        ("circuit-dm", big.replace("Circuit(4)", "Circuit(4, density_matrix=True)")),
    ]
    check_c = ("raw = SRC\nsnap = copy.deepcopy(raw)\n"
               "c2 = Circuit.from_dict(raw)\nmut = not deq(raw, snap)\nc3 = Circuit.from_dict(raw)\n"
               "assert np.allclose(op(c2), op(c), atol=1e-10), 'first import differs from the original'\n"
               "assert np.allclose(op(c3), op(c), atol=1e-10), 'TWICE: the second import of the same dictionary differs from the original'\n"
               "assert {k: tuple(v) for k, v in c3.measurement_tuples.items()} == {k: tuple(v) for k, v in c.measurement_tuples.items()}, 'TWICE: registers'\n"
               "assert not mut and deq(raw, snap), 'MUTATES: the import changed the dictionary it was given'\n")
    n = 0
    for kind, setup_lines in cases + circuit_cases:
        for src, tag in (("c.raw", ""), ("json.loads(json.dumps(c.raw))", "-json")):
            script = PRE + TWICE_HELPERS + "from scipy.stats import unitary_group\n" + setup_lines
            if tag:
                script += "try:\n    json.dumps(c.raw)\nexcept TypeError:\n    raise SystemExit(0)  # not JSON serialisable: export refuses\n"
            script += check_c.replace('SRC', src)
            n += 1
            ctx.case(("import-twice", kind + tag))
            _twice(ctx, kind + tag, script)
        if kind.startswith("gate:") and kind != "gate:Align":  # Align's delay is not part of raw (identity operator)
            script = (PRE + TWICE_HELPERS + "from scipy.stats import unitary_group\n" + setup_lines
                      + "raw = g.raw\nsnap = copy.deepcopy(raw)\na = gates.Gate.from_dict(raw); b = gates.Gate.from_dict(raw)\n"
                      "for k in (a, b):\n    assert type(k) is type(g) and k.qubits == g.qubits and len(k.parameters) == len(g.parameters), 'TWICE: gate differs'\n"
                      "    assert all(np.allclose(x, y) for x, y in zip(k.parameters, g.parameters)), 'TWICE: parameters differ'\n"
                      "assert deq(raw, snap), 'MUTATES: the import changed the dictionary it was given'\n")
            n += 1
            ctx.case(("import-twice", kind + "-gate"))
            _twice(ctx, kind, script)
    # measurement gates, with and without results
    m_cases = {
        "M": "m = gates.M(2, 0, register_name='a', p0={0: 0.1, 2: 0.2})\n",
        "M-basis": "m = gates.M(1, 0, basis=[gates.X, gates.Y])\n",
        "M-samples": "c = Circuit(3); c.add(gates.H(0)); c.add(gates.CNOT(0, 2)); m = gates.M(2, 0); c.add(m); c(nshots=9).samples()\n",
    }
    for kind, lines in m_cases.items():
        script = (PRE + TWICE_HELPERS + lines
                  + "obs = lambda k: (k.target_qubits, k.register_name, k.collapse, [b.__name__ for b in k.basis_gates], k.bitflip_map, None if not k.result.has_samples() else np.asarray(k.result.samples()).tolist())\n"
                  "raw = m.raw\nsnap = copy.deepcopy(raw)\na = gates.Gate.from_dict(raw); b = gates.Gate.from_dict(raw)\n"
                  "assert obs(a) == obs(m), 'first import differs'\nassert obs(b) == obs(m), 'TWICE: second import differs'\n"
                  "assert deq(raw, snap), 'MUTATES: the import changed the dictionary it was given'\n"
                  "js = m.to_json(); a = gates.M.load(js); b = gates.M.load(js)\nassert obs(a) == obs(m) and obs(b) == obs(m), 'TWICE: M.load'\n")
        n += 1
        ctx.case(("import-twice", kind))
        _twice(ctx, kind, script)
    # results of all kinds
    r_cases = {
        "result-state": "c = Circuit(2); c.add([gates.H(0), gates.CNOT(0, 1)]); r = c()\n",
        "result-state-dm": "c = Circuit(2, density_matrix=True); c.add([gates.H(0), gates.CNOT(0, 1)]); r = c()\n",
        "result-circuitresult": "c = Circuit(3); c.add([gates.H(0), gates.CNOT(0, 2), gates.RY(1, 0.8)]); c.add(gates.M(2, 0, register_name='a')); c.add(gates.M(1, register_name='b')); r = c(nshots=12); r.samples()\n",
        "result-circuitresult-nosamples": "c = Circuit(3); c.add([gates.H(0), gates.CNOT(0, 2)]); c.add(gates.M(2, 0)); r = c(nshots=12)\n",
        "result-circuitresult-dm": "c = Circuit(2, density_matrix=True); c.add([gates.H(0), gates.CNOT(0, 1)]); c.add(gates.M(1, 0, p0=0.2)); r = c(nshots=12); r.samples()\n",
        "result-outcomes": "c = Circuit(2); c.add([gates.H(0), gates.PauliNoiseChannel(0, [('X', 0.3)])]); c.add(gates.M(0, 1)); r = c(nshots=12)\n",
        "result-outcomes-collapse": "c = Circuit(2); c.add(gates.H(0)); c.add(gates.M(0, collapse=True)); c.add(gates.H(0)); c.add(gates.M(0, 1)); r = c(nshots=6)\n",
    }
    for kind, lines in r_cases.items():
        script = (PRE + TWICE_HELPERS + lines
                  + "def obs(x):\n    o = []\n    if hasattr(x, '_state'): o.append(np.asarray(x.state()).round(12).tolist())\n"
                  "    if hasattr(x, 'measurements') and x.has_samples(): o += [np.asarray(x.samples()).tolist(), dict(x.frequencies()), {k: dict(v) for k, v in x.frequencies(registers=True).items()}]\n"
                  "    if hasattr(x, 'measurements'): o.append(x.nshots)\n    return o\n"
                  "had = hasattr(r, 'measurements') and r.has_samples()\nd = r.to_dict()\nsnap = copy.deepcopy(d)\n"
                  "a = type(r).from_dict(d)\nmut = not deq(d, snap)\nb = type(r).from_dict(d)\n"
                  "if had or not hasattr(r, 'measurements'):\n"
                  "    assert deq(obs(a), obs(r)), 'first load differs'\n    assert deq(obs(b), obs(r)), 'TWICE: second load of the same payload differs'\n"
                  "else:\n    assert deq(obs(a)[0], obs(r)[0]) and deq(obs(b)[0], obs(r)[0]), 'TWICE: state differs'\n"
                  "assert not mut and deq(d, snap), 'MUTATES: the load changed the payload it was given'\n")
        n += 1
        ctx.case(("import-twice", kind))
        _twice(ctx, kind, script)
    bad = [f for f in ctx.failures if f["key"].startswith(("dict:import-twice:", "dict:import-mutates-payload:"))]
    ctx.ob("C13_search_import_twice", not bad, "search", f"{len(bad)} repeated imports fail")
    ctx.stat("import_twice_cases", n)


def _skippable(script):
    """rewrite `assert cond, 'TWICE…'` as `assert SKIP_TWICE or (cond), 'TWICE…'`."""
    out = ["SKIP_TWICE = False"]
    for line in script.split("\n"):
        if "assert " in line and ", 'TWICE" in line:
            head, rest = line.split("assert ", 1)
            cond, msg = rest.rsplit(", 'TWICE", 1)
            line = f"{head}assert SKIP_TWICE or ({cond}), 'TWICE{msg}"
        out.append(line)
    return "\n".join(out)


def _twice(ctx, kind, script):
    script = _skippable(script)
    env = {}
    try:
        exec(compile(script, "<c13-twice>", "exec"), env)
        return
    except SystemExit as e:
        if not e.code:
            return
        msg = f"exit {e.code}"
    except Exception as e:  # noqa: BLE001
        msg = f"{type(e).__name__}: {str(e)[:160]}"
    if msg.startswith("AssertionError: MUTATES"):
        key = f"dict:import-mutates-payload:{kind}"
    elif msg.startswith("AssertionError: first"):
        return  # a plain round-trip failure: reported by the single-import suites under their keys
    elif "from_dict" in msg and not msg.startswith("AssertionError"):
        key = f"dict:import-twice:{kind}"
    else:
        key = f"dict:import-twice:{kind}"
    ctx.fail(key, f"importing the same in-memory object twice ({kind}): {msg}", script, observed=msg, broken=["C13_search_import_twice"])
    if key.startswith("dict:import-twice:"):
        # was the payload changed by the first import?  (same script, second-import checks off)
        script_m = script.replace("SKIP_TWICE = False", "SKIP_TWICE = True", 1)
        try:
            exec(compile(script_m, "<c13-twice>", "exec"), {})
        except SystemExit:
            pass
        except Exception as e:  # noqa: BLE001
            if "MUTATES" in str(e):
                ctx.fail(f"dict:import-mutates-payload:{kind}", f"the import changes the object it is given ({kind}): {str(e)[:160]}", script_m,
                         broken=["C13_search_import_twice"])
    # a mutated payload usually also breaks the second import: report that key as well
    if key.startswith("dict:import-mutates-payload:"):
        script2 = script.replace("assert not mut and deq(raw, snap)", "assert True or deq(raw, snap)").replace("assert not mut and deq(d, snap)", "assert True or deq(d, snap)")
        env = {}
        try:
            exec(compile(script2, "<c13-twice>", "exec"), env)
        except SystemExit:
            pass
        except Exception as e:  # noqa: BLE001
            ctx.fail(f"dict:import-twice:{kind}", f"second import of the same in-memory object ({kind}): {type(e).__name__}: {str(e)[:160]}", script2,
                     broken=["C13_search_import_twice"])


# ---------------------------------------------------------------------------


def run(ctx):
    setup()
    del OBSERVED[:]
    MODULES, THEOREMS = registry(PROP)
    lab = labelled_classes()
    bad_names = names_table(ctx, lab)
    bad_args = C13_defs.args_table(ctx, lab)
    ok = build_and_audit(ctx, PROP, MODULES, THEOREMS, gen_obs=True)
    gen_ok = ok and not bad_names
    ctx.ob("C13_names_ok", gen_ok, "generated-kernel",
           "" if gen_ok else f"label does not resolve to its class / argument order differs for {bad_names}")
    # operand order per class (traced rows, lean/QV/Gen/C13_Ob1.lean); a class whose row
    # cannot pass is a failing input of the gate search below (broken=C13_args_ok)
    ctx.ob("C13_args_ok", ok and not bad_args, "generated-kernel",
           "" if ok and not bad_args else f"written operands are not the ones read back for {bad_args}")
    bad_names = sorted(set(bad_names) | set(bad_args))
    ctx.theorems = THEOREMS
    corr_gate_name(ctx, lab)
    ctx.notes.append("QASM: all labelled classes x boundary parameters x qubit orders; random register layouts; programs vs independent evaluator; "
                     "dict/JSON: every class x {plain, controlled_by, set_parameters, json}; results: 9 kinds x 11 access histories x 3 load paths")
    ctx.notes.append("reader internals inside the model (C13_defs): custom-gate expansion vs QASMParser.to_circuit (queue structure, flat gates, exact "
                     "parameter values) on nested / redefined / hijacking / unused-formal / erroneous programs; argument evaluation bit for bit on "
                     "parenthesis-free expressions; operand order of every labelled class traced into a kernel obligation")
    ctx.assumptions += [
        "float <-> text conversion (str(float), the openqasm3 lexer, python eval) is an oracle: parameters are opaque tokens in the model",
        "openqasm3's parser and numpy's save/load (pickle) are third-party oracles",
        "custom-gate model: the gate class constructors are oracles (arity via the signature table sent to the driver; a stored gate is cls(*qubits, *args), checked per class by C13_corr_def_storage)",
    ]
    search_gates(ctx, lab, bad_names)
    corr_and_search_layouts(ctx, lab)
    search_register_names(ctx)
    from props import basis_meas
    basis_meas.run(ctx, PROP, ['raw-from_dict', 'raw-from_dict-twice', 'qasm'])
    corr_reader_programs(ctx)
    C13_defs.run_suites(ctx)
    search_programs(ctx)
    corr_dict(ctx)
    search_dicts(ctx)
    search_histories(ctx)
    search_import_twice(ctx)
    if OBSERVED:
        ctx.notes.append("observations outside the property (foreign QASM programs, not exporter output): " + "; ".join(OBSERVED))
    scratch = tempfile.mkdtemp(prefix="c13_")
    try:
        search_results(ctx, scratch)
    finally:
        shutil.rmtree(scratch, ignore_errors=True)
    # every way of building a result object x accessor history before the dump; circuits with
    # rotated-basis measurements through raw / from_dict
    C13_results.run_suites(ctx)
