"""C09 — connectivity graphs that carry DATA: edge attributes (`weight` = 0.5 / 1 / 2 / 3.0 /
mixed, calibration figures under other names), node attributes, graph attributes, graphs built
with `add_weighted_edges_from` or from a weighted adjacency matrix (`nx.from_numpy_array`).

The property quantifies over every connected graph; which pairs of qubits are coupled is the
EDGE SET of the graph (`G.has_edge`), whatever numbers are attached to the edges.  Every case is
the usual C09 check (`check_routing` of props/C09.py): each two-qubit gate of the output on an
edge, routed == P.U with P from the reported final layout (exact Gaussian-integer data), layout a
bijection, measurements kept; in addition the caller's graph keeps its nodes, edges and all
attribute values.  A router call that does not return within the limit is a failure (`hangs`),
never a hang of the check.  Keys: `<router>:edge-attributes`.
"""
from __future__ import annotations

import networkx as nx

ATTR_SPEC_SRC = r'''
def build_attr_graph(case):
    """nx.Graph from plain data: case['edges'][k] carries the attribute dict case['edge_attrs'][k]."""
    nodes, edges, eattrs = case["nodes"], case["edges"], case["edge_attrs"]
    how = case.get("build", "add_edge")
    if how == "from_numpy":
        # weighted adjacency matrix in the order of `nodes`, then the node labels put on
        idx = {v: i for i, v in enumerate(nodes)}
        A = np.zeros((len(nodes), len(nodes)))
        for (a, b), d in zip(edges, eattrs):
            A[idx[a], idx[b]] = A[idx[b], idx[a]] = d["weight"]
        G = nx.relabel_nodes(nx.from_numpy_array(A), dict(enumerate(nodes)))
    elif how == "weighted_list":
        G = nx.Graph()
        G.add_nodes_from(nodes)
        G.add_weighted_edges_from([(a, b, d["weight"]) for (a, b), d in zip(edges, eattrs)])
    else:
        G = nx.Graph(**case.get("graph_attrs", {}))
        G.add_nodes_from(nodes)
        for (a, b), d in zip(edges, eattrs):
            G.add_edge(a, b, **d)
    for v, d in zip(nodes, case.get("node_attrs") or []):
        G.nodes[v].update(d)
    return G


def graph_data(G):
    return (sorted((repr(v), sorted(d.items())) for v, d in G.nodes(data=True)),
            sorted((sorted([repr(a), repr(b)]), sorted(d.items())) for a, b, d in G.edges(data=True)),
            sorted(G.graph.items()))


def run_attr_case(case, limit=10):
    G = build_attr_graph(case)
    plain = build_graph(case["edges"], case["nodes"])          # the edge SET decides adjacency
    assert set(map(frozenset, G.edges)) == set(map(frozenset, plain.edges)) and set(G.nodes) == set(plain.nodes)
    data0 = graph_data(G)
    router = make_router(case["router"], G, case.get("opts", {}))
    bad = []
    for k in range(case.get("calls", 1)):
        c = build_circuit(case["n"], case["wire_names"], case["gates"])
        before = snapshot(c)
        try:
            with time_limit(limit):
                routed, layout = router(c)
        except Exception as e:
            return bad + [(raise_kind(e, c.queue), f"call {k+1}: {type(e).__name__}: {e}")]
        bad += check_routing(c, plain, routed, layout, True, before)
        if graph_data(G) != data0:
            bad.append(("mutation", "nodes / edges / attribute values of the caller's graph changed"))
        if bad:
            break
    return bad
'''

WEIGHTS = [0.5, 1, 2, 3.0, 0.25, 1.5, 1.0]
OTHER_NAMES = ["fidelity", "error_rate", "length", "cost", "t2q_ns"]


def edge_attributes(rng, scheme, m):
    """attribute dicts for m edges."""
    if scheme.startswith("uniform"):
        w = {"uniform_half": 0.5, "uniform_one": 1, "uniform_two": 2, "uniform_three": 3.0}.get(scheme) or rng.choice(WEIGHTS)
        return [{"weight": w} for _ in range(m)]
    if scheme == "mixed":
        return [{"weight": rng.choice(WEIGHTS)} for _ in range(m)]
    if scheme == "mixed_int":
        return [{"weight": rng.randint(1, 3)} for _ in range(m)]
    if scheme == "some":          # only some edges carry a weight (the others count as 1 for networkx)
        return [({"weight": rng.choice(WEIGHTS)} if rng.random() < 0.5 else {}) for _ in range(m)]
    if scheme == "other_name":    # data under names that no networkx default looks at
        name = rng.choice(OTHER_NAMES)
        return [{name: round(rng.uniform(0.01, 5), 3)} for _ in range(m)]
    if scheme == "several":
        return [{"weight": rng.choice(WEIGHTS), "fidelity": round(rng.uniform(0.9, 1), 4), "tag": rng.choice(["a", "b"])}
                for _ in range(m)]
    return [{} for _ in range(m)]  # "nodes_only"


def run_suites(ctx, base):
    SPEC = dict(base.SPEC)
    exec(compile(ATTR_SPEC_SRC, "<C09 attribute spec>", "exec"), SPEC)
    run_attr_case = SPEC["run_attr_case"]
    rng = ctx.rng
    th = ctx.thorough
    failing = {}          # router -> [(case, bad)]
    CAP = 3               # a router that fails (possibly by not returning) is not run over and over

    def replay(case, kinds):
        return (base.SPEC_SRC + ATTR_SPEC_SRC + "\ncase = " + repr(case) + "\nbad = run_attr_case(case)\nprint(bad)\n"
                + f"assert not [b for b in bad if b[0] in {sorted(kinds)!r}], bad\n")

    def go(G0, router, scheme, build, style):
        if len(failing.get(router, [])) >= CAP:
            ctx.stat("attr_skipped_after_failures")
            return
        wire_names, edges = base.label_graph(rng, G0, style)
        n = len(wire_names)
        nodes = list(wire_names)
        rng.shuffle(nodes)                       # node order of the graph independent of the wire order
        if style == "id":
            nodes = list(wire_names)
        eattrs = edge_attributes(rng, scheme, len(edges))
        if build != "add_edge" and any("weight" not in d or len(d) != 1 for d in eattrs):
            build = "add_edge"
        node_attrs = None
        if scheme in ("nodes_only", "several") or rng.random() < 0.25:
            node_attrs = [{"weight": rng.choice(WEIGHTS), "t1_us": rng.randint(20, 90)} if rng.random() < 0.8 else {} for _ in nodes]
        gl = base.random_recipe(rng, n, rng.randint(2, 10), "int", rng.choice(["none", "none", "trailing"]))
        # a two-qubit gate between wires that sit on a non-edge, so that SWAPs are needed
        pos = {w: i for i, w in enumerate(wire_names)}
        H = base.SPEC["build_graph"](edges, nodes)
        non = [(a, b) for a in nodes for b in nodes if a != b and not H.has_edge(a, b)]
        if non:
            a, b = rng.choice(non)
            gl.insert(rng.randint(0, min(2, len(gl))), rng.choice(["gates.CNOT({0},{1})", "gates.CZ({0},{1})"]).format(pos[a], pos[b]))
        opts = base.sabre_opts(rng) if router == "Sabre" else ({"seed": rng.randrange(1000)} if router == "ShortestPaths" else {})
        case = {"router": router, "n": n, "nodes": nodes, "wire_names": list(wire_names), "edges": edges,
                "edge_attrs": eattrs, "node_attrs": node_attrs, "build": build, "opts": opts, "gates": gl,
                "calls": 2 if rng.random() < 0.2 else 1}
        if build == "add_edge" and rng.random() < 0.3:
            case["graph_attrs"] = {"name": "device", "weight": 2}
        ctx.case(("attrs", router, scheme, build, tuple(edges), repr(eattrs), tuple(gl)))
        ctx.stat("attr_cases")
        ctx.stat("attr_scheme_" + scheme)
        ctx.stat("attr_build_" + build)
        ctx.stat("attr_router_" + router)
        try:
            bad = run_attr_case(case)
        except Exception as e:      # the harness itself could not build the case
            bad = [("harness", f"{type(e).__name__}: {e}")]
        if [k for k, _ in bad] == ["raises:KeyError"]:     # known split defect of multi-qubit measurements: not this suite
            ctx.stat("attr_known_split_defect")
            return
        if bad:
            failing.setdefault(router, []).append((case, bad))

    schemes = ["uniform_half", "uniform_two", "uniform_three", "uniform_one", "uniform", "mixed", "mixed", "mixed_int",
               "some", "other_name", "several", "nodes_only"]
    builds = ["add_edge", "add_edge", "weighted_list", "from_numpy"]
    styles = ["id", "perm", "str"]
    graphs = [g for g in base.atlas_graphs(5) if g.number_of_nodes() >= 3]
    graphs += [nx.path_graph(6), nx.cycle_graph(6), nx.convert_node_labels_to_integers(nx.grid_2d_graph(2, 3)),
               nx.path_graph(7), nx.star_graph(5)]
    reps = 6 if th else 2
    k = rng.randrange(len(schemes))
    for G0 in graphs:
        for router in ("Sabre", "ShortestPaths"):
            for r in range(reps):
                k += 1
                go(G0, router, schemes[k % len(schemes)], rng.choice(builds), styles[(k + r) % 3])
    for r in range(36 if th else 12):
        go(nx.star_graph(4), "StarConnectivityRouter", schemes[r % len(schemes)], rng.choice(builds), styles[r % 3])

    nbad = sum(len(v) for v in failing.values())
    for router, lst in sorted(failing.items()):
        # prefer an input on which the router returns (a wrong circuit) to one on which it does not return
        case, bad = sorted(lst, key=lambda cb: ("hangs" in {k for k, _ in cb[1]}, len(cb[0]["gates"])))[0]
        kinds = {k for k, _ in bad}
        cur = dict(case)
        if "hangs" not in kinds:
            gl = list(case["gates"])
            for i in range(len(gl) - 1, -1, -1):      # shrink the gate list
                trial = gl[:i] + gl[i + 1:]
                try:
                    if kinds <= {k for k, _ in run_attr_case(dict(cur, gates=trial), limit=5)}:
                        gl = trial
                except Exception:
                    pass
            cur["gates"] = gl
            cur["calls"] = case.get("calls", 1)
        try:
            b2 = (run_attr_case(cur) if "hangs" not in kinds else None) or bad
        except Exception:
            cur, b2 = case, bad
        kinds2 = {k for k, _ in b2}
        ctx.fail(f"{router}:edge-attributes",
                 f"{router} on the graph with edges {cur['edges']} carrying attributes {cur['edge_attrs']}"
                 f"{' and node attributes' if cur.get('node_attrs') else ''} (built by {cur['build']}), wires {cur['wire_names']}, "
                 f"gates {cur['gates']}: {b2[0][0]}: {b2[0][1]}",
                 replay(cur, kinds2),
                 expected="a routed circuit whose two-qubit gates sit on edges of the graph (G.has_edge) and whose operator is P.U "
                          "with P from the final layout, exactly as for the same graph without attributes",
                 observed=[list(b) for b in b2][:3], broken=["C09_search_edge_attributes"])
    ctx.ob("C09_search_edge_attributes", nbad == 0, "search",
           f"{nbad} failing cases; first: {next(iter(failing.values()))[0][1][:2]}" if nbad else "")
    ctx.sample({"suite": "edge / node attributes", "meaning": "all connected graphs on 3-5 nodes, paths / rings / grid / stars up to 7 nodes whose "
                "edges carry weight 0.5 / 1 / 2 / 3.0 / mixed / integer / partly missing, or calibration data under other names, node and graph "
                "attributes, built by add_edge(**attrs), add_weighted_edges_from or nx.from_numpy_array of a weighted adjacency matrix; Sabre, "
                "ShortestPaths and the star router; the usual C09 check against the edge SET of the graph, the caller's graph and its attribute "
                "values unchanged; every router call under a time limit"})
