"""C13 (deepening) — result objects by the way they are BUILT x the accessor history before
the dump.

`search_results` of C13.py dumps results returned by executions.  Here every constructor
path of `MeasurementOutcomes` / `CircuitResult` / `QuantumState` is driven directly:

  gates          measurement gates that already hold the shots (`gate.result.register_samples`,
                 the way hardware drivers assemble a result), no samples / probabilities given
  samples        `samples=` array
  probabilities  `probabilities=` array (samples / frequencies are drawn on demand)
  cr-samples / cr-state   CircuitResult with / without `samples=`
  state          QuantumState

x histories before the dump (none, samples(), frequencies(), both orders, register views)
x {to_dict -> from_dict, dump -> cls.load, dump -> load_result}.  What the dumped object has
DETERMINED (has_samples() -> samples and frequencies in every view; nshots; the registers;
the state) must be returned by the loaded object; has_samples() of the dumped object implies
has_samples() of the loaded one.  The
frequencies-only case (drawn without samples, known finding K13-2) is left to
`search_results`: frequencies are compared only when samples exist.
The Lean counterpart is lean/QV/Model/SerialGates.lean (driver command RESG).
"""
from __future__ import annotations

import os

import numpy as np

from vlib.driver import run_driver

DRIVER = "DriverC13.lean"
PRE = ("import numpy as np, qibo, warnings, tempfile, os\nwarnings.simplefilter('ignore')\nfrom qibo import gates, Circuit\n"
       "from qibo.backends import NumpyBackend\nfrom qibo.result import MeasurementOutcomes, CircuitResult, QuantumState, load_result\n"
       "qibo.set_backend('numpy')\n")

KINDS = ["gates", "samples", "probabilities", "cr-samples", "cr-state", "state"]
HISTS = [[], ["S"], ["F"], ["S", "F"], ["F", "S"], ["Sr"], ["Fr"], ["Fd", "S"]]
VIAS = ["dict", "file", "load_result"]
LAYOUTS = [[(None, (2, 0)), (None, (3,))], [("a", (3, 0)), ("b", (1,))], [("a", (1, 2, 0))], [("r0", (0,)), ("r1", (2,)), ("r2", (3,))], [("m", (2, 1))]]

CALLS = {"S": "r.samples()", "F": "r.frequencies()", "Sr": "r.samples(registers=True)", "Fr": "r.frequencies(registers=True)",
         "Fd": "r.frequencies(binary=False)"}


def build_src(kind, layout, nshots, seed):
    """python source that builds the result `r` (shared by the in-process run and the replay)."""
    s = (f"rng = np.random.default_rng({seed})\nbackend = NumpyBackend()\nnshots = {nshots}\n"
         "c0 = Circuit(4); c0.add(gates.H(0)); c0.add(gates.CNOT(0, 3)); c0.add(gates.RY(1, 0.7))\nstate = np.asarray(c0().state())\n"
         "c = Circuit(4); c.add(gates.H(0)); c.add(gates.CNOT(0, 3)); c.add(gates.RY(1, 0.7))\n")
    for name, qs in layout:
        s += f"c.add(gates.M(*{tuple(qs)!r}, register_name={name!r}))\n" if name else f"c.add(gates.M(*{tuple(qs)!r}))\n"
    nm = sum(len(qs) for _, qs in layout)
    s += f"ms = c.measurements\nshots = rng.integers(0, 2, size=(nshots, {nm}))\n"
    if kind == "gates":
        s += ("col = 0\nfor g in ms:\n    k = len(g.target_qubits)\n    g.result.register_samples(shots[:, col:col + k]); col += k\n"
              "r = MeasurementOutcomes(ms, backend=backend, nshots=nshots)\n")
    elif kind == "samples":
        s += "r = MeasurementOutcomes(ms, backend=backend, samples=shots, nshots=nshots)\n"
    elif kind == "probabilities":
        s += f"p = rng.random({2 ** nm}); p = p / p.sum()\nr = MeasurementOutcomes(ms, backend=backend, probabilities=p, nshots=nshots)\n"
    elif kind == "cr-samples":
        s += "r = CircuitResult(state, ms, backend=backend, samples=shots, nshots=nshots)\n"
    elif kind == "cr-state":
        s += "r = CircuitResult(state, ms, backend=backend, nshots=nshots)\n"
    else:
        s += "r = QuantumState(state, backend=backend)\n"
    return s


OBSERVE_SRC = '''
def observe(r):
    out = {"type": type(r).__name__}
    if hasattr(r, "state") and type(r).__name__ != "MeasurementOutcomes":
        out["state"] = np.asarray(r.state()).round(12).tolist()
    if type(r).__name__ == "QuantumState":
        return out
    out["has_samples"] = bool(r.has_samples())
    out["nshots"] = int(r.nshots)
    out["registers"] = [(m.register_name, tuple(m.target_qubits)) for m in r.measurements]
    if out["has_samples"]:
        out["samples"] = np.asarray(r.samples()).tolist()
        out["samples_dec"] = np.asarray(r.samples(binary=False)).tolist()
        out["samples_reg"] = {k: np.asarray(v).tolist() for k, v in r.samples(registers=True).items()}
        out["freq"] = dict(r.frequencies())
        out["freq_dec"] = {int(k): int(v) for k, v in r.frequencies(binary=False).items()}
        out["freq_reg"] = {k: dict(v) for k, v in r.frequencies(registers=True).items()}
    return out

def roundtrip(r, via):
    if via == "dict":
        return type(r).from_dict(r.to_dict())
    d = tempfile.mkdtemp()
    p = os.path.join(d, "r.npy")
    try:
        r.dump(p)
        return load_result(p) if via == "load_result" else type(r).load(p)
    finally:
        import shutil
        shutil.rmtree(d, ignore_errors=True)
'''


def script(kind, layout, nshots, seed, hist, via):
    s = PRE + build_src(kind, layout, nshots, seed) + OBSERVE_SRC
    s += "".join(CALLS[h] + "\n" for h in hist)
    s += "had = bool(r.has_samples()) if hasattr(r, 'has_samples') else None\n"
    s += f"r2 = roundtrip(r, {via!r})\n"
    s += "a, b = observe(r), observe(r2)\n"
    s += "if had is not None: assert a['has_samples'] == had, 'the dump changed has_samples() of the dumped object'\n"
    if kind in ("gates", "samples", "cr-samples"):
        s += "assert a['has_samples'] and a['samples'] == shots.tolist(), 'the result does not report the shots it was built from'\n"
    # a loaded object may have drawn samples the dumped one had not drawn yet (CircuitResult.from_dict
    # samples at once): nothing determined is lost; the converse is a loss
    s += "bad = [k for k in a if a[k] != b.get(k) and not (k == 'has_samples' and not a[k])]\nassert not bad, (bad, {k: (a[k], b.get(k)) for k in bad[:2]})\n"
    return s


def model_line(kind, hist):
    """RESG <kind: G|S|P> nops ops — the Lean state machine with the gates' store."""
    k = {"gates": "G", "samples": "S", "probabilities": "P", "cr-samples": "S", "cr-state": "P"}[kind]
    ops = ["S" if h.startswith("S") else "F" for h in hist]
    return f"RESG {k} {len(ops)} " + " ".join(ops)


def search_constructed_results(ctx):
    rng = ctx.rng
    lines, meta = [], []
    nbad = 0
    for kind in KINDS:
        for hist in (HISTS if kind != "state" else [[]]):
            for via in (VIAS if ctx.thorough or kind == "gates" else [rng.choice(VIAS)]):
                layout = rng.choice(LAYOUTS)
                nshots = rng.choice([1, 5, 23])
                seed = rng.randint(0, 10**6)
                src = script(kind, layout, nshots, seed, hist, via)
                ctx.case(("constructed-result", kind, tuple(hist), via, nshots, tuple(str(n) for n, _ in layout)))
                ctx.stat(f"constructed_result_{kind}")
                env = {}
                prob = None
                try:
                    np.random.seed(seed)
                    exec(compile(src, "<c13-result>", "exec"), env)
                except AssertionError as e:
                    prob = f"AssertionError: {str(e)[:200]}"
                except Exception as e:  # noqa: BLE001
                    prob = f"{type(e).__name__}: {str(e)[:200]}"
                if kind != "state":
                    lines.append(model_line(kind, hist))
                    a, b = env.get("a"), env.get("b")
                    s_same = a is not None and b is not None and all(a.get(k) == b.get(k) for k in ("has_samples", "samples", "samples_dec", "samples_reg"))
                    meta.append((kind, hist, via, bool(a and a.get("has_samples")), s_same, prob))
                if prob:
                    nbad += 1
                    ctx.fail(f"result:constructed:{kind}",
                             f"result built from {kind}, accessed {hist or 'nothing'} before the dump, via {via}: {prob}",
                             src, expected="the loaded result has the samples / frequencies / has_samples / nshots / registers of the dumped one",
                             observed=prob, broken=["C13_search_constructed_results", "C13_corr_result_gates_sm"])
    ctx.ob("C13_search_constructed_results", nbad == 0, "search", f"{nbad} constructed results do not round-trip")
    # correspondence with the Lean model (QV.Model.SerialGates): has_samples of the dumped
    # object, and "the loaded object returns the same samples"
    ans = run_driver(lines, driver=DRIVER)
    bad = []
    for a, (kind, hist, via, has, s_same, prob) in zip(ans, meta):
        m_has, m_same = a.split()
        if (m_has == "true") != has or (m_same == "same" and not s_same):
            bad.append((kind, hist, via, a, has, s_same))
    ctx.ob("C13_corr_result_gates_sm", not bad, "correspondence", f"{len(bad)} differ, e.g. {bad[:2]}")


# ---------------------------------------------------------------------------
# circuits with measurements in a rotated basis: raw -> from_dict keeps the statistics

BASIS_CASES = [
    ["gates.M(0, basis=gates.X)"],
    ["gates.M(1, 0, basis=gates.Y)"],
    ["gates.M(2, 0, basis=[gates.X, gates.Y], register_name='a')", "gates.M(1, register_name='b')"],
    ["gates.M(0, basis='X', register_name='a')", "gates.M(2, 1, basis=[gates.Z, gates.Y], register_name='b')"],
    ["gates.M(1, basis=gates.Y, p0=0.1)"],
    ["gates.M(0, 1, 2, basis=[gates.Y, gates.Z, gates.X])"],
    # registers named by Circuit.add, and a collapsing measurement (raw of the executed circuit)
    ["gates.M(0)", "gates.M(2, 1)"],
    ["gates.M(1, basis=gates.X)", "gates.M(0)"],
    ["gates.M(1, collapse=True)", "gates.H(1)", "gates.M(1, 0)"],
    ["gates.M(2, 0, collapse=True)", "gates.X(2)", "gates.M(2, register_name='fin')"],
]

BASIS_CHECK = '''
def sig(k):
    return ([(type(g).__name__, tuple(g.qubits)) for g in k.queue], {n: tuple(q) for n, q in k.measurement_tuples.items()})
def probs(k):
    k = k.copy(deep=True)
    qs = [q for m in k.measurements for q in m.target_qubits]
    return np.asarray(k().state()), qs
import json
routes = {"raw": lambda k: Circuit.from_dict(k.raw), "json": lambda k: Circuit.from_dict(json.loads(json.dumps(k.raw))),
          "raw-twice": lambda k: Circuit.from_dict(Circuit.from_dict(k.raw).raw)}
c2 = routes[route](c)
assert sig(c2) == sig(c), ("queue / registers differ", sig(c2), sig(c))
allm = lambda k: [(m.register_name, tuple(m.target_qubits), bool(m.collapse), m.bitflip_map) for m in k.queue if isinstance(m, gates.M)]
assert allm(c2) == allm(c), (allm(c2), allm(c))
if not any(m[2] for m in allm(c)):  # a collapse draws: the states of two executions differ legitimately
    s1, q1 = probs(c); s2, q2 = probs(c2)
    assert q1 == q2 and np.allclose(s1, s2, atol=1e-12), "state before the measurement differs (basis rotations)"
else:
    r2 = c2(nshots=4)
    assert {k: np.asarray(v).shape for k, v in r2.samples(registers=True).items()} == {n: (4, len(q)) for n, q in c.measurement_tuples.items()}
'''


def search_basis_measurements(ctx):
    nbad = 0
    for ms in BASIS_CASES:
        for executed in (False, True):
            for route in ("raw", "json", "raw-twice"):
                src = (PRE + "c = Circuit(3)\nc.add(gates.H(0)); c.add(gates.RY(1, 0.9)); c.add(gates.CNOT(0, 2)); c.add(gates.S(2))\n"
                       + "".join(f"c.add({m})\n" for m in ms)
                       + ("c(nshots=5)\n" if executed else "") + f"route = {route!r}\n" + BASIS_CHECK)
                ctx.case(("basis-measurement", tuple(ms), executed, route))
                ctx.stat("basis_measurement_roundtrips")
                try:
                    exec(compile(src, "<c13-basis>", "exec"), {})
                except TypeError as e:
                    if route == "json" and "JSON serializable" in str(e):
                        ctx.stat("basis_measurement_json_export_raises")  # export refuses: fine
                        continue
                    prob = f"TypeError: {str(e)[:160]}"
                except Exception as e:  # noqa: BLE001
                    prob = f"{type(e).__name__}: {str(e)[:160]}"
                else:
                    continue
                nbad += 1
                ctx.fail("dict:M:basis-circuit", f"Circuit.from_dict(c.raw) with {ms} ({route}, {'after' if executed else 'before'} an execution): {prob}",
                         src, expected="same queue, registers and statistics", observed=prob, broken=["C13_search_basis_measurements"])
    ctx.ob("C13_search_basis_measurements", nbad == 0, "search", f"{nbad} circuits with rotated-basis measurements do not round-trip through raw/from_dict")


# ---------------------------------------------------------------------------
# circuit-level attributes that `raw` serialises: set at construction AND changed later

ATTR_CHECK = '''
import json
def kind_and_state(k):
    k2 = k.copy(deep=True)
    k2.density_matrix = k.density_matrix  # the copy is only a way to execute without side effects
    st = np.asarray(NumpyBackend().execute_circuit(k2, nshots=3).state())
    return st
routes = {"raw": lambda k: Circuit.from_dict(k.raw), "json": lambda k: Circuit.from_dict(json.loads(json.dumps(k.raw))),
          "raw-twice": lambda k: Circuit.from_dict(Circuit.from_dict(k.raw).raw)}
c2 = routes[route](c)
cur = (c.nqubits, bool(c.density_matrix), list(c.wire_names))
got = (c2.nqubits, bool(c2.density_matrix), list(c2.wire_names))
assert got == cur, ("nqubits / density_matrix / wire_names", got, cur)
assert [(type(g).__name__, tuple(g.qubits)) for g in c2.queue] == [(type(g).__name__, tuple(g.qubits)) for g in c.queue]
s1, s2 = kind_and_state(c), kind_and_state(c2)
want = (2 ** c.nqubits,) * (2 if c.density_matrix else 1)
assert s1.shape == want, ("the circuit itself is not executed as its flag says", s1.shape)
assert s2.shape == s1.shape and np.allclose(s1, s2, atol=1e-12), ("executed state", s2.shape, s1.shape)
'''

WIRE_SETS = ["None", "['a', 'b', 'c']", "['q2', 'q0', 'q1']", "[5, 3, 1]"]


def search_circuit_attributes(ctx):
    rng = ctx.rng
    ctors = ["Circuit(3)", "Circuit(3, density_matrix=True)", "Circuit(3, wire_names=['x', 'y', 'z'])",
             "Circuit(wire_names=['w0', 'w1', 'w2'])", "Circuit(3, density_matrix=True, wire_names=['x', 'y', 'z'])",
             "Circuit(nqubits=3, density_matrix=False)"]
    body = "c.add(gates.H(0)); c.add(gates.RY(1, 0.4)); c.add(gates.CNOT(0, 2))\n"
    meas = "c.add(gates.M(2, 0, register_name='out'))\n"
    # actions after construction; every single one with every constructor, then random sequences
    actions = {
        "dm-on": "c.density_matrix = True\n",
        "dm-off": "c.density_matrix = False\n",
        "pqc": "from qibo.quantum_info import pqc_integral\npqc_integral(c, power_t=1, samples=2, backend=NumpyBackend())\nc.set_parameters([0.4])\n",
        "execute": "c(nshots=2)\n",
    }
    for i, w in enumerate(WIRE_SETS):
        actions[f"wires-{i}"] = f"c.wire_names = {w}\n"
    plans = [(ct, [a], True, pos) for ct in ctors for a in actions for pos in ("before-gates", "after-gates")]
    plans = [p for p in plans if not (p[1] == ["pqc"] and p[3] == "before-gates")]
    for _ in range(40 if ctx.thorough else 14):
        plans.append((rng.choice(ctors), [rng.choice(list(actions)) for _ in range(rng.randint(2, 4))], rng.random() < 0.6,
                      rng.choice(["before-gates", "after-gates"])))
    plans.append((ctors[0], [], True, "after-gates"))
    nbad = 0
    for ct, acts, with_m, pos in plans:
        acts = [a for a in acts if not (a == "pqc" and (pos == "before-gates" or with_m))] if "pqc" in acts else acts
        with_meas = with_m and "pqc" not in acts
        for route in (("raw", "json", "raw-twice") if ctx.thorough else ("raw", rng.choice(["json", "raw-twice"]))):
            act_src = "".join(actions[a] for a in acts)
            src = PRE + f"c = {ct}\n"
            if pos == "before-gates" and "execute" not in acts:
                src += act_src + body + (meas if with_meas else "")
            else:
                src += body + (meas if with_meas else "") + act_src
            src += f"route = {route!r}\n" + ATTR_CHECK
            ctx.case(("circuit-attributes", ct, tuple(acts), pos, with_meas, route))
            ctx.stat("circuit_attribute_roundtrips")
            try:
                exec(compile(src, "<c13-attrs>", "exec"), {})
                continue
            except AssertionError as e:
                prob = f"AssertionError: {str(e)[:200]}"
            except Exception as e:  # noqa: BLE001
                prob = f"{type(e).__name__}: {str(e)[:200]}"
            nbad += 1
            what = "density_matrix" if any(a.startswith(("dm", "pqc")) for a in acts) else ("wire_names" if any(a.startswith("wires") for a in acts) else "construction")
            ctx.fail(f"dict:circuit-attributes:{what}", f"{ct} then {acts or 'nothing'} ({pos}), Circuit.from_dict(c.raw) via {route}: {prob}",
                     src, expected="the rebuilt circuit has the CURRENT nqubits, density_matrix, wire_names and is executed to the same kind of state",
                     observed=prob, broken=["C13_search_circuit_attributes"])
    ctx.ob("C13_search_circuit_attributes", nbad == 0, "search", f"{nbad} circuits do not keep their current attributes through raw/from_dict")


def run_suites(ctx):
    search_constructed_results(ctx)
    search_basis_measurements(ctx)
    search_circuit_attributes(ctx)
