"""C18 — quantum-information measures match their definitions; random generators are valid
and reproducible.

Three ingredients (tools/README.md):
  * theorems about the Lean models QV/Model/Linalg.lean (partial_trace both branches,
    partial_transpose, Schmidt reshape, purity-type contractions) and
    QV/Model/ClassicalDist.lean (hamming_*, total variation, Hellinger algebra), plus the
    kind-validity algebra of the generators (QV/Props/C18c.lean, C18d.lean: BCSZ channels are
    CPTP in both vectorisation orders, Bures / Ginibre states) and the scalar algebra of the
    measures (QV/Props/C18e.lean), instantiated on the real functions by props/C18_algebra.py;
  * exact correspondence of those models with the REAL qibo functions (DriverC18.lean,
    Gaussian-integer / integer / rational data);
  * direct search on the real code: every public measure against an INDEPENDENT reference
    written here from the textbook definition, continuity of the documented shortcuts,
    vector-vs-matrix inputs, every generator option combination (kind validity, seeds).
"""
from __future__ import annotations

import itertools
import math
import random as pyrandom
import traceback
import warnings
from fractions import Fraction

import numpy as np

from vlib.driver import gi_tokens, parse_gi, run_driver
from vlib.proofs import build_and_audit, registry

PROP = "C18"
DRIVER = "DriverC18.lean"
EXTRA_MODULES = ["QV.Model.Table", "QV.Core.GI", "QV.Model.Linalg", "QV.Model.ClassicalDist", "QV.Model.Fusion"]

HEADER = """import numpy as np, warnings
warnings.filterwarnings('ignore')
from qibo import set_backend, gates, Circuit
set_backend('numpy')
from qibo.quantum_info import *
from qibo.quantum_info.utils import *
from qibo.quantum_info.metrics import *
from qibo.quantum_info.entropies import *
from qibo.quantum_info.entanglement import *
from qibo.quantum_info.linalg_operations import *
from qibo.quantum_info.random_ensembles import *
inf = np.inf
"""


# ----------------------------------------------------------------------------------------
# helpers
# ----------------------------------------------------------------------------------------
def _lit(x):
    """python literal of an input (arrays as nested lists of complex)."""
    if isinstance(x, np.ndarray):
        return f"np.array({x.tolist()!r})"
    if isinstance(x, np.generic):
        return repr(x.item())
    return repr(x)


def snippet(setup, call, expected, tol, extra=""):
    """self-contained replay: exit status != 0 iff `call` still differs from `expected`."""
    lines = [HEADER]
    for k, v in setup.items():
        lines.append(f"{k} = {_lit(v)}")
    if extra:
        lines.append(extra)
    lines.append(f"got = {call}")
    lines.append(f"exp = {_lit(np.asarray(expected)) if not isinstance(expected, str) else expected}")
    lines.append(f"err = float(np.max(np.abs(np.asarray(got, dtype=complex) - np.asarray(exp, dtype=complex))))")
    lines.append(f"assert err <= {tol!r}, (got, exp, err)")
    return "\n".join(lines) + "\n"


def raise_snippet(setup, call, extra=""):
    lines = [HEADER]
    for k, v in setup.items():
        lines.append(f"{k} = {_lit(v)}")
    if extra:
        lines.append(extra)
    lines.append(f"got = {call}")
    return "\n".join(lines) + "\n"


def gi_rand(rng, shape, lo=-3, hi=3):
    n = int(np.prod(shape))
    a = np.array([complex(rng.randint(lo, hi), rng.randint(lo, hi)) for _ in range(n)])
    return a.reshape(shape)


def nprng(ctx):
    return np.random.default_rng(ctx.rng.randrange(2**32))


def rand_dm(g, d, rank=None):
    r = rank or d
    a = g.normal(size=(d, r)) + 1j * g.normal(size=(d, r))
    m = a @ a.conj().T
    return m / np.trace(m)


def rand_sv(g, d):
    v = g.normal(size=d) + 1j * g.normal(size=d)
    return v / np.linalg.norm(v)


def proj(v):
    return np.outer(v, v.conj())


def herm_eigs(m):
    m = np.asarray(m, dtype=complex)
    return np.linalg.eigvalsh((m + m.conj().T) / 2)


def psd_sqrt(m):
    m = np.asarray(m, dtype=complex)
    w, v = np.linalg.eigh((m + m.conj().T) / 2)
    return (v * np.sqrt(np.clip(w, 0, None))) @ v.conj().T


def psd_pow(m, a):
    m = np.asarray(m, dtype=complex)
    w, v = np.linalg.eigh((m + m.conj().T) / 2)
    w = np.clip(w, 0, None)
    big = w > 1e-13 * max(w.max(), 1e-300)
    p = np.zeros_like(w)
    p[big] = w[big] ** a
    if a == 0:
        p[:] = 1.0  # numpy/scipy convention for the zero-th matrix power: identity
    return (v * p) @ v.conj().T


def ref_fidelity(r, s):
    """(tr sqrt(sqrt(r) s sqrt(r)))^2 = (nuclear norm of sqrt(r) sqrt(s))^2."""
    return float(np.sum(np.linalg.svd(psd_sqrt(r) @ psd_sqrt(s), compute_uv=False)) ** 2)


def as_dm(x):
    x = np.asarray(x, dtype=complex)
    return proj(x) if x.ndim == 1 else x


def ref_ptrace(rho, n, traced):
    """textbook partial trace by explicit loops over bit labels (kept qubits ascending)."""
    traced = list(traced)
    keep = [q for q in range(n) if q not in traced]
    t = np.asarray(rho).reshape([2] * (2 * n))
    out = np.zeros((2 ** len(keep),) * 2, dtype=complex)
    for x in itertools.product([0, 1], repeat=n):
        for y in itertools.product([0, 1], repeat=n):
            if all(x[q] == y[q] for q in traced):
                i = sum(x[q] << (len(keep) - 1 - k) for k, q in enumerate(keep))
                j = sum(y[q] << (len(keep) - 1 - k) for k, q in enumerate(keep))
                out[i, j] += t[x + y]
    return out


def ref_ptranspose(rho, n, part):
    part = set(part)
    d = 2**n
    out = np.zeros((d, d), dtype=complex)
    for i in range(d):
        for j in range(d):
            bi = [(i >> (n - 1 - q)) & 1 for q in range(n)]
            bj = [(j >> (n - 1 - q)) & 1 for q in range(n)]
            ni = [bj[q] if q in part else bi[q] for q in range(n)]
            nj = [bi[q] if q in part else bj[q] for q in range(n)]
            out[i, j] = rho[int("".join(map(str, ni)), 2), int("".join(map(str, nj)), 2)]
    return out


def entropy_of_spectrum(w, base):
    w = np.clip(np.real(w), 0, None)
    w = w[w > 0]
    return float(-np.sum(w * np.log(w)) / math.log(base))


def ordered_subsets(n, kmax=None):
    for k in range(0, (n if kmax is None else kmax) + 1):
        yield from itertools.permutations(range(n), k)


class Tally:
    def __init__(self, ctx, name):
        self.ctx, self.name, self.bad = ctx, name, 0

    def fail(self, key, what, py, expected=None, observed=None):
        self.bad += 1
        self.ctx.fail(key, what, py, expected=expected, observed=observed, broken=[self.name])

    def done(self, detail=""):
        self.ctx.ob(self.name, self.bad == 0, "correspondence" if "_corr_" in self.name else "search",
                    f"{self.bad} failing cases {detail}" if self.bad else "")


# ----------------------------------------------------------------------------------------
# A. exact correspondence model <-> real code
# ----------------------------------------------------------------------------------------
def corr_partial_trace(ctx):
    from qibo.quantum_info import partial_trace

    T = Tally(ctx, "C18_corr_partial_trace")
    rng = ctx.rng
    cases = []  # (n, traced (as passed), kind, state)
    nmax_ex = 3
    for n in range(1, nmax_ex + 1):
        for tr in ordered_subsets(n):
            for kind in ("dm", "sv"):
                cases.append((n, list(tr) if rng.random() < 0.5 else tuple(tr), kind))
    for n in ([4, 5] if ctx.thorough else [4]):
        allsub = list(ordered_subsets(n))
        pick = allsub if (n == 4 and ctx.thorough) else rng.sample(allsub, 60 if n == 4 else 80)
        # always the empty / full / descending ones
        pick += [(), tuple(range(n)), tuple(reversed(range(n))), (n - 1, 0)]
        for tr in pick:
            for kind in ("dm", "sv"):
                cases.append((n, list(tr) if rng.random() < 0.5 else tuple(tr), kind))
    if not ctx.thorough:
        for tr in [(4, 0, 2), (1, 3), (), (0, 1, 2, 3, 4), (3,)]:
            cases.append((5, list(tr), "dm"))
            cases.append((5, list(tr), "sv"))
    # malformed: duplicates / out of range -> the real code must raise, the model says ERR
    for n, tr in [(2, [0, 0]), (3, [1, 2, 1]), (2, [2]), (3, [0, 3]), (1, [1])]:
        for kind in ("dm", "sv"):
            cases.append((n, tr, kind))
    lines, meta = [], []
    for n, tr, kind in cases:
        d = 2**n
        st = gi_rand(rng, (d, d)) if kind == "dm" else gi_rand(rng, (d,))
        op = "PTDM" if kind == "dm" else "PTSV"
        lines.append(f"{op} {n} {len(tr)} {' '.join(map(str, tr))} {gi_tokens(st)}")
        meta.append((n, tr, kind, st, False))
        if kind == "dm":
            lines.append(f"PTSPEC {n} {len(tr)} {' '.join(map(str, tr))} {gi_tokens(st)}")
            meta.append((n, tr, kind, st, True))
    outs = run_driver(lines, driver=DRIVER)
    cache = {}
    for (n, tr, kind, st, spec), out in zip(meta, outs):
        keyc = (n, tuple(tr), kind, st.tobytes())
        if keyc not in cache:
            before = st.copy()
            try:
                real = np.asarray(partial_trace(st.copy() if False else st, tr))
                err = None
            except Exception as e:  # noqa: BLE001
                real, err = None, e
            cache[keyc] = (real, err, np.array_equal(before, st))
        real, err, unchanged = cache[keyc]
        ctx.case(("ptrace", n, tuple(tr), kind, spec))
        ctx.stat(f"ptrace_{kind}_n{n}_t{len(tr)}")
        setup = {"state": st}
        call = f"partial_trace(state, {tr!r})"
        key = f"partial_trace:{'density-matrix' if kind == 'dm' else 'statevector'}"
        if out == "ERR":
            if err is None:
                T.fail(key + ":malformed-accepted", f"partial_trace accepts the malformed qubit list {tr} on {n} qubits",
                       raise_snippet(setup, call) + "raise SystemExit(1)\n", "an exception", str(real))
            continue
        if err is not None:
            T.fail(key + ":raises", f"partial_trace({kind}, {tr}) on {n} qubits raises {type(err).__name__}: {err}",
                   raise_snippet(setup, call), out, repr(err))
            continue
        k = n - len(tr)
        model = parse_gi(out).reshape(2**k, 2**k)
        if not unchanged:
            T.fail(key + ":mutates-input", f"partial_trace({kind}, {tr}) modifies its input array",
                   raise_snippet(setup, "state.copy()", "") + f"partial_trace(state, {tr!r})\nassert np.array_equal(got, state)\n")
        if real.shape != model.shape or not np.array_equal(real, model):
            ref = ref_ptrace(as_dm(st), n, tr)
            if real.shape != ref.shape or not np.allclose(real, ref, atol=1e-9):
                T.fail(key, f"partial_trace of a {'density matrix' if kind == 'dm' else 'state vector'} on {n} qubits, traced={tr}: "
                            "result[b,c] != sum_a rho[(a,b),(a,c)] (kept qubits ascending)",
                       snippet(setup, call, ref, 1e-9), ref.tolist(), real.tolist())
            else:
                T.bad += 1
                ctx.log(f"model/spec disagreement at {n} {tr} {kind} spec={spec} (real code agrees with the textbook loop)")
        if len(ctx.samples) < 3:
            ctx.sample({"op": "partial_trace", "n": n, "traced": list(tr), "input": kind})
    T.done()


def corr_partial_transpose(ctx):
    from qibo.quantum_info import partial_transpose

    T = Tally(ctx, "C18_corr_partial_transpose")
    rng = ctx.rng
    cases = []
    for n in range(1, 4):
        for p in ordered_subsets(n):
            cases.append((n, list(p), "mat"))
            if rng.random() < 0.5:
                cases.append((n, tuple(p), "vec"))
    for n in ([4] if not ctx.thorough else [4, 5]):
        subs = list(ordered_subsets(n))
        for p in rng.sample(subs, 25) + [(), tuple(range(n)), (n - 1, 0)]:
            cases.append((n, list(p), "mat"))
            cases.append((n, list(p), "vec"))
    for n, p in [(2, [0, 0]), (3, [2, 0, 2]), (2, [1, 1, 0])]:  # repetitions are accepted
        cases.append((n, p, "mat"))
    for n, p in [(2, [2]), (1, [1]), (3, [0, 5])]:  # out of range
        cases.append((n, p, "mat"))
    lines, meta = [], []
    for n, p, kind in cases:
        d = 2**n
        st = gi_rand(rng, (d, d)) if kind == "mat" else gi_rand(rng, (d,))
        op = "PTR" if kind == "mat" else "PTRV"
        lines.append(f"{op} {n} {len(p)} {' '.join(map(str, p))} {gi_tokens(st)}")
        meta.append((n, p, kind, st))
    outs = run_driver(lines, driver=DRIVER)
    for (n, p, kind, st), out in zip(meta, outs):
        d = 2**n
        ctx.case(("ptranspose", n, tuple(p), kind))
        ctx.stat(f"ptranspose_{kind}_n{n}")
        setup = {"operator": st}
        call = f"partial_transpose(operator, {p!r})"
        key = f"partial_transpose:{'matrix' if kind == 'mat' else 'statevector'}"
        before = st.copy()
        try:
            real = np.asarray(partial_transpose(st, p))
            err = None
        except Exception as e:  # noqa: BLE001
            real, err = None, e
        if out == "ERR":
            if err is None:
                T.fail(key + ":malformed-accepted", f"partial_transpose accepts the out-of-range partition {p} on {n} qubits",
                       raise_snippet(setup, call) + "raise SystemExit(1)\n", "an exception", str(real))
            continue
        if err is not None:
            T.fail(key + ":raises", f"partial_transpose({kind}, {p}) on {n} qubits raises {type(err).__name__}: {err}",
                   raise_snippet(setup, call), out, repr(err))
            continue
        model = parse_gi(out).reshape(d, d)
        if not np.array_equal(before, st):
            T.fail(key + ":mutates-input", "partial_transpose modifies its input", raise_snippet(setup, call))
        if real.shape != model.shape or not np.array_equal(real, model):
            ref = ref_ptranspose(as_dm(st), n, p)
            if real.shape != ref.shape or not np.allclose(real, ref, atol=1e-9):
                T.fail(key, f"partial_transpose on {n} qubits, partition={p}: result[x,y] != O[x with P-bits of y, y with P-bits of x]",
                       snippet(setup, call, ref, 1e-9), ref.tolist(), real.tolist())
            else:
                T.bad += 1
                ctx.log(f"model disagreement (partial_transpose) at {n} {p} {kind}")
    # batches: (N, k, k) and (N, 1, k) inputs are transposed element by element
    for n in (1, 2, 3):
        d = 2**n
        for _ in range(4):
            p = rng.sample(range(n), rng.randint(0, n))
            nb = rng.randint(1, 3)
            batch = gi_rand(rng, (nb, d, d))
            vbatch = gi_rand(rng, (nb, 1, d))
            for arr, kind in ((batch, "batch"), (vbatch, "batch-vec")):
                ctx.case(("ptranspose", n, tuple(p), kind, nb))
                try:
                    real = np.asarray(partial_transpose(arr, p))
                    ref = np.array([ref_ptranspose(a if kind == "batch" else proj(a[0]), n, p) for a in arr])
                    ok = real.shape == ref.shape and np.allclose(real, ref, atol=1e-9)
                except Exception as e:  # noqa: BLE001
                    ok, real, ref = False, repr(e), None
                if not ok:
                    T.fail(f"partial_transpose:{kind}", f"partial_transpose of a batch {arr.shape}, partition={p}, differs from the element-wise definition",
                           snippet({"operator": arr}, f"partial_transpose(operator, {p!r})", ref, 1e-9) if ref is not None else raise_snippet({"operator": arr}, f"partial_transpose(operator, {p!r})"))
    T.done()


def corr_schmidt(ctx):
    from qibo.quantum_info import schmidt_decomposition

    T = Tally(ctx, "C18_corr_schmidt")
    rng = ctx.rng
    cases = []
    for n in range(1, 4):
        for p in ordered_subsets(n):
            cases.append((n, list(p) if rng.random() < 0.6 else tuple(p)))
    for n in ([4] if not ctx.thorough else [4, 5]):
        for p in rng.sample(list(ordered_subsets(n)), 20) + [(), tuple(range(n)), (n - 1, 0), (2, 0, 1)]:
            cases.append((n, list(p)))
    lines, meta = [], []
    for n, p in cases:
        st = gi_rand(rng, (2**n,))
        lines.append(f"SCH {n} {len(p)} {' '.join(map(str, p))} {gi_tokens(st)}")
        meta.append((n, p, st))
    outs = run_driver(lines, driver=DRIVER)
    for (n, p, st), out in zip(meta, outs):
        ctx.case(("schmidt", n, tuple(p)))
        ctx.stat(f"schmidt_n{n}_p{len(p)}")
        setup = {"state": st}
        call = f"schmidt_decomposition(state, {p!r})"
        a, b = 2 ** len(p), 2 ** (n - len(p))
        model = parse_gi(out).reshape(a, b)
        before = st.copy()
        try:
            U, S, Vh = (np.asarray(x) for x in schmidt_decomposition(st, p))
            k = len(S)
            rec = (U[:, :k] * S) @ Vh[:k, :]
            ok = (rec.shape == model.shape and np.allclose(rec, model, atol=1e-9) and np.all(S >= -1e-12)
                  and np.allclose(U.conj().T @ U, np.eye(a), atol=1e-9) and np.allclose(Vh @ Vh.conj().T, np.eye(b), atol=1e-9)
                  and np.array_equal(before, st))
            obs = rec.tolist()
        except Exception as e:  # noqa: BLE001
            ok, obs = False, repr(e)
        if not ok:
            py = (raise_snippet(setup, call) + "U, S, Vh = got\nk = len(S)\nrec = (U[:, :k] * S) @ Vh[:k, :]\n"
                  f"exp = {_lit(model)}\nassert rec.shape == exp.shape and np.allclose(rec, exp, atol=1e-9), rec\n")
            T.fail("schmidt_decomposition", f"schmidt_decomposition on {n} qubits, partition={p}: U S V^dagger is not the state reshaped to "
                                            "(partition in listed order) x (remaining qubits ascending)", py, model.tolist(), obs)
        else:
            # the squared Schmidt coefficients are the spectrum of the reduced state (T18_schmidt_gram)
            red = ref_ptrace(proj(st), n, [q for q in range(n) if q not in p])
            w = np.sort(np.clip(herm_eigs(red), 0, None))[::-1][: len(S)]
            if not np.allclose(np.sort(S**2)[::-1], w, atol=1e-7 * max(1.0, w.max(initial=1.0))):
                T.fail("schmidt_decomposition:coefficients", f"squared Schmidt coefficients of partition {p} are not the spectrum of the reduced state",
                       raise_snippet(setup, call) + f"assert np.allclose(np.sort(got[1]**2)[::-1], {w.tolist()!r}, atol=1e-6)\n")
    T.done()


def corr_contractions(ctx):
    """purity / Hilbert-Schmidt / overlap contractions on exact integer data."""
    from qibo.quantum_info import fidelity, hilbert_schmidt_distance, purity
    from qibo.quantum_info.metrics import hilbert_schmidt_inner_product

    T = Tally(ctx, "C18_corr_contractions")
    rng = ctx.rng
    lines, meta = [], []
    for _ in range(60 if ctx.thorough else 25):
        d = rng.choice([1, 2, 3, 4, 8])
        A, B = gi_rand(rng, (d, d)), gi_rand(rng, (d, d))
        u, v = gi_rand(rng, (d,)), gi_rand(rng, (d,))
        lines += [f"PUR {d} {gi_tokens(A)}", f"NSQ {d} {gi_tokens(u)}", f"HSI {d} {gi_tokens(A)} {gi_tokens(B)}",
                  f"OVL {d} {gi_tokens(u)} {gi_tokens(v)}", f"HSI {d} {gi_tokens(A - B)} {gi_tokens(A - B)}",
                  f"PUR {d} {gi_tokens(proj(u))}"]
        meta += [("purity", A, None), ("purity-vec", u, None), ("hsi", A, B), ("fid-vec", u, v), ("hsd", A, B), ("purity-proj", u, None)]
    outs = run_driver(lines, driver=DRIVER)
    for (kind, a, b), out in zip(meta, outs):
        z = complex(*map(int, out.split()))
        ctx.case(("contraction", kind, a.shape, a.tobytes()[:24]))
        ctx.stat(f"contraction_{kind}")
        if kind == "purity":
            got, exp, call, setup = purity(a), z.real, "purity(state)", {"state": a}
        elif kind == "purity-vec":
            got, exp, call, setup = purity(a), z.real, "purity(state)", {"state": a}
        elif kind == "purity-proj":
            # T18_purity_pure: purity of the projector = (norm^2)^2
            got, exp, call, setup = purity(proj(a)), float(np.sum(np.abs(a) ** 2) ** 2), "purity(np.outer(state, state.conj()))", {"state": a}
            if abs(z.real - exp) > 1e-9 * max(1, abs(exp)):
                T.bad += 1
        elif kind == "hsi":
            got, exp, call, setup = hilbert_schmidt_inner_product(a, b), z.real, "hilbert_schmidt_inner_product(A, B)", {"A": a, "B": b}
        elif kind == "hsd":
            got, exp, call, setup = hilbert_schmidt_distance(a, b), z.real, "hilbert_schmidt_distance(A, B)", {"A": a, "B": b}
        else:
            got, exp, call, setup = fidelity(a, b), abs(z) ** 2, "fidelity(state, target)", {"state": a, "target": b}
        tol = 1e-9 * max(1.0, abs(exp))
        if not abs(complex(got) - exp) <= tol:
            T.fail(f"{call.split('(')[0]}:{kind}", f"{call} on integer data differs from its defining contraction", snippet(setup, call, exp, tol), exp, complex(got))
    T.done()


def corr_classical(ctx):
    """hamming_weight / hamming_distance / total_variation_distance: exact."""
    from qibo.quantum_info import hamming_distance, hamming_weight, total_variation_distance

    T = Tally(ctx, "C18_corr_classical")
    rng = ctx.rng
    lines, meta = [], []

    def bits(k):
        return [rng.randint(0, 1) for _ in range(k)]

    ints = list(range(0, 40)) + [rng.randrange(2**k) for k in range(6, 40) for _ in range(2)] + [2**31, 2**40 - 1, 2**63 + 5]
    for m in ints:
        lines.append(f"HWN {m}")
        meta.append(("hwn", m, None))
    for _ in range(120 if ctx.thorough else 50):
        a = bits(rng.randint(0 if rng.random() < 0.1 else 1, 9))
        lines.append(f"HWB {len(a)} {' '.join(map(str, a))}")
        meta.append(("hwb", a, rng.choice(["str", "list", "tuple", "array", "liststr"])))
    pairs = [(x, y) for x in range(9) for y in range(9)] + [(rng.randrange(2**rng.randint(1, 34)), rng.randrange(2**rng.randint(1, 34))) for _ in range(60)]
    pairs += [(31, 21), (21, 31), (2**20 + 5, 2**20 + 6), (2**33 - 1, 2**33 - 1)]
    for _ in range(40):  # same length, common leading digits: the xor has fewer digits than the operands
        k, pre = rng.randint(2, 30), rng.randint(1, 6)
        top = (1 << (pre - 1)) | rng.randrange(1 << (pre - 1))
        pairs.append(((top << k) | rng.randrange(1 << k), (top << k) | rng.randrange(1 << k)))
    for x, y in pairs:
        lines.append(f"HDNI {x} {y}")
        meta.append(("hdn", (x, y), None))
    forms = ["str", "list", "tuple", "liststr", "int"]
    for _ in range(260 if ctx.thorough else 130):
        a, b = bits(rng.randint(1, 8)), bits(rng.randint(1, 8))
        r = rng.random()
        if r < 0.4:
            b = bits(len(a))
        elif r < 0.6:  # common prefix (also leading zeros), differing tail
            pre = bits(rng.randint(1, 4))
            a, b = pre + bits(rng.randint(1, 5)), pre + bits(rng.randint(1, 5))
        fa, fb = rng.choice(forms), rng.choice(forms)
        # an int argument is read through f"{n:b}": its leading zeros are not part of the string
        ma = [int(c) for c in f"{int(''.join(map(str, a)), 2):b}"] if fa == "int" else a
        mb = [int(c) for c in f"{int(''.join(map(str, b)), 2):b}"] if fb == "int" else b
        lines.append(f"HDB {len(ma)} {' '.join(map(str, ma))} {len(mb)} {' '.join(map(str, mb))}")
        meta.append(("hdb", (ma, mb), (fa, fb)))
    for _ in range(80 if ctx.thorough else 40):
        k = rng.randint(1, 7)
        D = rng.choice([1, 2, 7, 10, 64, 1000])
        p = [rng.randint(0, D) for _ in range(k)]
        q = [rng.randint(0, D) for _ in range(k)]
        lines.append(f"TVD {k} {' '.join(map(str, p))} {' '.join(map(str, q))}")
        meta.append(("tvd", (p, q, D), rng.choice(["list", "array"])))
    outs = run_driver(lines, driver=DRIVER)

    def conv(bits_, how):
        if how == "str":
            return "".join(map(str, bits_))
        if how == "list":
            return list(bits_)
        if how == "tuple":
            return tuple(bits_)
        if how == "array":
            return np.array(bits_, dtype=int)
        if how == "int":
            return int("".join(map(str, bits_)), 2)
        return [str(b) for b in bits_]

    for (kind, arg, how), out in zip(meta, outs):
        ctx.case((kind, repr(arg), how))
        ctx.stat(f"classical_{kind}")
        try:
            if kind == "hwn":
                exp = int(out)
                got, call = hamming_weight(arg), f"hamming_weight({arg})"
                gi = hamming_weight(arg, return_indexes=True)
                s = f"{arg:b}"
                ok = got == exp and gi == [i for i, c in enumerate(s) if c == "1"]
                key = "hamming_weight:int"
            elif kind == "hwb":
                w, idx = out.split(";")
                exp = int(w)
                x = conv(arg, how)
                call = f"hamming_weight({x!r})".replace("array(", "np.array(")
                got = hamming_weight(x)
                gi = hamming_weight(x, return_indexes=True)
                ok = got == exp and gi == [int(t) for t in idx.strip().split(",") if t]
                key = f"hamming_weight:{how}"
            elif kind == "hdn":
                w, idx = out.split(";")
                exp = int(w)
                eidx = [int(t) for t in idx.strip().split(",") if t]
                call = f"hamming_distance({arg[0]}, {arg[1]})"
                key = "hamming_distance:int-inputs"
                got = hamming_distance(*arg)
                ok = got == exp == bin(arg[0] ^ arg[1]).count("1") and hamming_distance(arg[1], arg[0]) == exp
                if ok:  # return_indexes=True: positions in the padded common-length binary strings, both argument orders
                    gi = hamming_distance(arg[0], arg[1], return_indexes=True)
                    gj = hamming_distance(arg[1], arg[0], return_indexes=True)
                    if list(gi) != eidx or list(gj) != eidx:
                        ok, got, exp = False, (gi, gj), eidx
                        call = f"hamming_distance({arg[0]}, {arg[1]}, return_indexes=True)"
                        key = "hamming_distance:int-inputs:indexes"
            elif kind == "hdb":
                w, idx = out.split(";")
                exp = int(w)
                eidx = [int(t) for t in idx.strip().split(",") if t]
                a, b = arg
                fa, fb = how
                xa, xb = conv(a, fa), conv(b, fb)
                call = f"hamming_distance({xa!r}, {xb!r})"
                key = "hamming_distance:int-inputs" if (fa in ("list", "tuple", "int") or fb in ("list", "tuple", "int")) else f"hamming_distance:{fa}"
                got = hamming_distance(xa, xb)
                ok = got == exp and hamming_distance(xb, xa) == exp
                if ok:
                    gi = hamming_distance(xa, xb, return_indexes=True)
                    gj = hamming_distance(xb, xa, return_indexes=True)
                    if list(gi) != eidx or list(gj) != eidx:
                        ok, got, exp = False, (gi, gj), eidx
                        call = f"hamming_distance({xa!r}, {xb!r}, return_indexes=True)"
                        key += ":indexes"
            else:
                p, q, D = arg
                exp = float(Fraction(int(out), 2 * D))
                pp, qq = [x / D for x in p], [x / D for x in q]
                if how == "array":
                    pp, qq = np.array(pp), np.array(qq)
                call = f"total_variation_distance({pp!r}, {qq!r})".replace("array(", "np.array(")
                key = "total_variation_distance"
                got = float(total_variation_distance(pp, qq))
                ok = abs(got - exp) <= 1e-12 * max(1, exp) and abs(float(total_variation_distance(qq, pp)) - exp) <= 1e-12 * max(1, exp)
        except Exception as e:  # noqa: BLE001
            ok, got = False, f"{type(e).__name__}: {e}"
        if not ok:
            if key.endswith(":indexes"):
                T.fail(key, f"{call} = {got[0]} (arguments exchanged: {got[1]}), the positions where the zero-padded strings differ are {exp}",
                       HEADER + f"got = {call}\nassert list(got) == {exp!r}, got\n", exp, str(got))
                continue
            T.fail(key, f"{call} = {got}, definition gives {exp}", HEADER + f"got = {call}\nassert abs(got - {exp!r}) <= 1e-12, got\n", exp, str(got))
    T.done()


# ----------------------------------------------------------------------------------------
# B. direct search: every measure against an independent reference
# ----------------------------------------------------------------------------------------
class Search:
    """evaluate `call` (python source over the names in `setup`) on the real code, compare with
    the reference value; inputs must not be modified; report with a replay."""

    def __init__(self, ctx, name):
        self.T = Tally(ctx, name)
        self.ctx = ctx
        import qibo.quantum_info as qi
        from qibo import Circuit, gates
        from qibo.quantum_info import entanglement, entropies, linalg_operations, metrics, random_ensembles, utils

        self.env = {"np": np, "inf": np.inf, "gates": gates, "Circuit": Circuit}
        for mod in (qi, utils, metrics, entropies, entanglement, linalg_operations, random_ensembles):
            self.env.update({k: getattr(mod, k) for k in dir(mod) if not k.startswith("__")})

    def value(self, setup, call):
        env = dict(self.env)
        env.update(setup)
        return eval(call, env)  # noqa: S307  (our own source strings)

    def check(self, key, call, setup, expected, tol=1e-8, what=None, alt=None, alt_tol=None):
        """`alt`: a second admissible value (the documented shortcut value inside the documented
        tolerance of the shortcut)."""
        ctx = self.ctx
        ctx.case((key, call, tuple((k, (v.tobytes()[:32] if isinstance(v, np.ndarray) else repr(v))) for k, v in setup.items())))
        ctx.stat("search_" + key.split(":")[0])
        if 3 <= len(ctx.samples) < 12 and not any(isinstance(x, dict) and x.get("key", "").split(":")[0] == key.split(":")[0] for x in ctx.samples):
            ctx.sample({"key": key, "call": call, "expected": repr(expected)[:80]})
        before = {k: (v.copy() if isinstance(v, np.ndarray) else v) for k, v in setup.items()}
        try:
            with warnings.catch_warnings():
                warnings.simplefilter("ignore")
                got = self.value(setup, call)
        except Exception as e:  # noqa: BLE001
            self.T.fail(key, what or f"{call} raises {type(e).__name__}: {str(e)[:120]} (expected {expected})",
                        raise_snippet(setup, call), expected=repr(expected), observed=f"{type(e).__name__}: {e}")
            return None
        for k, v in setup.items():
            if isinstance(v, np.ndarray) and not np.array_equal(v, before[k]):
                self.T.fail(key + ":mutates-input", f"{call} modifies its argument `{k}`",
                            raise_snippet(before, call) + f"assert np.array_equal({k}, {_lit(before[k])})\n")
        try:
            g = np.asarray(got, dtype=complex)
            e = np.asarray(expected, dtype=complex)
            ok = g.shape == e.shape and bool(np.all(np.abs(g - e) <= tol))
            if not ok and alt is not None:
                a = np.asarray(alt, dtype=complex)
                ok = g.shape == a.shape and bool(np.all(np.abs(g - a) <= (alt_tol or tol)))
        except (TypeError, ValueError):
            ok = False
        if not ok:
            self.T.fail(key, what or f"{call} = {got!r}, definition gives {expected!r}",
                        snippet(setup, call, expected, tol), expected=repr(expected), observed=repr(got))
        return got

    def done(self):
        self.T.done()


def state_families(g, d, thorough):
    """(label, state, impurity-class) — pure vectors, pure / eps-pure / rank-deficient / generic /
    maximally mixed density matrices."""
    out = []
    v = rand_sv(g, d)
    out.append(("vector", v))
    out.append(("pure-dm", proj(rand_sv(g, d))))
    out.append(("basis-dm", proj(np.eye(d)[g.integers(d)].astype(complex))))
    out.append(("generic", rand_dm(g, d)))
    out.append(("maxmixed", np.eye(d, dtype=complex) / d))
    if d > 2:
        out.append(("rank-deficient", rand_dm(g, d, rank=int(g.integers(2, d)))))
    for eps in ([1e-6, 1e-7, 1e-8, 1e-9, 1e-10, 1e-12] if thorough else [1e-6, 1e-8, 1e-9, 1e-12]):
        tau = rand_dm(g, d) if g.random() < 0.5 else np.eye(d) / d
        out.append((f"eps={eps:g}", (1 - eps) * proj(rand_sv(g, d)) + eps * tau))
    return out


def pure_part(rho):
    """projector on the dominant eigenvector (what a shortcut treats the state as)."""
    rho = as_dm(rho)
    w, v = np.linalg.eigh((rho + rho.conj().T) / 2)
    return proj(v[:, -1])


def near_pure(rho, tolp):
    rho = as_dm(rho)
    return abs(float(np.real(np.trace(rho @ rho))) - 1.0) <= tolp


def search_metrics(ctx):
    from qibo.config import PRECISION_TOL

    S = Search(ctx, "C18_search_metrics")
    g = nprng(ctx)
    reps = 3 if ctx.thorough else 1
    for _ in range(reps):
        for d in (2, 4, 8) if ctx.thorough else (2, 4):
            fam = state_families(g, d, ctx.thorough)
            for lab, st in fam:
                rho = as_dm(st)
                w = herm_eigs(rho)
                pur = float(np.real(np.trace(rho @ rho)))
                S.check(f"purity:{lab.split('=')[0]}", "purity(state)", {"state": st}, pur, 1e-9)
                S.check(f"impurity:{lab.split('=')[0]}", "impurity(state)", {"state": st}, 1 - pur, 1e-9)
            # pairs: every combination of kinds, both argument orders
            for (la, a), (lb, b) in itertools.product(fam, fam):
                if (a.ndim == 1) != (b.ndim == 1):
                    continue  # the API requires equal shapes
                if not ctx.thorough and g.random() < 0.55:
                    continue
                ra, rb = as_dm(a), as_dm(b)
                def cls(lab_, x):
                    return "vector" if x.ndim == 1 else ("pure" if lab_ in ("pure-dm", "basis-dm") else "mixed")
                kind = "-".join(sorted((cls(la, a), cls(lb, b)), reverse=True))  # vector-vector, pure-pure, pure-mixed, mixed-mixed
                detail = f"{la}|{lb}"
                setup = {"state": a, "target": b}
                td = 0.5 * float(np.sum(np.abs(herm_eigs(ra - rb))))
                S.check(f"trace_distance:{kind}", "trace_distance(state, target)", setup, td, 1e-8)
                if g.random() < 0.3:
                    S.check(f"trace_distance:check_hermitian:{kind}", "trace_distance(state, target, check_hermitian=True)", setup, td, 1e-8)
                S.check(f"hilbert_schmidt_distance:{kind}", "hilbert_schmidt_distance(state, target)", setup,
                        float(np.real(np.sum(np.abs(ra - rb) ** 2))), 1e-9)
                F = ref_fidelity(ra, rb)
                # inside the documented tolerance of the pure shortcut the value for the pure part is admissible
                alt = None
                if a.ndim == 2 and (near_pure(ra, PRECISION_TOL * 1.01) or near_pure(rb, PRECISION_TOL * 1.01)):
                    alt = float(np.real(np.trace(ra @ rb)))
                rankdef = any(t in detail for t in ("rank", "eps", "pure", "basis"))
                tolF = 2e-7 if rankdef else 1e-8
                S.check(f"fidelity:{kind}", "fidelity(state, target)", setup, F, tolF, alt=alt, alt_tol=1e-9)
                if g.random() < 0.3:
                    S.check(f"fidelity:{kind}" if kind == "mixed-mixed" else f"fidelity:check_hermitian:{kind}", "fidelity(state, target, check_hermitian=True)", setup, F, tolF, alt=alt, alt_tol=1e-9)
                S.check(f"fidelity:{kind}" if kind == "mixed-mixed" else f"infidelity:{kind}", "infidelity(state, target)", setup, 1 - F, tolF, alt=None if alt is None else 1 - alt, alt_tol=1e-9)
                Fc = min(max(F, 0.0), 1.0)
                if 1e-3 < Fc < 1 - 1e-3:  # arccos / sqrt are Lipschitz there
                    ac = None if alt is None else min(max(alt, 0.0), 1.0)
                    S.check(f"fidelity:{kind}" if kind == "mixed-mixed" else f"bures_angle:{kind}", "bures_angle(state, target)", setup, math.acos(math.sqrt(Fc)), 1e-6,
                            alt=None if ac is None else math.acos(math.sqrt(ac)), alt_tol=1e-6)
                    S.check(f"fidelity:{kind}" if kind == "mixed-mixed" else f"bures_distance:{kind}", "bures_distance(state, target)", setup, math.sqrt(2 * (1 - math.sqrt(Fc))), 1e-6,
                            alt=None if ac is None else math.sqrt(2 * (1 - math.sqrt(ac))), alt_tol=1e-6)
            # identical arguments: fidelity 1, distances 0 (all kinds)
            for lab, st in fam:
                setup = {"state": st, "target": st.copy()}
                tr = float(np.real(np.trace(as_dm(st))))
                selfkey = "fidelity:mixed-mixed" if (st.ndim == 2 and lab not in ("pure-dm", "basis-dm")) else f"fidelity:self:{lab.split('=')[0]}"
                S.check(selfkey, "fidelity(state, target)", setup, tr**2 if st.ndim == 2 else 1.0, 2e-7,
                        alt=float(np.real(np.trace(as_dm(st) @ as_dm(st)))), alt_tol=1e-9)
                S.check(f"trace_distance:self:{lab.split('=')[0]}", "trace_distance(state, target)", setup, 0.0, 1e-9)
    # channels: process fidelity family on Liouville matrices built here from Kraus operators
    for _ in range(6 if ctx.thorough else 3):
        for d in (2, 4):
            def rand_kraus(r):
                a = g.normal(size=(r * d, d)) + 1j * g.normal(size=(r * d, d))
                q, _ = np.linalg.qr(a)  # isometry: columns orthonormal
                return [q[i * d:(i + 1) * d, :] for i in range(r)]

            K = rand_kraus(int(g.integers(1, 4)))
            u, _ = np.linalg.qr(g.normal(size=(d, d)) + 1j * g.normal(size=(d, d)))
            L = sum(np.kron(k, k.conj()) for k in K)
            LU = np.kron(u, u.conj())
            setup = {"channel": L, "target": LU}
            pf_id = float(np.real(sum(abs(np.trace(k)) ** 2 for k in K))) / d**2
            pf_u = float(np.real(sum(abs(np.trace(u.conj().T @ k)) ** 2 for k in K))) / d**2
            S.check("process_fidelity:identity", "process_fidelity(channel)", {"channel": L}, pf_id, 1e-9)
            S.check("process_fidelity:target", "process_fidelity(channel, target)", setup, pf_u, 1e-9)
            S.check("process_fidelity:check_unitary", "process_fidelity(channel, target, check_unitary=True)", setup, pf_u, 1e-9)
            S.check("process_infidelity", "process_infidelity(channel, target)", setup, 1 - pf_u, 1e-9)
            # average over Haar states of <psi|U^dagger E(psi) U|psi> = (sum_k |tr(U^dagger K_k)|^2 + d) / (d^2 + d)
            avg_u = (pf_u * d**2 + d) / (d**2 + d)
            avg_id = (pf_id * d**2 + d) / (d**2 + d)
            S.check("average_gate_fidelity:dimension", "average_gate_fidelity(channel, target)", setup, avg_u, 1e-9)
            S.check("average_gate_fidelity:dimension", "average_gate_fidelity(channel)", {"channel": L}, avg_id, 1e-9)
            S.check("average_gate_fidelity:dimension", "gate_error(channel, target)", setup, 1 - avg_u, 1e-9)
    S.done()


def search_classical_entropies(ctx):
    S = Search(ctx, "C18_search_classical_entropies")
    g = nprng(ctx)

    def dist(k, zeros=0):
        p = g.random(k) + 1e-3
        for i in g.choice(k, size=min(zeros, k - 1), replace=False):
            p[i] = 0.0
        return p / p.sum()

    def H(p, base):
        p = p[p > 0]
        return float(-np.sum(p * np.log(p)) / math.log(base))

    bases = [2, math.e, 10, 5, 0.5]
    for _ in range(12 if ctx.thorough else 5):
        k = int(g.integers(2, 7))
        for zeros in (0, 1, 2):
            p, q = dist(k, zeros), dist(k, 0)
            for base in bases:
                lb = math.log(base)
                z = "zeros" if zeros else "full"
                sp = {"p": p, "base": base}
                spq = {"p": p, "q": q, "base": base}
                S.check(f"shannon_entropy:{z}", "shannon_entropy(p, base)", sp, H(p, base), 1e-9)
                S.check(f"shannon_entropy:list:{z}", "shannon_entropy(list(p), base=base)", sp, H(p, base), 1e-9)
                kl = float(np.sum(p[p > 0] * np.log(p[p > 0] / q[p > 0])) / lb)
                S.check(f"classical_relative_entropy:{z}", "classical_relative_entropy(p, q, base)", spq, kl, 1e-9)
                # joint distribution of two independent variables: mutual information 0; generic joint
                joint = np.outer(p, q).reshape(-1)
                S.check(f"classical_mutual_information:product:{z}", "classical_mutual_information(joint, p, q, base)",
                        {"joint": joint, "p": p, "q": q, "base": base}, 0.0, 1e-9)
                J = g.random((k, 3)) + 0.01
                J /= J.sum()
                pa, pb = J.sum(1), J.sum(0)
                mi = float(np.sum(J * np.log(J / np.outer(pa, pb))) / lb)
                S.check("classical_mutual_information:generic", "classical_mutual_information(joint, p, q, base)",
                        {"joint": J.reshape(-1), "p": pa, "q": pb, "base": base}, mi, 1e-9)
                for alpha in (0, 0.0, 0.3, 0.5, 1, 1.0, 2, 3.5, np.inf):
                    sa = {"p": p, "q": q, "alpha": alpha, "base": base}
                    supp = p[p > 0]
                    if alpha == 0:
                        ren = math.log(len(supp)) / lb
                        keyr = f"classical_renyi_entropy:alpha=0-{'support' if zeros else 'full'}"
                    elif alpha == 1:
                        ren, keyr = H(p, base), "classical_renyi_entropy:alpha=1"
                    elif alpha == np.inf:
                        ren, keyr = -math.log(p.max()) / lb, "classical_renyi_entropy:alpha=inf"
                    else:
                        ren, keyr = math.log(np.sum(supp**alpha)) / (1 - alpha) / lb, f"classical_renyi_entropy:{z}"
                    S.check(keyr, "classical_renyi_entropy(p, alpha, base)", sa, ren, 1e-9)
                    if alpha == 1:
                        rr = kl
                    elif alpha == np.inf:
                        rr = math.log(np.max(p[p > 0] / q[p > 0])) / lb if not zeros else None
                    elif alpha == 0:
                        rr = -math.log(np.sum(q[p > 0])) / lb if not zeros else None
                    else:
                        rr = math.log(np.sum(p[p > 0] ** alpha * q[p > 0] ** (1 - alpha))) / (alpha - 1) / lb
                    if rr is not None:
                        S.check(f"classical_relative_renyi_entropy:alpha={alpha if alpha in (0, 1, np.inf) else 'generic'}",
                                "classical_relative_renyi_entropy(p, q, alpha, base)", sa, rr, 1e-9)
                    if alpha != np.inf:
                        ts = H(p, base) if alpha == 1 else (1 - np.sum(supp**alpha)) / (alpha - 1)
                        S.check(f"classical_tsallis_entropy:alpha={'0-support' if (alpha == 0 and zeros) else ('1' if alpha == 1 else 'generic')}",
                                "classical_tsallis_entropy(p, alpha, base)", sa, float(ts), 1e-9)
                        if not zeros:
                            # documented: sum_x p^alpha ln_alpha(p/q), ln_a(x) = (x^(1-a) - 1)/(1-a)
                            rt = kl if alpha == 1 else float(np.sum(p**alpha * ((p / q) ** (1 - alpha) - 1) / (1 - alpha)))
                            S.check("classical_relative_tsallis_entropy", "classical_relative_tsallis_entropy(p, q, alpha, base)", sa, rt, 1e-9)
        # continuity of the alpha -> 1, 0, inf shortcuts with the general formula
        p = dist(k, 1)
        for alpha, near in ((1.0, 1 + 1e-7), (1.0, 1 - 1e-7), (0.0, 1e-9)):
            a = S.value({"p": p}, f"classical_renyi_entropy(p, {alpha})")
            b = S.value({"p": p}, f"classical_renyi_entropy(p, {near})")
            ctx.case(("renyi-continuity", alpha, near, p.tobytes()))
            if abs(float(a) - float(b)) > 1e-5:
                S.T.fail("classical_renyi_entropy:alpha=0-support" if alpha == 0 else "classical_renyi_entropy:continuity",
                         f"classical_renyi_entropy at alpha={alpha} is {a} but {b} at alpha={near}: the shortcut is not the limit of the general formula",
                         HEADER + f"p = {_lit(p)}\nassert abs(classical_renyi_entropy(p, {alpha}) - classical_renyi_entropy(p, {near})) < 1e-5\n", float(b), float(a))
    # Hellinger family
    for _ in range(20 if ctx.thorough else 8):
        k = int(g.integers(2, 7))
        p, q = dist(k, int(g.integers(0, 2))), dist(k, int(g.integers(0, 2)))
        bc = float(np.sum(np.sqrt(p * q)))
        hd = math.sqrt(max(0.0, 1 - bc))
        for val in (False, True):
            sp = {"p": p, "q": q, "validate": val}
            S.check("hellinger_distance", "hellinger_distance(p, q, validate)", sp, hd, 1e-7)
            S.check("hellinger_distance:symmetric", "hellinger_distance(q, p, validate)", sp, hd, 1e-7)
            S.check("hellinger_fidelity", "hellinger_fidelity(p, q, validate)", sp, bc**2, 1e-9)
            S.check("hellinger_fidelity:list", "hellinger_fidelity(list(p), list(q), validate)", sp, bc**2, 1e-9)
        nshots = int(g.integers(10, 1000))
        he = math.sqrt(bc**2 / nshots) * float(np.sum(np.sqrt(q * (1 - p)) + np.sqrt(p * (1 - q))))
        S.check("hellinger_shot_error", "hellinger_shot_error(p, q, nshots)", {"p": p, "q": q, "nshots": nshots}, he, 1e-9)
        S.check("total_variation_distance:float", "total_variation_distance(p, q, True)", {"p": p, "q": q}, 0.5 * float(np.sum(np.abs(p - q))), 1e-12)
    S.done()


def search_quantum_entropies(ctx):
    from qibo.config import PRECISION_TOL

    S = Search(ctx, "C18_search_quantum_entropies")
    g = nprng(ctx)
    bases = [2, math.e, 10]
    for d in ((2, 4, 8) if ctx.thorough else (2, 4)):
        n = int(math.log2(d))
        fam = state_families(g, d, ctx.thorough)
        full = [rand_dm(g, d), np.eye(d, dtype=complex) / d, rand_dm(g, d)]
        for lab, st in fam:
            rho = as_dm(st)
            w = np.clip(herm_eigs(rho), 0, None)
            lab0 = lab.split("=")[0]
            shortcut_ok = near_pure(rho, PRECISION_TOL * 1.01)  # documented tolerance of the "pure" shortcuts
            for base in bases:
                lb = math.log(base)
                sb = {"state": st, "base": base}
                vn = entropy_of_spectrum(w, base)
                S.check(f"von_neumann_entropy:{lab0}", "von_neumann_entropy(state, base)", sb, vn, 1e-8)
                if base == 2:
                    S.check(f"von_neumann_entropy:check_hermitian:{lab0}", "von_neumann_entropy(state, base, check_hermitian=True)", sb, vn, 1e-8)
                    got = S.check(f"von_neumann_entropy:return_spectrum:{lab0}", "von_neumann_entropy(state, base, return_spectrum=True)[0]", sb, vn, 1e-8)
                for alpha in (0, 0.5, 1, 1.0, 2, 3, np.inf):
                    sa = {"state": st, "alpha": alpha, "base": base}
                    if alpha == 0:
                        if w.min() < 1e-6:
                            continue  # documented as log(d); equals log(rank) only on full-rank states
                        ren = math.log(d) / lb
                    elif alpha == 1:
                        ren = vn
                    elif alpha == np.inf:
                        ren = -math.log(w.max()) / lb
                    else:
                        ren = math.log(np.sum(w[w > 0] ** alpha)) / (1 - alpha) / lb
                    tol = 1e-6 if (w.min() < 1e-9 and alpha not in (1, np.inf)) else 1e-8
                    S.check(f"renyi_entropy:alpha={alpha if alpha in (0, 1, np.inf) else 'generic'}:{lab0}",
                            "renyi_entropy(state, alpha, base)", sa, ren, tol, alt=0.0 if shortcut_ok else None, alt_tol=0.0)
                    if alpha != np.inf and base == 2:
                        if alpha == 0:
                            ts = float(d - 1)
                        elif alpha == 1:
                            ts = vn
                        else:
                            ts = float((np.sum(w[w > 0] ** alpha) - 1) / (1 - alpha))
                        S.check(f"tsallis_entropy:alpha={alpha if alpha in (0, 1) else 'generic'}:{lab0}",
                                "tsallis_entropy(state, alpha, base)", sa, ts, tol, alt=0.0 if shortcut_ok else None, alt_tol=0.0)
            # relative measures against full-rank targets (finite textbook value), all kinds of `state`
            for sig in full:
                ws, vs = np.linalg.eigh(sig)
                logsig = (vs * np.log(ws)) @ vs.conj().T
                wr, vr = np.linalg.eigh((rho + rho.conj().T) / 2)
                wr = np.clip(wr, 0, None)
                lr = np.where(wr > 1e-300, np.log(np.where(wr > 1e-300, wr, 1.0)), 0.0)
                rel_nats = float(np.sum(wr * lr) - np.real(np.trace(rho @ logsig)))
                for base in bases[:2]:
                    lb = math.log(base)
                    sb = {"state": st, "target": sig, "base": base}
                    S.check(f"relative_von_neumann_entropy:{lab0}", "relative_von_neumann_entropy(state, target, base)", sb, rel_nats / lb, 1e-7)
                    for alpha in (0.3, 0.5, 1, 2, 1.5):
                        sa = dict(sb, alpha=alpha)
                        if alpha == 1:
                            rr = rel_nats / lb
                        else:
                            rr = math.log(float(np.real(np.trace(psd_pow(rho, alpha) @ psd_pow(sig, 1 - alpha))))) / (alpha - 1) / lb
                        # scipy's fractional_matrix_power loses digits on singular inputs (every state vector is one)
                        tol = 1e-3 if (w.min() < 1e-5 and alpha not in (1, 2)) else (1e-6 if w.min() < 1e-5 else 1e-7)
                        S.check(f"relative_renyi_entropy:alpha={'1' if alpha == 1 else 'generic'}:{lab0}",
                                "relative_renyi_entropy(state, target, alpha, base)", sa, rr, tol)
                        # documented: (1 - tr(rho^a sigma^(1-a))) / (1 - a) for a in [0, 2]
                        if alpha == 1:
                            rt = rel_nats / lb
                        else:
                            rt = float((1 - np.real(np.trace(psd_pow(rho, alpha) @ psd_pow(sig, 1 - alpha)))) / (1 - alpha))
                        S.check("relative_tsallis_entropy:alpha<1" if alpha < 1 else ("relative_tsallis_entropy:alpha=1" if alpha == 1 else "relative_tsallis_entropy:alpha>1"),
                                "relative_tsallis_entropy(state, target, alpha, base)", sa, rt, tol)
                # alpha = inf, documented: -2 log || sqrt(rho) sqrt(sigma) ||_1 (Schatten 1-norm)
                rinf = -2 * math.log(float(np.sum(np.linalg.svd(psd_sqrt(rho) @ psd_sqrt(sig), compute_uv=False)))) / math.log(2)
                S.check("relative_renyi_entropy:alpha=inf-norm", "relative_renyi_entropy(state, target, inf)", {"state": st, "target": sig}, rinf, 1e-6)
            # identical arguments
            if lab0 not in ("vector",):
                S.check(f"relative_von_neumann_entropy:self:{lab0}", "relative_von_neumann_entropy(state, state.copy())", {"state": st}, 0.0, 1e-7)
        # subsystem entropies: every bipartition, unsorted lists, vectors and matrices
        if n >= 2:
            psi = rand_sv(g, d)
            mixed = rand_dm(g, d)
            prod = np.kron(rand_sv(g, 2), rand_sv(g, d // 2))
            for part in ordered_subsets(n):
                if len(part) in (0, n):
                    continue
                comp = [q for q in range(n) if q not in part]
                for st, lab in ((psi, "vector"), (proj(psi), "pure-dm"), (mixed, "generic"), (prod, "product-vector")):
                    rho = as_dm(st)
                    red = ref_ptrace(rho, n, part)  # entanglement_entropy traces out `bipartition`
                    ee = entropy_of_spectrum(herm_eigs(red), 2)
                    sp = {"state": st, "part": list(part)}
                    tol = 1e-7 if lab != "generic" else 1e-8
                    S.check(f"entanglement_entropy:{lab}", "entanglement_entropy(state, part)", sp, ee, tol)
                    S.check(f"entanglement_entropy:base:{lab}", "entanglement_entropy(state, part, base=np.e)", sp, entropy_of_spectrum(herm_eigs(red), math.e), tol)
                    if lab in ("vector", "pure-dm"):
                        # complement symmetry for pure states
                        S.check(f"entanglement_entropy:complement:{lab}", "entanglement_entropy(state, comp)", {"state": st, "comp": comp}, ee, 1e-7)
                    sa = entropy_of_spectrum(herm_eigs(ref_ptrace(rho, n, comp)), 2)  # S(A), A = part
                    sb_ = entropy_of_spectrum(herm_eigs(ref_ptrace(rho, n, part)), 2)
                    sab = entropy_of_spectrum(herm_eigs(rho), 2)
                    S.check(f"mutual_information:{lab}", "mutual_information(state, part)", sp, sa + sb_ - sab, 1e-7)
    S.done()


def search_entanglement(ctx):
    from qibo import Circuit, gates
    from qibo.config import PRECISION_TOL

    S = Search(ctx, "C18_search_entanglement")
    g = nprng(ctx)

    def h2(x, base):
        p = np.array([x, 1 - x])
        return entropy_of_spectrum(p, base)

    for n in ((2, 3, 4) if ctx.thorough else (2, 3)):
        d = 2**n
        bell = np.zeros(d, dtype=complex)
        bell[0] = bell[-1] = 1 / math.sqrt(2)
        states = [("vector", rand_sv(g, d)), ("pure-dm", proj(rand_sv(g, d))), ("ghz", bell),
                  ("product", np.kron(rand_sv(g, 2), rand_sv(g, d // 2))), ("basis", np.eye(d)[1].astype(complex))]
        mixed = [("generic", rand_dm(g, d)), ("product-dm", np.kron(rand_dm(g, 2), rand_dm(g, d // 2))),
                 ("werner-like", 0.6 * proj(bell) + 0.4 * np.eye(d) / d)]
        for part in ordered_subsets(n):
            if len(part) in (0, n):
                continue
            for lab, st in states:
                rho = as_dm(st)
                red = ref_ptrace(rho, n, part)
                pr = float(np.real(np.trace(red @ red)))
                conc = math.sqrt(max(0.0, 2 * (1 - pr)))
                sp = {"state": st, "part": list(part)}
                ctol = 1e-6 if conc < 1e-3 else 1e-8
                S.check(f"concurrence:{lab}", "concurrence(state, part)", sp, conc, ctol, alt=0.0 if conc < 2e-4 else None, alt_tol=1e-12)
                S.check(f"concurrence:nocheck:{lab}", "concurrence(state, part, check_purity=False)", sp, conc, ctol, alt=0.0 if conc < 2e-4 else None, alt_tol=1e-12)
                x = (1 + math.sqrt(max(0.0, 1 - conc**2))) / 2
                for base in (2, math.e):
                    S.check("entanglement_of_formation:maximally-entangled" if conc > 1 - 1e-9 else f"entanglement_of_formation:{lab}",
                            "entanglement_of_formation(state, part, base)", dict(sp, base=base), h2(x, base), 1e-6)
            for lab, st in states + mixed:
                rho = as_dm(st)
                neg = (float(np.sum(np.abs(herm_eigs(ref_ptranspose(rho, n, part))))) - 1) / 2
                S.check(f"negativity:{lab}", "negativity(state, part)", {"state": st, "part": list(part)}, neg, 1e-6)
            # mixed input must be refused by concurrence when check_purity=True
            ctx.case(("concurrence-mixed", n, part))
            try:
                S.value({"state": mixed[0][1], "part": list(part)}, "concurrence(state, part)")
                S.T.fail("concurrence:mixed-accepted", "concurrence(check_purity=True) accepts a mixed state",
                         raise_snippet({"state": mixed[0][1]}, f"concurrence(state, {list(part)!r})") + "raise SystemExit(1)\n")
            except NotImplementedError:
                pass
        for lab, st in states + mixed:
            rho = as_dm(st)
            mw = 2 * (1 - sum(float(np.real(np.trace(np.linalg.matrix_power(ref_ptrace(rho, n, [q for q in range(n) if q != k]), 2)))) for k in range(n)) / n)
            S.check(f"meyer_wallach_entanglement:{lab}", "meyer_wallach_entanglement(state)", {"state": st}, mw, 1e-9)
        # entanglement_fidelity: F(E(rho), rho) with E applied on the listed qubits
        for _ in range(3):
            q = int(g.integers(n))
            lam = float(g.uniform(0.05, 0.9))
            px, pz = float(g.uniform(0, 0.3)), float(g.uniform(0, 0.3))
            X = np.array([[0, 1], [1, 0]], dtype=complex)
            Z = np.diag([1.0 + 0j, -1.0])

            def on(q, m):
                ops = [np.eye(2)] * n
                ops[q] = m
                out = ops[0]
                for o in ops[1:]:
                    out = np.kron(out, o)
                return out

            kraus = [(math.sqrt(1 - px - pz), np.eye(d)), (math.sqrt(px), on(q, X)), (math.sqrt(pz), on(q, Z))]
            for lab, st in (("default", None), ("generic", rand_dm(g, d)), ("vector", rand_sv(g, d)), ("pure-dm", proj(rand_sv(g, d)))):
                rho = np.full((d, d), 1 / d, dtype=complex) if st is None else as_dm(st)
                out = sum(c * c * (k @ rho @ k.conj().T) for c, k in kraus)
                F = ref_fidelity(out, rho)
                alt = float(np.real(np.trace(out @ rho))) if near_pure(rho, PRECISION_TOL) else None
                setup = {"state": st, "px": px, "pz": pz} if st is not None else {"px": px, "pz": pz}
                call = (f"entanglement_fidelity(gates.PauliNoiseChannel({q}, [('X', px), ('Z', pz)]), {n}" + (", state" if st is not None else "") + ")")
                S.check("fidelity:mixed-mixed" if lab in ("default", "generic") and not near_pure(rho, PRECISION_TOL) else f"entanglement_fidelity:{lab}",
                        call, setup, F, 2e-7, alt=alt, alt_tol=1e-8)
        # entangling capability: documented 2/|S| * sum of Meyer-Wallach Q over the sampled parameters
        c = Circuit(n)
        for q in range(n):
            c.add(gates.RY(q, 0.1))
        for q in range(n - 1):
            c.add(gates.CNOT(q, q + 1))
        c.add(gates.RX(0, 0.2))
        seed = int(g.integers(1000))
        samples = 4
        call = f"entangling_capability(c, {samples}, seed={seed})"
        ctx.case(("entangling_capability", n, seed))
        try:
            v1 = float(S.value({"c": c}, call))
            v2 = float(S.value({"c": c}, call))
            v3 = float(S.value({"c": c}, f"entangling_capability(c, {samples}, seed=np.random.default_rng({seed}))"))
            rng = np.random.default_rng(seed)
            acc = 0.0
            for _ in range(samples):
                params = rng.uniform(-np.pi, np.pi, n + 1)
                cc = Circuit(n)
                for q in range(n):
                    cc.add(gates.RY(q, params[q]))
                for q in range(n - 1):
                    cc.add(gates.CNOT(q, q + 1))
                cc.add(gates.RX(0, params[n]))
                psi = np.asarray(cc().state())
                acc += 2 * (1 - sum(float(np.real(np.trace(np.linalg.matrix_power(ref_ptrace(proj(psi), n, [q for q in range(n) if q != k]), 2)))) for k in range(n)) / n)
            exp = 2 * acc / samples
            ok = abs(v1 - v2) < 1e-12 and abs(v1 - v3) < 1e-12 and abs(v1 - exp) < 1e-9 and 0 <= v1
        except Exception as e:  # noqa: BLE001
            ok, v1, exp = False, repr(e), None
        if not ok:
            S.T.fail("entangling_capability", f"entangling_capability with a seed is not reproducible or is not 2/|S| sum Q: {v1} vs {exp}",
                     "# RY layer + CNOT chain + RX(0); entangling_capability(c, 4, seed) twice and against the documented formula", exp, v1)
    S.done()


def search_utils(ctx):
    """hadamard_transform, haar_integral, pqc_integral."""
    from qibo import Circuit, gates

    S = Search(ctx, "C18_search_utils")
    g = nprng(ctx)
    H1 = np.array([[1, 1], [1, -1]]) / math.sqrt(2)
    # the "regular" implementation must not touch qibo's global matrix table (second call = first call)
    from qibo import matrices as qmat
    saved = np.array(qmat.H).copy()
    try:
        ctx.case(("hadamard-global",))
        a1 = np.asarray(S.value({"array": np.array([1.0, 0.0])}, "hadamard_transform(array, 'regular')"))
        a2 = np.asarray(S.value({"array": np.array([1.0, 0.0])}, "hadamard_transform(array, 'regular')"))
        if not (np.allclose(a1, a2, atol=1e-12) and np.allclose(np.array(qmat.H), saved, atol=1e-12)):
            S.T.fail("hadamard_transform:regular-corrupts-global-H",
                     f"hadamard_transform(.., 'regular') on one qubit divides qibo.matrices.H in place: second call returns {a2.tolist()} (first {a1.tolist()})",
                     HEADER + "from qibo import matrices\nh = np.array(matrices.H).copy()\na = hadamard_transform(np.array([1.0, 0.0]), 'regular')\n"
                              "b = hadamard_transform(np.array([1.0, 0.0]), 'regular')\nassert np.allclose(a, b) and np.allclose(matrices.H, h), (a, b, matrices.H)\n",
                     a1.tolist(), a2.tolist())
    finally:
        np.asarray(qmat.H)[...] = saved  # keep the damage away from the other suites
    for n in (1, 2, 3, 4):
        d = 2**n
        Hn = np.array([[1.0]])
        for _ in range(n):
            Hn = np.kron(Hn, H1)
        for impl in ("fast", "regular"):
            v = g.normal(size=d)
            vc = g.normal(size=d) + 1j * g.normal(size=d)
            m = g.normal(size=(d, d))
            for kind, arr, ref in (("vector", v, Hn @ v / 2 ** (n / 2)), ("complex-vector", vc, Hn @ vc / 2 ** (n / 2)), ("matrix", m, Hn @ m @ Hn / 2**n)):
                np.asarray(qmat.H)[...] = saved
                key = "hadamard_transform:regular-corrupts-global-H" if (impl == "regular" and n == 1) else f"hadamard_transform:{kind}:{impl}"
                try:
                    S.check(key, f"hadamard_transform(array, '{impl}')", {"array": arr}, ref, 1e-10)
                finally:
                    np.asarray(qmat.H)[...] = saved
    # haar_integral: projector on the symmetric subspace divided by its dimension
    for n, t in ((1, 1), (1, 2), (1, 3), (2, 1), (2, 2)) + (((2, 3), (3, 2)) if ctx.thorough else ()):
        d = 2**n
        P = np.zeros((d**t, d**t))
        for perm in itertools.permutations(range(t)):
            for idx in itertools.product(range(d), repeat=t):
                i = sum(idx[k] * d ** (t - 1 - k) for k in range(t))
                j = sum(idx[perm[k]] * d ** (t - 1 - k) for k in range(t))
                P[j, i] += 1
        P /= math.factorial(t)
        ref = P / math.comb(d + t - 1, t)
        S.check("haar_integral:exact", f"haar_integral({n}, {t})", {}, ref, 1e-10)
        got = S.value({}, f"haar_integral({n}, {t}, samples=30)")
        ctx.case(("haar_sampled", n, t))
        got = np.asarray(got)
        if not (got.shape == ref.shape and abs(np.trace(got) - 1) < 1e-9 and np.allclose(got, got.conj().T, atol=1e-10)
                and herm_eigs(got).min() > -1e-10 and np.allclose(P @ got @ P, got, atol=1e-9)):
            S.T.fail("haar_integral:sampled", f"sampled haar_integral({n},{t}) is not a unit-trace positive matrix on the symmetric subspace",
                     HEADER + f"m = haar_integral({n}, {t}, samples=30)\nassert abs(np.trace(m) - 1) < 1e-9 and np.allclose(m, m.conj().T)\n")
    # pqc_integral of a circuit without free parameters is rho^{(x) t}
    for n, t in ((1, 1), (2, 2), (1, 3)):
        c = Circuit(n)
        c.add(gates.H(0))
        if n > 1:
            c.add(gates.CNOT(0, 1))
        psi = np.asarray(Circuit.__call__(c.copy(deep=True)).state())
        rho = proj(psi)
        ref = rho
        for _ in range(t - 1):
            ref = np.kron(ref, rho)
        S.check("pqc_integral:no-parameters", f"pqc_integral(c, {t}, 3)", {"c": c}, ref, 1e-10)
    S.done()


# Source shared by the harness (exec'ed below) and the replay snippets: states that are short
# sums of tensor products, so that the textbook reduced state is a short sum of small Kronecker
# products — no 2^n x 2^n reference computation is needed on 6..10 qubits.
PRODUCT_SUM_SRC = '''
def kron_all(ms, one):
    out = one
    for m in ms:
        out = np.kron(out, m)
    return out

def operator_terms(kind, coeff, factors):
    """the state as sum_t w_t (x)_q M[t][q] (2x2 factors).  'dm': factors are single-qubit
    density matrices, coeff the mixture weights;  'sv': factors are single-qubit vectors u[i][q],
    psi ~ sum_i c_i (x)_q u[i][q], so |psi><psi| has the terms (i, j) with |u_iq><u_jq|."""
    coeff, factors = np.asarray(coeff), np.asarray(factors)
    if kind == "dm":
        return [(coeff[t], factors[t]) for t in range(len(coeff))]
    terms = [(coeff[i] * np.conj(coeff[j]), np.einsum("qa,qb->qab", factors[i], np.conj(factors[j])))
             for i in range(len(coeff)) for j in range(len(coeff))]
    norm = sum(w * np.prod([np.trace(m) for m in ms]) for w, ms in terms)
    return [(w / norm, ms) for w, ms in terms]

def build_state(kind, coeff, factors):
    coeff, factors = np.asarray(coeff), np.asarray(factors)
    if kind == "dm":
        return sum(coeff[t] * kron_all(factors[t], np.ones((1, 1))) for t in range(len(coeff)))
    psi = sum(coeff[i] * kron_all(factors[i], np.ones(1)) for i in range(len(coeff)))
    return psi / np.linalg.norm(psi)

def reduced_state(kind, coeff, factors, traced):
    """Tr_traced: every traced factor contributes its trace, the kept factors stay in ascending qubit order."""
    n = np.asarray(factors).shape[1]
    keep = [q for q in range(n) if q not in set(traced)]
    return sum(w * np.prod([np.trace(ms[q]) for q in traced]) * kron_all([ms[q] for q in keep], np.ones((1, 1)))
               for w, ms in operator_terms(kind, coeff, factors))
'''
_PS = {"np": np}
exec(PRODUCT_SUM_SRC, _PS)  # noqa: S102  (our own source)


def traced_sets_large(rng, n, nrandom):
    """traced lists leaving few kept qubits (and a few leaving many) on an n-qubit register: kept = the last k,
    the first k-1 plus the last, a middle block plus the last, every other qubit, random small sets that contain
    one of the highest qubits together with lower ones; each list in ascending, descending or shuffled order."""
    keeps = []
    for k in (1, 2, 3, 4):
        if k < n:
            keeps.append(tuple(range(n - k, n)))
            keeps.append(tuple(range(k - 1)) + (n - 1,))
    mid = n // 2
    keeps += [(mid, n - 1), (mid - 1, mid, n - 1), (mid - 1, mid, n - 2, n - 1), (0, n - 2), (1, mid, n - 2),
              tuple(range(0, n, 2)), tuple(range(1, n, 2)), tuple(range(1, n)), tuple(q for q in range(n) if q != mid)]
    for _ in range(nrandom):
        k = rng.randint(2, 4)
        hi = rng.randrange(max(n - 2, 0), n)
        keeps.append(tuple(sorted(rng.sample(range(hi), min(k - 1, hi)) + [hi])))
    for _ in range(max(1, nrandom // 2)):
        keeps.append(tuple(sorted(rng.sample(range(n), rng.randint(1, n - 1)))))
    out, seen = [], set()
    for i, keep in enumerate(keeps):
        keep = tuple(sorted(set(q for q in keep if 0 <= q < n)))
        if keep in seen:
            continue
        seen.add(keep)
        tr = [q for q in range(n) if q not in keep]
        mode = ("ascending", "descending", "shuffled")[i % 3]
        if mode == "descending":
            tr.reverse()
        elif mode == "shuffled":
            rng.shuffle(tr)
        out.append((tr if i % 2 == 0 else tuple(tr), mode))
    return out


def search_partial_trace_large(ctx):
    """partial_trace beyond the sizes of the exact correspondence suite (6..10 qubits), both branches: correlated
    density matrices  sum_t w_t (x)_q rho_tq  and entangled state vectors  sum_i c_i (x)_q u_iq  with pairwise
    different single-qubit factors; the definition gives  sum_t w_t prod_{q traced} tr(rho_tq) (x)_{q kept, ascending} rho_tq."""
    from qibo.quantum_info import partial_trace

    T = Tally(ctx, "C18_search_partial_trace_large_registers")
    rng, g = ctx.rng, nprng(ctx)
    tol = 1e-9
    sizes = [(6, 3), (7, 3), (8, 4), (9, 8), (10, 6)] if not ctx.thorough else [(6, 8), (7, 8), (8, 10), (9, 24), (10, 16)]
    for n, nrandom in sizes:
        sets = traced_sets_large(rng, n, nrandom)
        for kind in ("dm", "sv"):
            if kind == "dm":
                w = float(g.uniform(0.3, 0.7))
                coeff = np.array([w, 1 - w])
                factors = np.array([[rand_dm(g, 2) for _ in range(n)] for _ in range(2)])
            else:
                coeff = g.normal(size=2) + 1j * g.normal(size=2)
                factors = np.array([[rand_sv(g, 2) for _ in range(n)] for _ in range(2)])
            state = _PS["build_state"](kind, coeff, factors)
            frozen = state.copy()
            name = "density-matrix" if kind == "dm" else "statevector"
            key = f"partial_trace:{name}:large-register"
            for tr, mode in sets:
                ctx.case(("ptrace-large", n, tuple(tr), kind))
                ctx.stat(f"ptrace_large_{kind}_n{n}_kept{n - len(tr)}_{mode}")
                exp = _PS["reduced_state"](kind, coeff, factors, list(tr))
                replay = (HEADER + PRODUCT_SUM_SRC + f"kind, coeff, factors = {kind!r}, {_lit(coeff)}, {_lit(factors)}\n"
                          f"traced = {tr!r}\nstate = build_state(kind, coeff, factors)\n")
                try:
                    got = np.asarray(partial_trace(state, tr))
                except Exception as e:  # noqa: BLE001
                    T.fail(key + ":raises", f"partial_trace({name} on {n} qubits, {tr!r}) raises {type(e).__name__}: {str(e)[:120]}",
                           replay + "got = partial_trace(state, traced)\n", f"a {exp.shape[0]}x{exp.shape[0]} matrix", repr(e))
                    continue
                if not np.array_equal(state, frozen):
                    T.fail(key + ":mutates-input", f"partial_trace({name} on {n} qubits, {tr!r}) modifies its input array",
                           replay + "before = state.copy()\npartial_trace(state, traced)\nassert np.array_equal(before, state)\n")
                    state = frozen.copy()
                err = float(np.max(np.abs(got - exp))) if got.shape == exp.shape else float("inf")
                if not err <= tol:
                    keep = [q for q in range(n) if q not in tr]
                    T.fail(key, f"partial_trace of a {name.replace('-', ' ')} on {n} qubits (sum of two tensor products), traced={tr!r} ({mode}), "
                                f"kept={keep}: differs from sum_t w_t prod_traced tr(rho_tq) (x)_kept rho_tq (kept qubits ascending) by {err:.3g}",
                           replay + "got = np.asarray(partial_trace(state, traced))\nexp = reduced_state(kind, coeff, factors, list(traced))\n"
                                    f"assert got.shape == exp.shape, (got.shape, exp.shape)\nerr = float(np.max(np.abs(got - exp)))\nassert err <= {tol!r}, err\n",
                           expected=f"{exp.shape[0]}x{exp.shape[0]} matrix, first row {np.round(exp[0, :4], 6).tolist()}",
                           observed=f"shape {got.shape}, first row {np.round(np.atleast_2d(got)[0, :4], 6).tolist()}, max deviation {err:.3g}")
                if len(ctx.samples) < 14 and n >= 9 and not any(isinstance(x, dict) and x.get("op") == "partial_trace_large" and x.get("input") == kind for x in ctx.samples):
                    ctx.sample({"op": "partial_trace_large", "n": n, "traced": list(tr), "input": kind, "order": mode})
    T.done()


def search_vector_inputs(ctx):
    """DESIGN F16 and its siblings: every measure that accepts both state vectors and density
    matrices, on many random normalised vectors whose computed norm is 1 only up to rounding:
    no exception, and the value of the projector."""
    S = Search(ctx, "C18_search_vector_inputs")
    g = nprng(ctx)
    calls = [
        ("purity", "purity(state)", lambda r, s, n: 1.0),
        ("von_neumann_entropy", "von_neumann_entropy(state)", lambda r, s, n: 0.0),
        ("von_neumann_entropy:return_spectrum", "von_neumann_entropy(state, return_spectrum=True)[0]", lambda r, s, n: 0.0),
        ("renyi_entropy", "renyi_entropy(state, 2)", lambda r, s, n: 0.0),
        ("renyi_entropy:alpha=1", "renyi_entropy(state, 1.0)", lambda r, s, n: 0.0),
        ("renyi_entropy:alpha=inf", "renyi_entropy(state, inf)", lambda r, s, n: 0.0),
        ("tsallis_entropy", "tsallis_entropy(state, 0.5)", lambda r, s, n: 0.0),
        ("tsallis_entropy:alpha=1", "tsallis_entropy(state, 1.0)", lambda r, s, n: 0.0),
        ("relative_von_neumann_entropy", "relative_von_neumann_entropy(state, state.copy())", lambda r, s, n: 0.0),
        ("relative_renyi_entropy", "relative_renyi_entropy(state, state.copy(), 0.5)", lambda r, s, n: 0.0),
        ("fidelity", "fidelity(state, other)", lambda r, s, n: float(np.real(np.trace(r @ s)))),
        ("trace_distance", "trace_distance(state, other)", lambda r, s, n: 0.5 * float(np.sum(np.abs(herm_eigs(r - s))))),
        ("hilbert_schmidt_distance", "hilbert_schmidt_distance(state, other)", lambda r, s, n: float(np.sum(np.abs(r - s) ** 2))),
        ("bures_distance", "bures_distance(state, other)", lambda r, s, n: math.sqrt(2 * (1 - math.sqrt(float(np.real(np.trace(r @ s))))))),
        ("entanglement_entropy", "entanglement_entropy(state, [0])", lambda r, s, n: entropy_of_spectrum(herm_eigs(ref_ptrace(r, n, [0])), 2)),
        ("mutual_information", "mutual_information(state, [0])", lambda r, s, n: 2 * entropy_of_spectrum(herm_eigs(ref_ptrace(r, n, [0])), 2)),
        ("concurrence", "concurrence(state, [0])", lambda r, s, n: math.sqrt(max(0.0, 2 * (1 - float(np.real(np.trace(np.linalg.matrix_power(ref_ptrace(r, n, [0]), 2)))))))),
        ("meyer_wallach_entanglement", "meyer_wallach_entanglement(state)", None),
        ("negativity", "negativity(state, [0])", lambda r, s, n: (float(np.sum(np.abs(herm_eigs(ref_ptranspose(r, n, [0]))))) - 1) / 2),
    ]
    for i in range(60 if ctx.thorough else 24):
        n = int(g.integers(2, 5))
        d = 2**n
        psi, phi = rand_sv(g, d), rand_sv(g, d)
        r, s = proj(psi), proj(phi)
        for key, call, ref in calls:
            if ref is None:
                continue
            exp = ref(r, s, n)
            tol = 1e-6 if key in ("concurrence", "bures_distance", "negativity", "entanglement_entropy", "mutual_information") else 1e-8
            S.check(f"{key}:statevector", call, {"state": psi, "other": phi}, exp, tol)
    S.done()


# ----------------------------------------------------------------------------------------
# C. random generators: kind validity for every option combination, seeds
# ----------------------------------------------------------------------------------------
PAULIS = {"I": np.eye(2, dtype=complex), "X": np.array([[0, 1], [1, 0]], dtype=complex),
          "Y": np.array([[0, -1j], [1j, 0]]), "Z": np.diag([1.0 + 0j, -1.0])}


def pauli_strings(n, order="IXYZ"):
    out = []
    for lab in itertools.product(order, repeat=n):
        m = np.array([[1.0 + 0j]])
        for c in lab:
            m = np.kron(m, PAULIS[c])
        out.append(m)
    return out


def to_np(x):
    if isinstance(x, (tuple, list)):
        return [to_np(y) for y in x]
    return np.asarray(x)


def flat(x):
    """canonical flat array of a generator output (arrays, tuples of arrays, circuits)."""
    from qibo import Circuit

    if isinstance(x, Circuit):
        return np.array([hash((g.__class__.__name__, tuple(g.qubits))) % (2**31) for g in x.queue], dtype=float)
    if isinstance(x, (tuple, list)):
        return np.concatenate([flat(y).reshape(-1) for y in x]) if len(x) else np.zeros(0)
    return np.asarray(x).reshape(-1)


def choi_from(rep, out, d, order):
    """Choi matrix (in the given vectorisation order) of a channel in representation `rep`;
    choi / kraus / liouville by formulas written here, the others through qibo's converters
    (their correctness is property C17)."""
    from qibo.quantum_info import superoperator_transformations as st

    if rep == "choi":
        return np.asarray(out)
    if rep == "kraus":
        ops = np.asarray(out[0])
        vec = (lambda k: k.reshape(-1)) if order == "row" else (lambda k: k.T.reshape(-1))
        return sum(np.outer(vec(k), vec(k).conj()) for k in ops)
    if rep == "liouville":
        L = np.asarray(out).reshape(d, d, d, d)
        # row: L[(i,j),(k,l)] = sum K[i,k] conj K[j,l];  Choi[(i,k),(j,l)] the same number
        # column: L[(j,i),(l,k)] = sum K[i,k] conj K[j,l]; Choi[(k,i),(l,j)]
        if order == "row":
            return L.transpose(0, 2, 1, 3).reshape(d * d, d * d)
        return L.transpose(3, 1, 2, 0).reshape(d * d, d * d)
    if rep.startswith("pauli"):
        po = rep.split("-")[1] if "-" in rep else "IXYZ"
        return np.asarray(st.pauli_to_choi(out, normalize=True, order=order, pauli_order=po))
    if rep.startswith("chi"):
        po = rep.split("-")[1] if "-" in rep else "IXYZ"
        return np.asarray(st.chi_to_choi(out, normalize=True, order=order, pauli_order=po))
    raise ValueError(rep)


def tp_error(choi, d, order):
    t = np.asarray(choi).reshape(d, d, d, d)
    red = np.einsum("ijik->jk", t) if order == "row" else np.einsum("jiki->jk", t)
    return float(np.abs(red - np.eye(d)).max())


def search_generators(ctx):
    import qibo.quantum_info as qi
    from qibo import Circuit
    from qibo.quantum_info.random_ensembles import uniform_sampling_U3

    T = Tally(ctx, "C18_search_generators")
    rng = ctx.rng

    def bad(key, what, call, extra_assert):
        T.fail(key, what, HEADER + f"out = {call}\n{extra_assert}\n")

    def run(call, env=None):
        e = {"np": np, "inf": np.inf}
        e.update({k: getattr(qi, k) for k in dir(qi) if not k.startswith("__")})
        e["uniform_sampling_U3"] = uniform_sampling_U3
        if env:
            e.update(env)
        with warnings.catch_warnings(record=True) as w:
            warnings.simplefilter("always")
            out = eval(call, e)  # noqa: S307
        return out, [str(x.message) for x in w]

    def seeds_ok(key, template, seed, compare_other=True):
        """same int seed twice, int seed vs Generator seed, different seed, global RNG states,
        consumed Generator."""
        ctx.case(("seed", template, seed))
        ctx.stat("generator_seed_checks")
        np.random.seed(1234)
        pyrandom.seed(99)
        st_np = np.random.get_state()[1].copy()
        st_py = pyrandom.getstate()
        try:
            a, _ = run(template.format(seed=seed))
            b, _ = run(template.format(seed=seed))
            c, _ = run(template.format(seed=f"np.random.default_rng({seed})"))
            dd, _ = run(template.format(seed=seed + 1))
            gen = np.random.default_rng(seed)
            e1, _ = run(template.format(seed="gen"), {"gen": gen})
            e2, _ = run(template.format(seed="gen"), {"gen": gen})
        except Exception as e:  # noqa: BLE001
            bad(key + ":raises", f"{template} raises {type(e).__name__}: {e}", template.format(seed=seed), "")
            return None
        fa, fb, fc, fd, f1, f2 = (flat(x) for x in (a, b, c, dd, e1, e2))
        if not (fa.shape == fb.shape and np.array_equal(fa, fb)):
            bad(key + ":not-reproducible", f"{template}: two calls with seed={seed} differ", template.format(seed=seed),
                f"out2 = {template.format(seed=seed)}\nassert np.array_equal(np.asarray(out).reshape(-1), np.asarray(out2).reshape(-1))")
        if not (fa.shape == fc.shape and np.array_equal(fa, fc)):
            bad(key + ":int-vs-generator-seed", f"{template}: seed={seed} and seed=default_rng({seed}) give different objects", template.format(seed=seed),
                f"out2 = {template.format(seed=f'np.random.default_rng({seed})')}\nassert np.array_equal(np.asarray(out).reshape(-1), np.asarray(out2).reshape(-1))")
        if compare_other and fa.size > 1 and fa.shape == fd.shape and np.array_equal(fa, fd):
            bad(key + ":seed-ignored", f"{template}: seeds {seed} and {seed + 1} give the same object", template.format(seed=seed),
                f"out2 = {template.format(seed=seed + 1)}\nassert not np.array_equal(np.asarray(out).reshape(-1), np.asarray(out2).reshape(-1))")
        if compare_other and f1.size > 1 and f1.shape == f2.shape and np.array_equal(f1, f2):
            bad(key + ":generator-not-advanced", f"{template}: two calls with the same Generator object return the same object", template.format(seed=seed), "raise SystemExit(1)")
        if not np.array_equal(f1, fa):
            bad(key + ":generator-stream", f"{template}: a fresh default_rng({seed}) passed as seed does not reproduce seed={seed}", template.format(seed=seed), "raise SystemExit(1)")
        if not np.array_equal(st_np, np.random.get_state()[1]) or st_py != pyrandom.getstate():
            bad(key + ":touches-global-rng", f"{template} with a local seed changes the global random state", template.format(seed=seed),
                "raise SystemExit(1)")
        return a

    def one(key, call, predicate, what):
        ctx.case(("gen", call))
        ctx.stat("generator_kind_checks")
        try:
            out, warns = run(call)
            ok = predicate(out, warns)
        except Exception as e:  # noqa: BLE001
            T.fail(key, f"{call} raises {type(e).__name__}: {str(e)[:150]}", HEADER + f"out = {call}\n")
            return
        if not ok:
            T.fail(key, f"{call}: {what}", HEADER + f"out = {call}\n# {what}\nraise SystemExit(1)\n")

    nseeds = 4 if ctx.thorough else 2
    seeds = [rng.randrange(10**6) for _ in range(nseeds)]

    def unitary(u, tol=1e-10):
        u = np.asarray(u)
        return u.ndim == 2 and u.shape[0] == u.shape[1] and np.abs(u.conj().T @ u - np.eye(len(u))).max() < tol and np.abs(u @ u.conj().T - np.eye(len(u))).max() < tol

    def density(r, tol=1e-10):
        r = np.asarray(r)
        return (r.ndim == 2 and abs(np.trace(r) - 1) < tol and np.abs(r - r.conj().T).max() < tol and herm_eigs(r).min() > -tol)

    def rank_of(r):
        return int(np.sum(herm_eigs(r) > 1e-10))

    for s in seeds:
        # --- gaussian / hermitian / unitary / statevector --------------------------------
        for dims, rank in ((1, None), (2, None), (3, 2), (4, 1), (5, 5), (8, 3)):
            one("random_gaussian_matrix", f"random_gaussian_matrix({dims}, rank={rank}, seed={s})",
                lambda o, w, dims=dims, rank=rank: np.asarray(o).shape == (dims, rank or dims) and np.iscomplexobj(o) and np.all(np.isfinite(o)),
                "shape is not (dims, rank)")
        seeds_ok("random_gaussian_matrix", "random_gaussian_matrix(4, rank=3, mean=0.5, stddev=2.0, seed={seed})", s)
        big, _ = run(f"random_gaussian_matrix(120, mean=0.7, stddev=1.5, seed={s})")
        big = np.asarray(big)
        ctx.case(("gauss-moments", s))
        if not (abs(big.real.mean() - 0.7) < 0.1 and abs(big.imag.mean() - 0.7) < 0.1 and abs(big.real.std() - 1.5) < 0.1 and abs(big.imag.std() - 1.5) < 0.1):
            bad("random_gaussian_matrix:moments", "real and imaginary parts are not N(mean, stddev)", f"random_gaussian_matrix(120, mean=0.7, stddev=1.5, seed={s})",
                "o = np.asarray(out)\nassert abs(o.real.mean() - 0.7) < 0.1 and abs(o.imag.mean() - 0.7) < 0.1 and abs(o.real.std() - 1.5) < 0.1 and abs(o.imag.std() - 1.5) < 0.1")
        for dims in (1, 2, 3, 4, 8):
            for sd, nz in itertools.product((False, True), (False, True)):
                def herm_ok(o, w, sd=sd, nz=nz):
                    o = np.asarray(o)
                    ok = np.abs(o - o.conj().T).max() < 1e-12
                    if sd:
                        ok = ok and herm_eigs(o).min() > -1e-10
                    if nz:
                        ok = ok and abs(np.linalg.norm(o) - 1) < 1e-10
                    return ok
                one("random_hermitian", f"random_hermitian({dims}, semidefinite={sd}, normalize={nz}, seed={s})", herm_ok,
                    "not Hermitian / not positive semidefinite / not normalised as requested")
            for measure in (None, "haar"):
                one(f"random_unitary:{measure}", f"random_unitary({dims}, {measure!r}, seed={s})", lambda o, w: unitary(o), "not unitary to 1e-10")
            one("random_statevector", f"random_statevector({dims}, seed={s})",
                lambda o, w, dims=dims: np.asarray(o).shape == (dims,) and abs(np.linalg.norm(o) - 1) < 1e-12, "not a normalised vector")
        seeds_ok("random_hermitian", "random_hermitian(4, semidefinite=True, seed={seed})", s)
        seeds_ok("random_unitary:haar", "random_unitary(4, 'haar', seed={seed})", s)
        seeds_ok("random_unitary:None", "random_unitary(4, seed={seed})", s)
        seeds_ok("random_statevector", "random_statevector(8, seed={seed})", s)
        # --- density matrices --------------------------------------------------------------
        for dims in (2, 4, 8) + ((3,) if True else ()):
            for metric in ("hilbert-schmidt", "ginibre", "bures"):
                for rank in (None, 1, 2, dims):
                    def dm_ok(o, w, metric=metric, rank=rank, dims=dims):
                        if not density(o):
                            return False
                        if metric in ("ginibre", "bures") and rank is not None:
                            return rank_of(o) == rank
                        return rank_of(o) == dims
                    one("random_density_matrix:bures-dims" if (metric == "bures" and dims == 3) else f"random_density_matrix:{metric}",
                        f"random_density_matrix({dims}, rank={rank}, metric='{metric}', seed={s})", dm_ok,
                        "not a unit-trace positive matrix of the requested rank (ginibre/bures honour rank, hilbert-schmidt is full rank)")
                one(f"random_density_matrix:pure:{metric}", f"random_density_matrix({dims}, pure=True, metric='{metric}', seed={s})",
                    lambda o, w: density(o) and rank_of(o) == 1 and abs(np.real(np.trace(np.asarray(o) @ np.asarray(o))) - 1) < 1e-10, "pure=True does not give a rank-one projector")
        for basis, nz, order in itertools.product(("pauli", "pauli-IXYZ", "pauli-ZXIY"), (False, True), ("row", "column")):
            n = 2
            d = 4
            po = basis.split("-")[1] if "-" in basis else "IXYZ"

            def basis_ok(o, w, po=po, nz=nz, s=s, d=d, n=n):
                o = np.asarray(o)
                ref, _ = run(f"random_density_matrix({d}, seed={s})")
                ref = np.asarray(ref)
                coeff = np.array([np.trace(P @ ref) for P in pauli_strings(n, po)]) / (math.sqrt(d) if nz else 1.0)
                return o.shape == (d * d,) and np.allclose(o, coeff, atol=1e-10)
            one(f"random_density_matrix:basis={'pauli' if basis == 'pauli' else 'pauli-order'}",
                f"random_density_matrix({d}, basis='{basis}', normalize={nz}, order='{order}', seed={s})", basis_ok,
                "the Pauli-basis vector is not (tr(P rho))_P of the state generated with the same seed")
        seeds_ok("random_density_matrix", "random_density_matrix(4, seed={seed})", s)
        seeds_ok("random_density_matrix:bures", "random_density_matrix(4, rank=2, metric='bures', seed={seed})", s)
        seeds_ok("random_density_matrix:pure", "random_density_matrix(4, pure=True, seed={seed})", s)
        # --- stochastic matrices -----------------------------------------------------------
        for dims in (1, 2, 3, 5):
            for bi, dd in itertools.product((False, True), (False, True)):
                def st_ok(o, w, bi=bi, dd=dd):
                    o = np.asarray(o)
                    ok = o.min() >= 0 and np.abs(o.sum(1) - 1).max() < 1e-8
                    if bi and not any("max iterations" in x for x in w):
                        ok = ok and np.abs(o.sum(0) - 1).max() < 2e-8
                    if dd and not bi:
                        ok = ok and np.all(2 * np.diag(o) >= o.sum(1) - 1e-12)
                    return ok
                one(f"random_stochastic_matrix:{'bi' if bi else ''}stochastic{':dominant' if dd else ''}",
                    f"random_stochastic_matrix({dims}, bistochastic={bi}, diagonally_dominant={dd}, seed={s})", st_ok,
                    "rows (and columns when bistochastic) do not sum to 1 with non-negative entries / diagonal not dominant")
        seeds_ok("random_stochastic_matrix", "random_stochastic_matrix(4, bistochastic=True, seed={seed})", s)
        # --- channels ----------------------------------------------------------------------
        reps = ["liouville", "choi", "kraus", "pauli", "chi", "pauli-ZXIY", "chi-XZYI"]
        for d in (2, 4):
            for measure, order in itertools.product((None, "haar", "bcsz"), ("row", "column")):
                ranks = (None, 1, 2, d * d) if measure == "bcsz" else (None,)
                for rank in ranks:
                    for rep in reps:
                        if d == 4 and rep in ("pauli-ZXIY", "chi-XZYI", "chi") and not ctx.thorough:
                            continue
                        call = f"random_quantum_channel({d}, '{rep}', measure={measure!r}, rank={rank}, order='{order}', normalize=True, seed={s})"

                        def ch_ok(o, w, rep=rep, d=d, order=order, measure=measure, rank=rank):
                            C = choi_from(rep, to_np(o), d, order)
                            herm = np.abs(C - C.conj().T).max() < 1e-9
                            psd = herm_eigs(C).min() > -1e-9
                            tp = tp_error(C, d, order) < 1e-8
                            want = 1 if measure != "bcsz" else (rank or d * d)
                            rk = int(np.sum(herm_eigs(C) > 1e-9)) == want
                            if rep == "kraus":
                                ops = np.asarray(o[0])
                                tp = tp and np.abs(sum(k.conj().T @ k for k in ops) - np.eye(d)).max() < 1e-8
                            return herm and psd and tp and rk
                        one("random_quantum_channel:bcsz-column-not-TP" if (measure == "bcsz" and order == "column") else f"random_quantum_channel:{measure}:{rep.split('-')[0]}",
                            call, ch_ok, "not a CPTP map of the promised Kraus rank (Choi matrix Hermitian, positive, partial trace over the output = identity)")
                    # Stinespring: a square operator on system + environment (its meaning is property C17's subject)
                    call = f"random_quantum_channel({d}, 'stinespring', measure={measure!r}, rank={rank}, order='{order}', seed={s})"
                    one("random_quantum_channel:stinespring", call,
                        lambda o, w, d=d: np.asarray(o).ndim == 2 and np.asarray(o).shape[0] == np.asarray(o).shape[1] and np.asarray(o).shape[0] % d == 0 and np.all(np.isfinite(o)),
                        "Stinespring representation is not a square operator on system x environment")
        seeds_ok("random_quantum_channel", "random_quantum_channel(2, 'liouville', measure='bcsz', seed={seed})", s)
        seeds_ok("random_quantum_channel:haar", "random_quantum_channel(2, 'choi', measure='haar', seed={seed})", s)
        seeds_ok("random_quantum_channel:None", "random_quantum_channel(2, 'kraus', seed={seed})", s)
        # --- Clifford / Pauli --------------------------------------------------------------
        for n in (1, 2, 3):
            def cliff_ok(o, w, n=n):
                u = np.asarray(o)
                if not unitary(u):
                    return False
                strings = pauli_strings(n)
                for q in range(n):
                    for p in "XZ":
                        m = np.array([[1.0 + 0j]])
                        for k in range(n):
                            m = np.kron(m, PAULIS[p] if k == q else PAULIS["I"])
                        img = u @ m @ u.conj().T
                        co = np.array([np.trace(P @ img) / 2**n for P in strings])
                        big = np.abs(co) > 1e-9
                        if big.sum() != 1 or abs(abs(co[big][0]) - 1) > 1e-9 or abs(co[big][0].imag) > 1e-9:
                            return False
                return True
            one("random_clifford:matrix", f"random_clifford({n}, return_circuit=False, seed={s})", cliff_ok, "does not map Pauli operators to +-Pauli operators")
            one("random_clifford:circuit", f"random_clifford({n}, seed={s}).unitary()", cliff_ok, "circuit is not a Clifford operator")
            one("random_clifford:circuit-vs-matrix", f"(random_clifford({n}, seed={s}).unitary(), random_clifford({n}, return_circuit=False, seed={s}))",
                lambda o, w: np.allclose(o[0], o[1], atol=1e-12), "return_circuit=True and False give different operators for one seed")
            one("random_clifford:density_matrix", f"random_clifford({n}, density_matrix=True, seed={s})",
                lambda o, w, n=n: isinstance(o, Circuit) and o.density_matrix and o.nqubits == n and all(g.clifford for g in o.queue), "not a density-matrix circuit of Clifford gates")
        seeds_ok("random_clifford", "random_clifford(3, seed={seed})", s)
        seeds_ok("random_clifford:matrix", "random_clifford(2, return_circuit=False, seed={seed})", s)
        for qubits, depth, subset, maxq in ((2, 3, None, None), ([0, 2], 2, ["X", "Z"], None), (1, 4, ["I", "Y"], 3), ([1], 1, ["Z"], 2), (3, 2, ["I"], None)):
            call_m = f"random_pauli({qubits!r}, {depth}, max_qubits={maxq}, subset={subset!r}, return_circuit=False, seed={s})"
            call_c = f"random_pauli({qubits!r}, {depth}, max_qubits={maxq}, subset={subset!r}, return_circuit=True, seed={s})"
            nq = qubits if isinstance(qubits, int) and maxq is None else (1 if isinstance(qubits, int) else len(qubits))
            qlist = list(range(qubits)) if isinstance(qubits, int) and maxq is None else ([qubits] if isinstance(qubits, int) else list(qubits))
            allowed = [PAULIS[k] for k in (subset or "IXYZ")]

            def pm_ok(o, w, nq=nq, depth=depth, allowed=allowed):
                o = np.asarray(o)
                return o.shape == (nq, depth, 2, 2) and all(any(np.array_equal(m, a) for a in allowed) for row in o for m in row)

            def pc_ok(o, w, call_m=call_m, qlist=qlist, maxq=maxq):
                mats, _ = run(call_m)
                mats = np.asarray(mats)
                want = []
                for q, row in zip(qlist, mats):
                    for m in row:
                        name = [k for k, v in PAULIS.items() if np.array_equal(v, m)][0]
                        if name != "I":
                            want.append((name.lower(), q))
                got = [(g.name, g.qubits[0]) for g in o.queue]
                return isinstance(o, Circuit) and o.nqubits == (maxq if maxq is not None else max(qlist) + 1) and got == want
            one("random_pauli:matrices", call_m, pm_ok, "not an array (qubits, depth, 2, 2) of Pauli matrices from the subset")
            one("random_pauli:circuit", call_c, pc_ok, "the circuit does not hold the same Paulis (identities dropped) as the matrix form with the same seed")
        seeds_ok("random_pauli", "random_pauli(3, 4, seed={seed})", s)
        # --- Pauli Hamiltonian -------------------------------------------------------------
        for n, maxe, nz, po in ((1, None, False, "IXYZ"), (2, None, False, "IXYZ"), (2, 3.0, True, "IXYZ"), (2, 10, True, "ZXIY"), (3, 2.5, True, "IXYZ"), (1, 4.0, True, "XYZI"), (2, 5.0, False, "IXYZ")):
            def ph_ok(o, w, n=n, maxe=maxe, nz=nz, po=po):
                h, eig = np.asarray(o[0]), np.asarray(o[1])
                d = 2**n
                H = sum(c * P for c, P in zip(h, pauli_strings(n, po))) / math.sqrt(d)
                ok = h.shape == (d * d,) and np.abs(H - H.conj().T).max() < 1e-10 and np.allclose(np.sort(herm_eigs(H)), np.sort(np.real(eig)), atol=1e-8)
                if nz:
                    e = np.sort(np.real(eig))
                    ok = ok and abs(e[0]) < 1e-8 and (d == 2 or abs(e[-1] - maxe) < 1e-8) and np.any(np.abs(e - 1) < 1e-8)
                return ok
            one("random_pauli_hamiltonian:spectrum", f"random_pauli_hamiltonian({n}, max_eigenvalue={maxe}, normalize={nz}, pauli_order='{po}', seed={s})", ph_ok,
                "the Pauli coefficients do not rebuild a Hermitian matrix whose spectrum is the returned eigenvalues (ground energy 0, first excited 1, largest = max_eigenvalue when normalised)")
        seeds_ok("random_pauli_hamiltonian", "random_pauli_hamiltonian(2, max_eigenvalue=3.0, normalize=True, seed={seed})", s)
        # --- U3 angles ---------------------------------------------------------------------
        one("uniform_sampling_U3", f"uniform_sampling_U3(50, seed={s})",
            lambda o, w: np.asarray(o).shape == (50, 3) and np.all(np.asarray(o) >= 0) and np.all(np.asarray(o)[:, 0] <= np.pi) and np.all(np.asarray(o)[:, 1:] <= 2 * np.pi),
            "angles outside [0,pi] x [0,2pi)^2")
        seeds_ok("uniform_sampling_U3", "uniform_sampling_U3(5, seed={seed})", s)
    # seed sweep: every small integer seed (and a few large ones) is honoured by every generator
    sweep = list(range(48)) + [2**31 - 1, 2**32, 10**9 + 7, 2**63 - 1]
    templates = {
        "random_gaussian_matrix": "random_gaussian_matrix(3, seed={seed})",
        "random_hermitian": "random_hermitian(3, seed={seed})",
        "random_unitary:haar": "random_unitary(3, 'haar', seed={seed})",
        "random_unitary:None": "random_unitary(3, seed={seed})",
        "random_statevector": "random_statevector(5, seed={seed})",
        "random_density_matrix": "random_density_matrix(3, seed={seed})",
        "random_density_matrix:bures": "random_density_matrix(4, metric='bures', seed={seed})",
        "random_stochastic_matrix": "random_stochastic_matrix(3, seed={seed})",
        "random_quantum_channel": "random_quantum_channel(2, measure='bcsz', seed={seed})",
        "random_clifford": "random_clifford(2, return_circuit=False, seed={seed})",
        "random_pauli": "random_pauli(2, 3, return_circuit=False, seed={seed})",
        "random_pauli_hamiltonian": "random_pauli_hamiltonian(1, seed={seed})[0]",
        "uniform_sampling_U3": "uniform_sampling_U3(2, seed={seed})",
    }
    for key, template in templates.items():
        prev = None
        for k in sweep:
            ctx.case(("seed-sweep", key, k))
            try:
                a, _ = run(template.format(seed=k))
                b, _ = run(template.format(seed=k))
            except Exception as e:  # noqa: BLE001
                bad(key + ":not-reproducible", f"{template.format(seed=k)} raises {type(e).__name__}: {e}", template.format(seed=k), "")
                break
            fa, fb = flat(a), flat(b)
            if not np.array_equal(fa, fb):
                bad(key + ":not-reproducible", f"{template}: two calls with seed={k} differ", template.format(seed=k),
                    f"out2 = {template.format(seed=k)}\nassert np.array_equal(np.asarray(out).reshape(-1), np.asarray(out2).reshape(-1))")
                break
            if prev is not None and key not in ("random_pauli", "random_clifford") and np.array_equal(fa, prev):
                bad(key + ":seed-ignored", f"{template}: seeds {k} and the previous one give the same object", template.format(seed=k), "raise SystemExit(1)")
                break
            prev = fa
    ctx.stat("generator_seed_sweep", len(sweep) * len(templates))
    # invalid seeds are refused
    for call in ("random_unitary(2, seed='a')", "random_statevector(2, seed=1.5)", "random_density_matrix(2, seed=[1])", "random_clifford(1, seed='x')"):
        ctx.case(("bad-seed", call))
        try:
            run(call)
            T.fail("seed:type-not-checked", f"{call} accepts a seed that is neither int nor Generator", HEADER + f"{call}\nraise SystemExit(1)\n")
        except TypeError:
            pass
        except Exception as e:  # noqa: BLE001
            T.fail("seed:type-not-checked", f"{call} raises {type(e).__name__} instead of TypeError", HEADER + f"{call}\n")
    T.done()


# ----------------------------------------------------------------------------------------
def run(ctx):
    MODULES, THEOREMS = registry(PROP)
    ctx.theorems = THEOREMS
    build_and_audit(ctx, PROP, MODULES + EXTRA_MODULES, THEOREMS)
    suites = (corr_partial_trace, corr_partial_transpose, corr_schmidt, corr_contractions, corr_classical,
              search_metrics, search_classical_entropies, search_quantum_entropies, search_entanglement,
              search_utils, search_partial_trace_large, search_vector_inputs, search_generators)
    np_state = np.random.get_state()
    for suite in suites:
        try:
            with warnings.catch_warnings():
                warnings.simplefilter("ignore")
                suite(ctx)
        except Exception as e:  # noqa: BLE001  the harness could not digest what the real code did
            ctx.log(traceback.format_exc()[-1800:])
            ctx.ob(f"C18_{suite.__name__}_completed", False, "search", f"{type(e).__name__}: {e}"[:300])
    # run-time instantiation of the algebra theorems of Props/C18d.lean, C18e.lean on the real functions
    try:
        from props import C18_algebra
        C18_algebra.run_suites(ctx)
    except Exception as e:  # noqa: BLE001
        ctx.log(traceback.format_exc()[-1800:])
        ctx.ob("C18_inst_completed", False, "search", f"{type(e).__name__}: {e}"[:300])
    np.random.set_state(np_state)
    ctx.notes.append(
        "theorem instances (C18d/C18e, tools/props/C18_algebra.py): BCSZ channels d=2,4(,8) x row/column x rank None,1,2,d^2 x seeds — hypotheses S Y S = 1, S = S^dagger evaluated on the Gaussian matrix "
        "regenerated from the seed, model (1 x S) X X^dagger (1 x S) = returned Choi matrix, conclusions PSD / Tr_out = 1 / rank / trace on the returned matrix; Bures / Ginibre / Hilbert-Schmidt density "
        "matrices d=2..5,8 likewise; F_avg <-> F_pro <-> gate_error relations, Bures distance / angle as functions of the real fidelity (values and strict antitonicity), Meyer-Wallach range from the "
        "single-qubit purities, entanglement of formation along cos t|0..0> + sin t|1..1> (argument range, end points, monotone in the concurrence, bases 2/e/10), negativity = minus the sum of negative "
        "eigenvalues, Shannon entropy in [0, log_b n] (uniform / point attain the bounds), Gibbs inequality")
    ctx.notes.append(
        "correspondence (exact, Gaussian integers): partial_trace both branches for every ordered subset of n<=3 qubits, samples + empty/full/descending at n=4,5, "
        "malformed lists; partial_transpose matrices/vectors/batches incl. repeated and out-of-range indices; schmidt_decomposition reconstruction for every ordered partition n<=3; "
        "purity / Hilbert-Schmidt / overlap contractions; hamming_weight/distance on ints, strings, lists, tuples, arrays; total variation on rationals. "
        "search (1e-8 unless a rank-deficient fractional power is involved): every public measure of metrics/entropies/entanglement/utils against references written in the harness "
        "on vectors, pure, eps-from-pure (1e-6..1e-12), rank-deficient, generic and maximally mixed states, both argument orders, bases 2/e/10(/5/0.5), alpha 0,.3,.5,1,1.5,2,3,3.5,inf; "
        "all bipartitions (unsorted); partial_trace of density matrices and state vectors on 6..10 qubits (sums of two tensor products with pairwise different "
        "single-qubit factors, traced lists ascending / descending / shuffled leaving 1-4 or many kept qubits) against the Kronecker product of the kept factors; generators: every option combination x seeds: kind validity, reproducibility, int vs Generator seed, global RNG untouched")
    ctx.assumptions += [
        "values of spectral measures rest on numpy's eigh/svd (trusted) in both the code and the references; what is proved is the index bookkeeping (partial trace / transpose / Schmidt reshape), "
        "the purity-type contractions, the classical distances and the kind-validity algebra of the generators",
        "inside the documented tolerance of a pure-state shortcut (|purity-1| <= qibo.config.PRECISION_TOL) the value for the dominant pure component is accepted as well as the exact value",
        "renyi_entropy / tsallis_entropy at alpha=0 are documented as log(d) resp. d-1 and compared on full-rank states only; relative entropies are compared for full-rank targets (finite textbook value)",
        "distributional correctness of the samplers (Haar, Hilbert-Schmidt, Bures, BCSZ, Mallows) is not examined beyond first and second moments of the Gaussian matrix; kind validity and seeding are",
        "diamond_norm needs cvxpy (not installed); expressibility / frame_potential draw from the global numpy RNG without a seed argument and are not examined",
    ]
    ctx.trusted += [
        "numpy.linalg.eigh / svd / qr, scipy.linalg.fractional_matrix_power / expm as used by both qibo and the reference implementations of this harness",
        "numpy default_rng streams: same seed => same stream",
    ]
