"""C16 — time evolution reaches exp(-iHt).

Three ingredients (see tools/README.md):
  * kernel step: theorems of lean/QV/Props/C16.lean, C16b.lean, C16c.lean, C16d.lean (model:
    lean/QV/Model/Evolution.lean; proofs lean/QV/Proofs/Evolution.lean, EvolutionExp.lean,
    EvolutionOrder.lean, EvolutionBound.lean, EvolutionGlobal.lean, EvolutionRK.lean,
    EvolutionTimed.lean);
  * correspondence (driver lean/DriverC16.lean), exact Gaussian-integer data:
      - the real `TermGroup.from_terms`, `TermGroup.term`, `TermGroup.to_term(coefficients)`
        (hence `HamiltonianTerm.merge`) on lists of raw `HamiltonianTerm`s with arbitrary
        ordered target tuples: group membership, group qubit sets, target order and merged
        matrices;
      - the real `SymbolicHamiltonian.circuit(dt)` and
        `SymbolicAdiabaticHamiltonian.circuit(dt, t)` on Pauli polynomials: gate skeleton
        (targets, order) exactly, gate matrices against expm of the model's merged matrices;
      - the real number of steps of `StateEvolution.execute` (counted through a callback)
        against the model's IEEE-double `nstepsF`;
      - the times at which the real solvers use the Hamiltonian and their final clock against the
        model's `readLog`, bit for bit (props/C16_global.py);
  * direct search on the real code against scipy's expm (the SPEC), including the PROVED local and
    global error bounds evaluated on the real circuits / solvers (props/C16_global.py).
"""
from __future__ import annotations

import itertools
import math
import struct
from fractions import Fraction

import numpy as np
import scipy.linalg as sla

from vlib.driver import run_driver
from vlib.proofs import build_and_audit, registry

PROP = "C16"
DRIVER = "DriverC16.lean"

PAULI = {
    "X": np.array([[0, 1], [1, 0]], dtype=complex),
    "Y": np.array([[0, -1j], [1j, 0]], dtype=complex),
    "Z": np.array([[1, 0], [0, -1]], dtype=complex),
}

PRE = (
    "import sys, numpy as np, scipy.linalg as sla\n"
    "from qibo import set_backend, hamiltonians, models, callbacks, solvers\n"
    "set_backend('numpy')\n"
    "from qibo.symbols import X, Y, Z\n"
    "from qibo.hamiltonians import Hamiltonian, SymbolicHamiltonian\n"
    "from qibo.hamiltonians.terms import HamiltonianTerm, TermGroup\n"
    "from qibo.hamiltonians.adiabatic import AdiabaticHamiltonian\n"
    "P = {'X': np.array([[0, 1], [1, 0]], dtype=complex), 'Y': np.array([[0, -1j], [1j, 0]]), 'Z': np.diag([1. + 0j, -1.])}\n"
    "def E(m, qs, n):\n"
    "    # matrix m on the ordered qubits qs, enlarged to n qubits (qubit 0 most significant)\n"
    "    k = len(qs); rest = [q for q in range(n) if q not in qs]\n"
    "    t = np.kron(np.asarray(m, dtype=complex), np.eye(2 ** (n - k))).reshape(2 * n * (2,))\n"
    "    order = list(qs) + rest; inv = [order.index(q) for q in range(n)]\n"
    "    return np.transpose(t, inv + [n + a for a in inv]).reshape(2 ** n, 2 ** n)\n"
    "def MONO(c, ops, n):\n"
    "    out = np.eye(2 ** n, dtype=complex) * c\n"
    "    for q, p in ops: out = out @ E(P[p], [q], n)\n"
    "    return out\n"
    "def pdist(U, V):\n"
    "    k = np.vdot(V.ravel(), U.ravel()); ph = k / abs(k) if abs(k) > 1e-14 else 1.0\n"
    "    return float(np.abs(U - ph * V).max())\n"
)


def _import_qibo():
    env = {}
    exec(PRE, env)  # noqa: S102 - own text
    return env


Q = None  # filled in run(): namespace with the qibo names of PRE


def fail(ctx, key, what, python, expected=None, observed=None, broken=None):
    """ctx.fail, but a second report under the same key still marks its obligations."""
    for f in ctx.failures:
        if f["key"] == key:
            for b in broken or []:
                if b not in f["broken"]:
                    f["broken"].append(b)
            return
    ctx.fail(key, what, python, expected=expected, observed=observed, broken=broken)


# ---------------------------------------------------------------------------
# plain numpy SPEC helpers


def embed(m, qs, n):
    return Q["E"](m, list(qs), n)


def mono_matrix(c, ops, n):
    return Q["MONO"](c, ops, n)


def pdist(U, V):
    return Q["pdist"](np.asarray(U), np.asarray(V))


def gi(z):
    z = complex(z)
    r, i = round(z.real), round(z.imag)
    if abs(z.real - r) > 1e-9 or abs(z.imag - i) > 1e-9:
        raise ValueError(f"non-integer entry {z}")
    return f"{r} {i}"


def gis(a):
    return " ".join(gi(z) for z in np.asarray(a).reshape(-1))


def parse_gis(s):
    v = [int(x) for x in s.split()]
    return np.array([complex(v[2 * k], v[2 * k + 1]) for k in range(len(v) // 2)])


def parse_nats(s):
    return [int(x) for x in s.split()]


def fbits(x):
    return struct.unpack("<Q", struct.pack("<d", float(x)))[0]


def arr_src(a):
    return "np.array(" + repr(np.asarray(a).tolist()) + ", dtype=complex)"


# ---------------------------------------------------------------------------
# Pauli polynomials: list of (coef, ((q, 'X'), ...)) with ascending qubits, plus a constant


def mono_commute(a, b):
    da, db = dict(a), dict(b)
    anti = sum(1 for q in da if q in db and da[q] != db[q])
    return anti % 2 == 0


def rand_subsets(rng, n, count):
    """qubit subsets with nesting, overlap and repetition."""
    subs = []
    parents = []
    if n >= 3 and rng.random() < 0.45:
        # spread: the pairs of a ring / chain (several groups), plus singles and a few nested ones
        pairs = [tuple(sorted((i, (i + 1) % n))) for i in range(n)]
        rng.shuffle(pairs)
        while len(subs) < count:
            r = rng.random()
            if r < 0.6:
                subs.append(rng.choice(pairs))
            elif r < 0.85:
                subs.append((rng.randrange(n),))
            else:
                subs.append(tuple(sorted(rng.sample(range(n), rng.randint(2, min(3, n))))))
        return subs
    for _ in range(rng.randint(1, 2)):
        k = rng.randint(2, min(3, n)) if n >= 2 else 1
        parents.append(tuple(sorted(rng.sample(range(n), k))))
    while len(subs) < count:
        r = rng.random()
        if r < 0.3 and parents:
            subs.append(rng.choice(parents))
        elif r < 0.6 and parents:
            p = rng.choice(parents)
            k = rng.randint(1, len(p))
            subs.append(tuple(sorted(rng.sample(p, k))))
        elif r < 0.75 and subs:
            subs.append(rng.choice(subs))  # repeated subset
        else:
            k = rng.randint(1, min(3, n))
            subs.append(tuple(sorted(rng.sample(range(n), k))))
    return subs


def rand_poly(rng, n, nterms, commuting=None, integer=True, zonly=False):
    """distinct monomials (one Pauli per qubit per monomial).  commuting=True: pairwise
    commuting; False: at least one anticommuting pair; None: whatever comes."""
    for _ in range(200):
        monos = {}
        tries = 0
        subs = rand_subsets(rng, n, nterms * 3)
        for s in subs:
            if len(monos) >= nterms:
                break
            ops = tuple((q, "Z" if zonly else rng.choice("XYZ")) for q in s)
            if ops in monos:
                continue
            if commuting and not all(mono_commute(ops, o) for o in monos):
                tries += 1
                continue
            c = rng.choice([-3, -2, -1, 1, 2, 3]) if integer else round(rng.uniform(-1, 1), 3) or 0.5
            monos[ops] = c
        ms = [(c, ops) for ops, c in monos.items()]
        if not ms:
            continue
        allc = all(mono_commute(a[1], b[1]) for a, b in itertools.combinations(ms, 2))
        if commuting is False and allc:
            continue
        if commuting is True and not allc:
            continue
        const = rng.choice([0, 0, 1, -2, 3]) if integer else rng.choice([0, 0.7, -1.3])
        return ms, const
    raise RuntimeError("generator exhausted")


def poly_src(ms, const):
    parts = []
    for c, ops in ms:
        parts.append(f"({c!r}) * " + " * ".join(f"{p}({q})" for q, p in ops))
    if const:
        parts.append(f"({const!r})")
    return " + ".join(parts)


def poly_matrix(ms, const, n):
    H = const * np.eye(2**n, dtype=complex)
    for c, ops in ms:
        H = H + mono_matrix(c, ops, n)
    return H


def sym_ham(ms, const, n):
    form = eval(poly_src(ms, const), Q)  # noqa: S307 - own generated text
    return Q["SymbolicHamiltonian"](form, nqubits=n)


def real_term_ops(term):
    return tuple(sorted((int(f.target_qubit), type(f).__name__) for f in term.factors))


# ---------------------------------------------------------------------------
# correspondence 1: raw HamiltonianTerm lists through from_terms / term / to_term


def raw_case_line(op, terms, c0, c1):
    toks = [op, gi(c0), gi(c1), str(len(terms))]
    for tag, qs, M in terms:
        toks += [str(tag), str(len(qs))] + [str(q) for q in qs] + [gis(M)]
    return " ".join(toks)


def parse_terms_answer(line):
    gpart, _, qpart = line.partition(" # ")
    groups = []
    for g in gpart.split(" | "):
        f = g.split(" ; ")
        if len(f) != 4:
            continue
        groups.append((parse_nats(f[0]), parse_nats(f[1]), parse_nats(f[2]), parse_gis(f[3])))
    queue = []
    for g in qpart.split(" | "):
        f = g.split(" ; ")
        if len(f) != 2:
            continue
        queue.append((parse_nats(f[0]), parse_gis(f[1])))
    return groups, queue


def rand_int_matrix(rng, k, kind):
    d = 2**k
    if kind == 0:  # real integers
        return np.array([[rng.randint(-2, 2) for _ in range(d)] for _ in range(d)], dtype=complex)
    if kind == 1:  # Gaussian integers
        return np.array([[complex(rng.randint(-2, 2), rng.randint(-2, 2)) for _ in range(d)] for _ in range(d)])
    # Hermitian Gaussian integers
    A = np.array([[complex(rng.randint(-2, 2), rng.randint(-2, 2)) for _ in range(d)] for _ in range(d)])
    return A + A.conj().T


def raw_cases(ctx):
    rng = ctx.rng
    cases = []
    # exhaustive: every list of <= 2 terms over the ordered non-empty subsets of 3 qubits
    osubs = [p for k in (1, 2, 3) for p in itertools.permutations(range(3), k)]
    lists = [[a] for a in osubs] + [[a, b] for a in osubs for b in osubs]
    triples = [[a, b, c] for a in osubs for b in osubs for c in osubs]
    lists += triples if ctx.thorough else rng.sample(triples, 400)
    for qss in lists:
        terms = [(rng.randint(0, 1), qs, rand_int_matrix(rng, len(qs), rng.randint(0, 1))) for qs in qss]
        cases.append(("exhaustive3", 3, terms))
    # random: n <= 4 (5 thorough), up to 7 terms, nested / overlapping / repeated ordered subsets
    for _ in range(700 if ctx.thorough else 260):
        n = rng.randint(1, 5 if ctx.thorough else 4)
        nt = rng.randint(1, 7)
        subs = rand_subsets(rng, n, nt)
        if n >= 4 and rng.random() < 0.3:
            subs[rng.randrange(len(subs))] = tuple(rng.sample(range(n), 4))  # a four-qubit parent
        relabel = None
        if rng.random() < 0.15:
            # sparse labels (qubit ids up to 9, not contiguous)
            relabel = sorted(rng.sample(range(10), n))
        terms = []
        for s in subs:
            qs = list(s)
            rng.shuffle(qs)
            if relabel:
                qs = [relabel[q] for q in qs]
            terms.append((rng.randint(0, 1), tuple(qs), rand_int_matrix(rng, len(qs), rng.randint(0, 2))))
        cases.append(("random", n, terms))
    return cases


def raw_src(terms, c0, c1):
    lines = ["terms = []"]
    for tag, qs, M in terms:
        lines.append(f"t = HamiltonianTerm({arr_src(M)}, {', '.join(str(q) for q in qs)}); t.hamiltonian = 'h{tag}'; terms.append(t)")
    lines.append("orig = [np.array(t.matrix, copy=True) for t in terms]")
    lines.append("groups = TermGroup.from_terms(terms)")
    lines.append(f"coef = {{'h0': {complex(c0)!r}, 'h1': {complex(c1)!r}}}")
    return "\n".join(lines) + "\n"


RAW_SPEC = (
    "n = 1 + max(q for t in terms for q in t.target_qubits)\n"
    "seen = sorted(i for g in groups for i in [[id(t) for t in terms].index(id(m)) for m in g])\n"
    "ok = seen == list(range(len(terms)))\n"
    "tot = 0; tot2 = 0\n"
    "for g in groups:\n"
    "    m = g.term; ok = ok and set(m.target_qubits) == set(g.target_qubits) == set(g[0].target_qubits)\n"
    "    tot = tot + E(m.matrix, m.target_qubits, n)\n"
    "    m2 = g.to_term(coef); tot2 = tot2 + E(m2.matrix, m2.target_qubits, n)\n"
    "ref = sum(E(o, t.target_qubits, n) for o, t in zip(orig, terms))\n"
    "ref2 = sum(coef[t.hamiltonian] * E(o, t.target_qubits, n) for o, t in zip(orig, terms))\n"
    "ok = ok and np.abs(tot - ref).max() < 1e-9 and np.abs(tot2 - ref2).max() < 1e-9\n"
    "ok = ok and all(np.array_equal(o, t.matrix) for o, t in zip(orig, terms))\n"
    "print('groups', [[[id(t) for t in terms].index(id(m)) for m in g] for g in groups])\n"
    "sys.exit(0 if ok else 1)\n"
)


def run_raw_real(terms, c0, c1):
    """returns (groups, spec_ok, what) — groups: [(ids, sorted qubit set, targets of .term, matrix of
    .term, targets of to_term(coef), matrix of to_term(coef))]"""
    HT, TG = Q["HamiltonianTerm"], Q["TermGroup"]
    objs = []
    for tag, qs, M in terms:
        t = HT(np.array(M, dtype=complex), *qs)
        t.hamiltonian = f"h{tag}"
        objs.append(t)
    orig = [np.array(t.matrix, copy=True) for t in objs]
    groups = TG.from_terms(objs)
    ids = {id(t): i for i, t in enumerate(objs)}
    coef = {"h0": complex(c0), "h1": complex(c1)}
    out = []
    for g in groups:
        m = g.term
        m_again = g.term
        m2 = g.to_term(coef)
        m3 = g.to_term(coef)  # second call
        again_ok = np.array_equal(np.asarray(m.matrix), np.asarray(m_again.matrix)) and np.array_equal(
            np.asarray(m2.matrix), np.asarray(m3.matrix))
        out.append(([ids.get(id(x), -1) for x in g], sorted(int(q) for q in g.target_qubits),
                    [int(q) for q in m.target_qubits], np.asarray(m.matrix).reshape(-1),
                    [int(q) for q in m2.target_qubits], np.asarray(m2.matrix).reshape(-1), again_ok))
    unchanged = all(np.array_equal(o, np.asarray(t.matrix)) for o, t in zip(orig, objs))
    return out, unchanged


def corr_raw(ctx):
    rng = ctx.rng
    cases = raw_cases(ctx)
    lines, meta = [], []
    for gen, n, terms in cases:
        c0 = complex(rng.randint(-3, 3), rng.randint(-2, 2))
        c1 = complex(rng.randint(-3, 3), rng.randint(-2, 2))
        lines.append(raw_case_line("TERMS", terms, 1, 1))
        lines.append(raw_case_line("TERMS", terms, c0, c1))
        meta.append((gen, n, terms, c0, c1))
    answers = run_driver(lines, driver=DRIVER)
    bad = {"groups": 0, "merge": 0, "coef": 0}
    for k, (gen, n, terms, c0, c1) in enumerate(meta):
        g1, _ = parse_terms_answer(answers[2 * k])
        g2, _ = parse_terms_answer(answers[2 * k + 1])
        src = PRE + raw_src(terms, c0, c1) + RAW_SPEC
        nested = any(set(a[1]) < set(b[1]) for a in terms for b in terms)
        unsorted = any(list(t[1]) != sorted(t[1]) for t in terms)
        ctx.stat(f"raw:{gen}")
        ctx.stat(f"raw:nterms={len(terms)}")
        if nested:
            ctx.stat("raw:nested-subsets")
        if unsorted:
            ctx.stat("raw:unsorted-targets")
        ctx.case(("raw", tuple((t[0], t[1]) for t in terms)))
        try:
            real, unchanged = run_raw_real(terms, c0, c1)
        except Exception as ex:  # noqa: BLE001
            bad["groups"] += 1
            fail(ctx, "terms:raises", f"from_terms / term / to_term raises {type(ex).__name__}: {ex} for terms on {[t[1] for t in terms]}",
                 src, broken=["C16_corr_groups"])
            continue
        what = None
        if [r[0] for r in real] != [g[0] for g in g1] or [r[1] for r in real] != [g[1] for g in g1]:
            bad["groups"] += 1
            what = ("groups", "C16_corr_groups", f"groups {[r[0] for r in real]} with qubit sets {[r[1] for r in real]}",
                    f"{[g[0] for g in g1]} with {[g[1] for g in g1]}")
        elif any(r[2] != g[2] or len(r[3]) != len(g[3]) or np.abs(r[3] - g[3]).max() > 1e-9 for r, g in zip(real, g1)):
            bad["merge"] += 1
            what = ("merge", "C16_corr_merge", "merged group term (targets / matrix) differs", "")
        elif any(r[4] != g[2] or len(r[5]) != len(g[3]) or np.abs(r[5] - g[3]).max() > 1e-9 for r, g in zip(real, g2)):
            bad["coef"] += 1
            what = ("coefficients", "C16_corr_coefficients", "to_term(coefficients) differs", "")
        elif not all(r[6] for r in real):
            bad["merge"] += 1
            what = ("second-call", "C16_corr_merge", "a second call of term / to_term gives a different matrix", "")
        elif not unchanged:
            bad["merge"] += 1
            what = ("mutates-terms", "C16_corr_merge", "merging changed the matrix of a member term", "")
        if what:
            shape = "unsorted" if unsorted else ("nested" if nested else "plain")
            fail(ctx, f"terms:{what[0]}:{shape}",
                 f"{what[2]} for terms (tag, targets) {[(t[0], t[1]) for t in terms]}; model: {what[3]}",
                 src, expected=str([(g[0], g[2]) for g in g1]), observed=str([(r[0], r[2]) for r in real]), broken=[what[1]])
        if gen == "random" and len(g1) >= 2 and nested and unsorted:
            ctx.sample({"suite": "raw", "terms (tag, targets)": [(t[0], list(t[1])) for t in terms], "groups (member ids)": [g[0] for g in g1],
                        "merged targets": [g[2] for g in g1]}, limit=3)
    ctx.ob("C16_corr_groups", bad["groups"] == 0, "correspondence", f"{bad['groups']} disagreements" if bad["groups"] else "")
    ctx.ob("C16_corr_merge", bad["merge"] == 0, "correspondence", f"{bad['merge']} disagreements" if bad["merge"] else "")
    ctx.ob("C16_corr_coefficients", bad["coef"] == 0, "correspondence", f"{bad['coef']} disagreements" if bad["coef"] else "")


# ---------------------------------------------------------------------------
# correspondence 2: SymbolicHamiltonian.circuit / SymbolicAdiabaticHamiltonian.circuit


def real_terms_as_raw(h, ms, n, tag):
    """the real `h.terms`, identified with the generated monomials through their factors;
    matrices from the SPEC (kron of Paulis on the sorted qubits)."""
    table = {tuple(sorted(ops)): c for c, ops in ms}
    out = []
    for t in h.terms:
        ops = real_term_ops(t)
        if ops not in table:
            raise KeyError(f"term {ops} is not a monomial of the form")
        qs = tuple(q for q, _ in ops)
        if tuple(int(q) for q in t.target_qubits) != qs:
            raise KeyError(f"term {ops} has targets {t.target_qubits}")
        M = np.eye(1, dtype=complex) * table[ops]
        for _, p in ops:
            M = np.kron(M, PAULI[p])
        out.append((tag, qs, M))
    if len(out) != len(ms):
        raise KeyError(f"{len(out)} terms for {len(ms)} monomials")
    return out


def gate_list(circ):
    return [([int(q) for q in g.target_qubits], np.asarray(g.matrix()), [int(q) for q in g.control_qubits]) for g in circ.queue]


def compare_queue(real_gates, queue, a):
    """real gates vs expm(-i a M) of the model's queue; returns None or a description."""
    if [g[0] for g in real_gates] != [q[0] for q in queue] or any(g[2] for g in real_gates):
        return f"gate targets {[g[0] for g in real_gates]} (model {[q[0] for q in queue]})"
    for j, (g, q) in enumerate(zip(real_gates, queue)):
        d = 2 ** len(q[0])
        ref = sla.expm(-1j * a * q[1].reshape(d, d))
        if g[1].shape != ref.shape or np.abs(g[1] - ref).max() > 1e-9:
            return f"matrix of gate {j} on {g[0]} differs from expm(-i dt/2 · merged) by {np.abs(g[1] - ref).max():.3e}"
    return None


def circuit_prop_src(build, Hsrc, wsum):
    """replay text: the Trotter property itself for the circuit factory `circ(dt)` defined by `build`."""
    dt = 0.1 / max(1.0, wsum / 3)
    return PRE + build + f"H = {Hsrc}\ndt = {dt!r}\n" + (
        "e1 = pdist(circ(dt).unitary(), sla.expm(-1j * dt * H))\n"
        "e2 = pdist(circ(dt / 2).unitary(), sla.expm(-1j * dt / 2 * H))\n"
        "e3 = pdist(circ(dt).unitary(), sla.expm(-1j * dt * H))\n"
        "print('err(dt)', e1, 'err(dt/2)', e2, 'second call err(dt)', e3)\n"
        f"sys.exit(0 if e1 <= {(2 * wsum) ** 3 + 1e-9!r} * dt ** 3 + 1e-10 and (e1 < 1e-10 or e2 <= e1 / 6.5) and abs(e3 - e1) < 1e-12 else 1)\n")


def corr_symbolic(ctx):
    rng = ctx.rng
    lines, meta, mid_lines = [], [], []
    N = 160 if ctx.thorough else 70
    for k in range(N):
        n = rng.choice([2, 3, 3, 4, 4, 4])
        ms, const = rand_poly(rng, n, rng.randint(2, 7), commuting=None)
        dt = rng.choice([0.1, 0.37, -0.2, 1.0])
        try:
            h = sym_ham(ms, const, n)
            raw = real_terms_as_raw(h, ms, n, 0)
        except Exception as ex:  # noqa: BLE001
            fail(ctx, "circuit:terms", f"terms of {poly_src(ms, const)}: {type(ex).__name__}: {ex}",
                 PRE + f"h = SymbolicHamiltonian({poly_src(ms, const)}, nqubits={n})\nprint(h.terms)\nsys.exit(1)\n", broken=["C16_corr_circuit"])
            continue
        lines.append(raw_case_line("TERMS", raw, 1, 1))
        meta.append(("sym", n, ms, const, dt, h, None))
    for k in range(N // 2):
        n = rng.choice([2, 3, 3, 4, 4, 4])
        ms0, c0 = rand_poly(rng, n, rng.randint(1, 4), commuting=None)
        ms1, c1 = rand_poly(rng, n, rng.randint(1, 5), commuting=None)
        s = rng.choice([0, 1, 2, 3, -1])  # schedule value: integer, so the coefficients are exact
        dt = rng.choice([0.1, 0.25, -0.3])
        try:
            h0, h1 = sym_ham(ms0, c0, n), sym_ham(ms1, c1, n)
            raw = real_terms_as_raw(h0, ms0, n, 0) + real_terms_as_raw(h1, ms1, n, 1)
        except Exception as ex:  # noqa: BLE001
            fail(ctx, "circuit:terms", f"terms of {poly_src(ms0, c0)} / {poly_src(ms1, c1)}: {type(ex).__name__}: {ex}", "", broken=["C16_corr_adiabatic"])
            continue
        lines.append(raw_case_line("ADIAB", raw, 1 - s, s))
        meta.append(("adiab", n, (ms0, ms1), (c0, c1), dt, (h0, h1), s))
        mid_lines.append(raw_case_line("ADIAB", raw, -s, s + 1))  # the same object asked at time s + 1 in between
    all_answers = run_driver(lines + mid_lines, driver=DRIVER)
    answers, mid_answers = all_answers[:len(lines)], all_answers[len(lines):]
    mid_iter = iter(mid_answers)
    bad = {"sym": 0, "adiab": 0}
    for (kind, n, ms, const, dt, h, s), ans in zip(meta, answers):
        groups, queue = parse_terms_answer(ans)
        ctx.stat(f"circuit:{kind}")
        ctx.stat(f"circuit:groups={len(groups)}")
        if kind == "sym":
            src = circuit_prop_src(
                f"n = {n}\nh = SymbolicHamiltonian({poly_src(ms, const)}, nqubits=n)\ncirc = lambda dt: h.circuit(dt)\n",
                f"sum(MONO(c_, ops, n) for c_, ops in {ms!r})", sum(abs(c) for c, _ in ms))
            ctx.case(("circ", poly_src(ms, const)))
            try:
                c1_ = h.circuit(dt)
                real = gate_list(c1_)
                other = h.circuit(dt * 2)  # noqa: F841  a call with another step in between
                real2 = gate_list(h.circuit(dt))
            except Exception as ex:  # noqa: BLE001
                bad["sym"] += 1
                fail(ctx, "circuit:raises", f"circuit({dt}) of {poly_src(ms, const)} raises {type(ex).__name__}: {ex}", src, broken=["C16_corr_circuit"])
                continue
            msg = compare_queue(real, queue, dt / 2)
            if msg is None:
                msg = compare_queue(real2, queue, dt / 2)
                if msg:
                    msg = "second call: " + msg
            # group structure as seen through the API
            if msg is None:
                try:
                    rg = Q["TermGroup"].from_terms(h.terms)
                    idx = {id(t): i for i, t in enumerate(h.terms)}
                    if [[idx[id(t)] for t in g] for g in rg] != [g[0] for g in groups]:
                        msg = f"from_terms groups {[[idx[id(t)] for t in g] for g in rg]} (model {[g[0] for g in groups]})"
                except Exception as ex:  # noqa: BLE001
                    msg = f"from_terms raises {type(ex).__name__}: {ex}"
            if msg:
                bad["sym"] += 1
                fail(ctx, "circuit:gates", f"h.circuit({dt}) of {poly_src(ms, const)} (n={n}): {msg}", src, broken=["C16_corr_circuit"])
        else:
            ms0, ms1 = ms
            h0, h1 = h
            _, mid_queue = parse_terms_answer(next(mid_iter))
            src = circuit_prop_src(
                f"n = {n}; s = {s}\nh0 = SymbolicHamiltonian({poly_src(ms0, const[0])}, nqubits=n)\nh1 = SymbolicHamiltonian({poly_src(ms1, const[1])}, nqubits=n)\n"
                "ah = AdiabaticHamiltonian(h0, h1); ah.schedule = lambda x: x; ah.total_time = 1.0\ncirc = lambda dt: ah.circuit(dt, t=float(s))\n",
                f"(1 - s) * sum(MONO(c_, ops, n) for c_, ops in {ms0!r}) + s * sum(MONO(c_, ops, n) for c_, ops in {ms1!r})",
                abs(1 - s) * sum(abs(c) for c, _ in ms0) + abs(s) * sum(abs(c) for c, _ in ms1))
            ctx.case(("adiab", poly_src(ms0, 0), poly_src(ms1, 0), s))
            try:
                ah = Q["AdiabaticHamiltonian"](h0, h1)
                ah.schedule = lambda x: x
                ah.total_time = 1.0
                real = gate_list(ah.circuit(dt, t=float(s)))
                real_mid = gate_list(ah.circuit(dt / 2, t=float(s) + 1.0))  # another time and step in between
                real2 = gate_list(ah.circuit(dt, t=float(s)))
            except Exception as ex:  # noqa: BLE001
                bad["adiab"] += 1
                fail(ctx, "adiabatic-circuit:raises", f"adiabatic circuit raises {type(ex).__name__}: {ex}", src, broken=["C16_corr_adiabatic"])
                continue
            msg = compare_queue(real, queue, dt / 2)
            if msg is None:
                msg = compare_queue(real_mid, mid_queue, dt / 4)
                if msg:
                    msg = f"call at another time (s={s + 1}, dt/2) after the first: " + msg
            if msg is None:
                msg = compare_queue(real2, queue, dt / 2)
                if msg:
                    msg = "second call: " + msg
            if msg:
                bad["adiab"] += 1
                fail(ctx, "adiabatic-circuit:gates",
                     f"AdiabaticHamiltonian({poly_src(ms0, const[0])}, {poly_src(ms1, const[1])}).circuit({dt}, t) at s={s}: {msg}", src, broken=["C16_corr_adiabatic"])
    for mt, ans in zip(meta, answers):
        gs, qu = parse_terms_answer(ans)
        if mt[0] == "sym" and len(gs) >= 3:
            ctx.sample({"suite": "circuit", "form": poly_src(mt[2], mt[3]), "groups (term ids)": [g[0] for g in gs], "queue targets": [q[0] for q in qu]}, limit=5)
            break
    ctx.ob("C16_corr_circuit", bad["sym"] == 0, "correspondence", f"{bad['sym']} disagreements" if bad["sym"] else "")
    ctx.ob("C16_corr_adiabatic", bad["adiab"] == 0, "correspondence", f"{bad['adiab']} disagreements" if bad["adiab"] else "")


# ---------------------------------------------------------------------------
# correspondence 3 + property: number of steps


H1Q = np.array([[0.3, 0.8 - 0.2j], [0.8 + 0.2j, -0.5]])

DTS = ["0.1", "0.2", "0.3", "0.05", "0.7", "0.01", "0.25", "0.15", "1.1", "0.003", "0.6", "0.35"]
T0S = ["0", "0", "0", "0.1", "0.3", "1", "2.5", "0.7"]


def count_steps(tf, t0, dt, solver="exp", ham=None, psi=None):
    st = Q["callbacks"].State()
    h = ham if ham is not None else Q["Hamiltonian"](1, H1Q.copy())
    ev = Q["models"].StateEvolution(h, dt, solver=solver, callbacks=[st])
    psi = np.array([0.6, 0.8j]) if psi is None else psi
    out = ev(final_time=tf, start_time=t0, initial_state=psi.copy())
    return len(st.results) - 1, out, st.results


STEP_SRC = (
    "H = np.array([[0.3, 0.8 - 0.2j], [0.8 + 0.2j, -0.5]])\n"
    "st = callbacks.State()\n"
    "ev = models.StateEvolution(Hamiltonian(1, H), dt, callbacks=[st])\n"
    "psi = np.array([0.6, 0.8j])\n"
    "out = ev(final_time=T, start_time=t0, initial_state=psi.copy())\n"
    "ref = sla.expm(-1j * H * (T - t0)) @ psi\n"
    "print('steps', len(st.results) - 1, 'expected', k, 'error', np.abs(out - ref).max())\n"
    "sys.exit(0 if len(st.results) - 1 == k and np.abs(out - ref).max() < 1e-9 else 1)\n"
)


def steps_suite(ctx):
    rng = ctx.rng
    triples = []  # (tf, t0, dt, exact k or None)
    for dts in DTS:
        for t0s in T0S:
            ks = [0, 1, 2, 3, 6, 7] + [rng.randint(4, 60) for _ in range(4 if ctx.thorough else 2)]
            for k in ks:
                tfq = Fraction(t0s) + k * Fraction(dts)
                triples.append((float(tfq), float(Fraction(t0s)), float(Fraction(dts)), k))
    # the §4 F22 inputs literally
    for tf, dt in [(0.3, 0.1), (0.7, 0.1), (0.6, 0.2), (0.35, 0.05), (1.0, 0.1), (2.4, 0.3), (0.9, 0.3), (1.2, 0.4), (4.35, 0.15)]:
        triples.append((tf, 0.0, dt, round(tf / dt)))
    # many steps, integer-typed arguments, a final time before the start
    for tf, t0, dt, k in [(1.0, 0.0, 0.001, 1000), (10.0, 0.0, 0.01, 1000), (4.096, 0.0, 0.002, 2048), (3, 0, 1, 3), (7, 2, 1, 5),
                          (0.0, 0.5, 0.1, None), (0.2, 0.5, 0.1, None)]:
        triples.append((tf, t0, dt, k))
    # non-multiples and the two sides of the 1e-9 window
    for _ in range(60 if ctx.thorough else 30):
        dt = float(Fraction(rng.choice(DTS)))
        t0 = float(Fraction(rng.choice(T0S)))
        k = rng.randint(0, 30)
        off = rng.choice([0.5, 0.25, 0.999, 1e-3, 1e-6, 3e-9, 1.5e-9, 1 - 1e-6, 1 - 3e-9])
        triples.append((t0 + (k + off) * dt, t0, dt, None))
    lines = [f"NSTEPS {fbits(tf)} {fbits(t0)} {fbits(dt)}" for tf, t0, dt, _ in triples]
    answers = run_driver(lines, driver=DRIVER)
    badc, badp = 0, 0
    legacy_differs = 0
    for (tf, t0, dt, k), ans in zip(triples, answers):
        f = [int(x) for x in ans.split(" ; ")]
        n_model, n_legacy, hist = f
        if n_model != n_legacy:
            legacy_differs += 1
        ctx.stat("steps:multiple" if k is not None else "steps:non-multiple")
        ctx.case(("steps", tf, t0, dt))
        src = PRE + f"T = {tf!r}; t0 = {t0!r}; dt = {dt!r}; k = {k if k is not None else n_model}\n" + STEP_SRC
        try:
            n_real, out, states = count_steps(tf, t0, dt)
        except Exception as ex:  # noqa: BLE001
            badc += 1
            fail(ctx, "steps:raises", f"StateEvolution(dt={dt})(final_time={tf}, start_time={t0}) raises {type(ex).__name__}: {ex}", src, broken=["C16_corr_nsteps"])
            continue
        ref = sla.expm(-1j * H1Q * (tf - t0)) @ np.array([0.6, 0.8j])
        if k is not None and (n_real != k or np.abs(out - ref).max() > 1e-9):
            badp += 1
            fail(ctx, "steps:multiple-of-dt" + ("" if t0 == 0 else ":start-time"),
                 f"StateEvolution(H, dt={dt}, 'exp')(final_time={tf}, start_time={t0}) takes {n_real} steps; (T - t0) / dt = {k} exactly in decimal arithmetic",
                 src, expected=k, observed=n_real, broken=["C16_search_steps"] + (["C16_corr_nsteps"] if n_real != n_model else []))
        if n_real != n_model or hist != n_model + 1:
            badc += 1
            if k is None:
                fail(ctx, "steps:non-multiple", f"StateEvolution(dt={dt})(final_time={tf}, start_time={t0}) takes {n_real} steps, the documented rule "
                     f"(round within 1e-9, else truncate) gives {n_model}", src, expected=n_model, observed=n_real, broken=["C16_corr_nsteps"])
            elif n_real == k:
                # the model disagrees although the code meets the property: the model is stale
                ctx.ob("C16_corr_nsteps_model", False, "correspondence", f"model {n_model} vs real {n_real} for {(tf, t0, dt)}")
    ctx.stats["steps:legacy-int-differs"] = legacy_differs
    ctx.ob("C16_corr_nsteps", badc == 0, "correspondence", f"{badc} disagreements" if badc else "")
    ctx.ob("C16_search_steps", badp == 0, "search", f"{badp} failing (T, t0, dt)" if badp else "")


# ---------------------------------------------------------------------------
# direct search 1: Trotter circuits against expm


def trotter_search(ctx):
    rng = ctx.rng
    ok = True
    N = 60 if ctx.thorough else 28
    # (a) commuting term sets: exact up to a global phase, any dt
    for k in range(N):
        n = rng.randint(2, 4)
        ms, const = rand_poly(rng, n, rng.randint(2, 7), commuting=True, integer=False, zonly=(k % 4 == 0))
        dt = rng.choice([0.1, 0.7, -0.3, 1.9, 0.013])
        ctx.case(("trot-comm", poly_src(ms, const), dt))
        ctx.stat("trotter:commuting")
        src = PRE + (
            f"n = {n}; dt = {dt!r}\nh = SymbolicHamiltonian({poly_src(ms, const)}, nqubits=n)\n"
            f"H = sum(MONO(c_, ops, n) for c_, ops in {ms!r}) + {const!r} * np.eye(2 ** n)\n"
            "U = h.circuit(dt).unitary()\nd = pdist(U, sla.expm(-1j * dt * H))\n"
            "print('distance up to a global phase', d)\nsys.exit(0 if d < 1e-10 else 1)\n")
        try:
            h = sym_ham(ms, const, n)
            U = h.circuit(dt).unitary()
            d = pdist(U, sla.expm(-1j * dt * poly_matrix(ms, const, n)))
            dm = np.abs(np.asarray(h.matrix) - poly_matrix(ms, const, n)).max()
        except Exception as ex:  # noqa: BLE001
            ok = False
            fail(ctx, "trotter:raises", f"circuit({dt}) of {poly_src(ms, const)} raises {type(ex).__name__}: {ex}", src, broken=["C16_search_trotter"])
            continue
        if d > 1e-10 or dm > 1e-10:
            ok = False
            fail(ctx, "trotter:commuting", f"commuting terms {poly_src(ms, const)} (n={n}): circuit({dt}).unitary() is {d:.3e} away from exp(-i dt H) up to phase",
                 src, expected="< 1e-10", observed=d, broken=["C16_search_trotter"])
    for expr in ("hamiltonians.X(NQ, dense=False)", "hamiltonians.Y(NQ, dense=False)", "hamiltonians.Z(NQ, dense=False)",
                 "hamiltonians.MaxCut(NQ, dense=False)", "hamiltonians.TFIM(NQ, h=0.0, dense=False)"):
        n = rng.randint(2, 4)
        expr = expr.replace("NQ", str(n))
        dt = rng.choice([0.1, 0.7, -0.3, 1.9])
        ctx.case(("trot-comm", expr, dt))
        ctx.stat("trotter:commuting-models")
        src = PRE + f"h = {expr}\ndt = {dt!r}\nd = pdist(h.circuit(dt).unitary(), sla.expm(-1j * dt * np.asarray(h.matrix)))\nprint(d)\nsys.exit(0 if d < 1e-10 else 1)\n"
        try:
            h = eval(expr, Q)  # noqa: S307
            d = pdist(h.circuit(dt).unitary(), sla.expm(-1j * dt * np.asarray(h.matrix)))
        except Exception as ex:  # noqa: BLE001
            ok = False
            fail(ctx, "trotter:raises", f"{expr}: {type(ex).__name__}: {ex}", src, broken=["C16_search_trotter"])
            continue
        if d > 1e-10:
            ok = False
            fail(ctx, "trotter:commuting", f"{expr} (commuting terms): circuit({dt}).unitary() is {d:.3e} away from exp(-i dt H) up to phase", src, expected="< 1e-10", observed=d, broken=["C16_search_trotter"])
    for expr in ("SymbolicHamiltonian(sympy.Float(2.5) + 0 * Z(0), nqubits=2)", "SymbolicHamiltonian(0.7 * Z(1), nqubits=3)",
                 "SymbolicHamiltonian(0.7 * X(0) * Y(2) - 1.5, nqubits=3)"):
        dt = rng.choice([0.1, 0.9])
        ctx.case(("trot-comm", expr, dt))
        ctx.stat("trotter:degenerate-forms")
        src = PRE + f"import sympy\nh = {expr}\ndt = {dt!r}\nd = pdist(h.circuit(dt).unitary(), sla.expm(-1j * dt * np.asarray(h.matrix)))\nprint(d)\nsys.exit(0 if d < 1e-10 else 1)\n"
        try:
            import sympy

            h = eval(expr, dict(Q, sympy=sympy))  # noqa: S307
            d = pdist(h.circuit(dt).unitary(), sla.expm(-1j * dt * np.asarray(h.matrix)))
        except Exception as ex:  # noqa: BLE001
            ok = False
            fail(ctx, "trotter:raises", f"{expr}: {type(ex).__name__}: {ex}", src, broken=["C16_search_trotter"])
            continue
        if d > 1e-10:
            ok = False
            fail(ctx, "trotter:commuting", f"{expr}: circuit({dt}).unitary() is {d:.3e} away from exp(-i dt H) up to phase", src, expected="< 1e-10", observed=d, broken=["C16_search_trotter"])
    # (b) non-commuting: error ratio err(dt) / err(dt/2) ~ 8 and |err| <= K dt^3
    fams = []
    for k in range(N):
        n = rng.randint(2, 4)
        ms, const = rand_poly(rng, n, rng.randint(2, 7), commuting=False, integer=False)
        fams.append(("random", n, f"SymbolicHamiltonian({poly_src(ms, const)}, nqubits={n})", poly_matrix(ms, const, n), sum(abs(c) for c, _ in ms)))
    for n in (2, 3, 4):
        hval = round(rng.uniform(0.3, 1.5), 2)
        Hm = -sum(mono_matrix(1, ((i, "Z"), ((i + 1) % n, "Z")), n) for i in range(n)) - hval * sum(mono_matrix(1, ((i, "X"),), n) for i in range(n))
        if n == 2:
            Hm = -2 * mono_matrix(1, ((0, "Z"), (1, "Z")), n) - hval * sum(mono_matrix(1, ((i, "X"),), n) for i in range(n))
        fams.append(("TFIM", n, f"hamiltonians.TFIM({n}, h={hval}, dense=False)", Hm, n * (1 + hval)))
        dl = round(rng.uniform(0.2, 1.2), 2)
        fams.append(("XXZ", n, f"hamiltonians.XXZ({n}, delta={dl}, dense=False)", None, n * (2 + dl)))
    for name, n, expr, Href, wsum in fams:
        ctx.stat(f"trotter:{name}")
        ctx.case(("trot-nc", expr))
        dt = 0.1 / max(1.0, wsum / 3)
        src = PRE + (
            f"h = {expr}\nH = np.asarray(h.matrix)\ndt = {dt!r}\n"
            "e1 = pdist(h.circuit(dt).unitary(), sla.expm(-1j * dt * H))\n"
            "e2 = pdist(h.circuit(dt / 2).unitary(), sla.expm(-1j * dt / 2 * H))\n"
            "print('err(dt)', e1, 'err(dt/2)', e2, 'ratio', e1 / e2 if e2 else None)\n"
            f"sys.exit(0 if e1 <= {(2 * wsum) ** 3!r} * dt ** 3 and (e1 < 1e-10 or e2 <= e1 / 6.5) else 1)\n")
        try:
            h = eval(expr, Q)  # noqa: S307
            H = np.asarray(h.matrix)
            if Href is not None and np.abs(H - Href).max() > 1e-10:
                raise AssertionError("h.matrix differs from the documented formula")
            e1 = pdist(h.circuit(dt).unitary(), sla.expm(-1j * dt * H))
            e2 = pdist(h.circuit(dt / 2).unitary(), sla.expm(-1j * dt / 2 * H))
        except Exception as ex:  # noqa: BLE001
            ok = False
            fail(ctx, "trotter:raises", f"{expr}: {type(ex).__name__}: {ex}", src, broken=["C16_search_trotter"])
            continue
        if e1 > (2 * wsum) ** 3 * dt**3 or (e1 >= 1e-10 and e2 > e1 / 6.5):
            ok = False
            fail(ctx, f"trotter:order:{name}", f"{expr}: Trotter error {e1:.3e} at dt={dt:.4f}, {e2:.3e} at dt/2 (ratio {e1 / e2 if e2 else float('inf'):.2f}; third order needs about 8)",
                 src, expected="ratio >= 6.5", observed=[e1, e2], broken=["C16_search_trotter"])
    ctx.ob("C16_search_trotter", ok, "search", "" if ok else "see failing inputs")


# ---------------------------------------------------------------------------
# direct search 1b: the PROVED error bound of the Trotter step, evaluated on the real code


def rem3(x):
    """e^x - 1 - x - x^2/2 (QV.Evo.rem3), series for small x to avoid cancellation."""
    if x < 0.5:
        return sum(x**k / math.factorial(k) for k in range(3, 25))
    return math.exp(x) - 1 - x - x * x / 2


def opnorm_inf(M):
    return float(np.abs(np.asarray(M)).sum(axis=1).max())


def trotter_bound_search(ctx):
    """`T16_trotter_error_bound_of_le`: for EVERY dt, ‖S(dt) − exp(−i dt H0)‖_∞ ≤ 2 r3(|dt| L) with
    L = Σ|c_m| over the non-constant Pauli monomials (H0 = H without its constant, which the
    circuit drops; a circuit keeping it as a global phase is accepted as well)."""
    rng = ctx.rng
    ok = True
    N = 40 if ctx.thorough else 16
    fams = []
    for k in range(N):
        n = rng.randint(2, 4)
        ms, const = rand_poly(rng, n, rng.randint(2, 7), commuting=(True if k % 5 == 4 else False), integer=False)
        fams.append((n, ms, const))
    # nested / trailing-child shapes (the merge path) with non-commuting partners
    for n, ms, const in (
        (3, [(0.7, ((0, "Z"), (1, "Z"), (2, "Z"))), (-0.4, ((2, "X"),)), (0.3, ((1, "Y"), (2, "Z")))], 0.25),
        (3, [(0.5, ((0, "X"), (1, "Y"), (2, "Z"))), (0.6, ((1, "Y"), (2, "X"))), (-0.2, ((1, "Z"),))], 0.0),
        (4, [(0.4, ((0, "X"), (2, "Y"), (3, "Z"))), (0.8, ((3, "X"),)), (-0.5, ((2, "Z"), (3, "Z"))), (0.3, ((1, "Y"),))], -1.0),
    ):
        fams.append((n, ms, const))
    for n, ms, const in fams:
        L = sum(abs(c) for c, _ in ms)
        if L == 0:
            continue
        H0 = poly_matrix(ms, 0.0, n)
        for x in (0.05, 0.3, 1.0, -0.6):
            dt = x / L
            ctx.case(("trot-bound", poly_src(ms, const), dt))
            ctx.stat("trotter:proved-bound")
            bound = 2 * rem3(abs(dt) * L) + 1e-9
            src = PRE + (
                "import math\n"
                f"n = {n}; dt = {dt!r}; const = {const!r}\nh = SymbolicHamiltonian({poly_src(ms, const)}, nqubits=n)\n"
                f"H0 = sum(MONO(c_, ops, n) for c_, ops in {ms!r})\nL = {L!r}\n"
                "x = abs(dt) * L\nr3 = sum(x ** k / math.factorial(k) for k in range(3, 40))\n"
                "U = np.asarray(h.circuit(dt).unitary()); E0 = sla.expm(-1j * dt * H0)\n"
                "nrm = lambda M: float(np.abs(M).sum(axis=1).max())\n"
                "d = min(nrm(U - E0), nrm(U - np.exp(-1j * dt * const) * E0))\n"
                "print('inf-operator-norm distance', d, 'proved bound 2 r3(|dt| L) =', 2 * r3)\n"
                "sys.exit(0 if d <= 2 * r3 + 1e-9 else 1)\n")
            try:
                h = sym_ham(ms, const, n)
                U = np.asarray(h.circuit(dt).unitary())
                E0 = sla.expm(-1j * dt * H0)
                d = min(opnorm_inf(U - E0), opnorm_inf(U - np.exp(-1j * dt * const) * E0))
            except Exception as ex:  # noqa: BLE001
                ok = False
                fail(ctx, "trotter:raises", f"circuit({dt}) of {poly_src(ms, const)} raises {type(ex).__name__}: {ex}", src, broken=["C16_search_trotter_bound"])
                continue
            if not d <= bound:
                ok = False
                fail(ctx, "trotter:proved-bound",
                     f"{poly_src(ms, const)} (n={n}): ‖circuit({dt}).unitary() − exp(−i dt H)‖_∞ = {d:.3e} exceeds the proved bound 2·r3(|dt|·Σ|c|) = {bound:.3e} "
                     "(T16_trotter_error_bound_of_le holds for every symmetric product of exponentials of terms summing to H)",
                     src, expected=f"<= {bound:.3e}", observed=d, broken=["C16_search_trotter_bound"])
    ctx.ob("C16_search_trotter_bound", ok, "search", "" if ok else "see failing inputs")


# ---------------------------------------------------------------------------
# direct search 2: StateEvolution with every solver


def rstate(rng, n):
    v = np.array([complex(rng.gauss(0, 1), rng.gauss(0, 1)) for _ in range(2**n)])
    return v / np.linalg.norm(v)


def slope(e1, e2):
    if e2 <= 0 or e1 <= 0:
        return float("inf")
    return math.log2(e1 / e2)


ORDER_SRC = (
    "def observed_order(errs):\n"
    "    # best estimate over successive halvings of dt (error terms of neighbouring orders can cancel\n"
    "    # at one scale); halvings whose finer error is at the rounding floor do not count\n"
    "    sl = [np.log2(a / b) for a, b in zip(errs, errs[1:]) if b >= 5e-13 and a > 0]\n"
    "    return max(sl) if sl else float('inf')\n"
)
DTS_ORDER = (0.1, 0.05, 0.025, 0.0125)


def observed_order(errs):
    sl = [slope(a, b) for a, b in zip(errs, errs[1:]) if b >= 5e-13 and a > 0]
    return max(sl) if sl else float("inf")


EVOL_SRC = (
    "def run(dt, cb=False):\n"
    "    cbs = [callbacks.Norm()] if cb else []\n"
    "    ev = models.StateEvolution(ham, dt, solver=solver, callbacks=cbs)\n"
    "    out = ev(final_time=T, start_time=t0, initial_state=psi.copy())\n"
    "    return out, (cbs[0].results if cb else None)\n"
)


def evolution_search(ctx):
    rng = ctx.rng
    ok = {"exp": True, "order": True, "norm": True, "callbacks": True, "rkstep": True}
    M = Q["models"]
    # (a) exponential solver on dense Hamiltonians: exact for every listed (T, t0, dt), all
    # intermediate states seen by the callbacks, second call of the same object
    combos = [(2, 0, 1), (0.3, 0.0, 0.1), (0.7, 0.0, 0.1), (0.6, 0.0, 0.2), (0.35, 0.0, 0.05), (1.0, 0.0, 0.1), (2.4, 0.0, 0.3),
              (1.3, 1.0, 0.1), (0.9, 0.3, 0.3), (2.2, 0.7, 0.15), (0.1, 0.1, 0.1), (0.05, 0.0, 0.05)]
    for j, (T, t0, dt) in enumerate(combos):
        n = rng.randint(1, 3)
        ms, const = rand_poly(rng, n, rng.randint(1, 5), commuting=None, integer=False)
        Hm = poly_matrix(ms, const, n)
        psi = rstate(rng, n)
        k = round((T - t0) / dt)
        ctx.case(("exp", T, t0, dt, n))
        ctx.stat("evolution:exp-dense")
        src = PRE + (
            f"H = {arr_src(Hm)}\npsi = {arr_src(psi)}\nT = {T!r}; t0 = {t0!r}; dt = {dt!r}; k = {k}\n"
            f"st = callbacks.State()\nev = models.StateEvolution(Hamiltonian({n}, H), dt, callbacks=[st])\n"
            "out = ev(final_time=T, start_time=t0, initial_state=psi.copy())\n"
            "out2 = ev(final_time=T, start_time=t0, initial_state=psi.copy())\n"
            "ref = sla.expm(-1j * H * (T - t0)) @ psi\n"
            "mid = max(np.abs(s - sla.expm(-1j * H * j * dt) @ psi).max() for j, s in enumerate(st.results[:k + 1]))\n"
            "print(np.abs(out - ref).max(), np.abs(out2 - ref).max(), len(st.results), mid)\n"
            "sys.exit(0 if np.abs(out - ref).max() < 1e-9 and np.abs(out2 - ref).max() < 1e-9 and len(st.results) == 2 * (k + 1) and mid < 1e-9 else 1)\n")
        try:
            st = Q["callbacks"].State()
            ev = M.StateEvolution(Q["Hamiltonian"](n, Hm.copy()), dt, callbacks=[st])
            psi_in = psi.copy()
            out = ev(final_time=T, start_time=t0, initial_state=psi_in)
            first = [np.array(s) for s in st.results]
            out2 = ev(final_time=T, start_time=t0, initial_state=psi.copy())
            ref = sla.expm(-1j * Hm * (T - t0)) @ psi
            e = max(np.abs(out - ref).max(), np.abs(out2 - ref).max())
            mid = max(np.abs(s - sla.expm(-1j * Hm * jj * dt) @ psi).max() for jj, s in enumerate(first))
            if e > 1e-9 or len(first) != k + 1 or mid > 1e-9 or len(st.results) != 2 * (k + 1):
                ok["exp"] = False
                fail(ctx, "evolve:exp" + ("" if t0 == 0 else ":start-time"),
                     f"StateEvolution(dense H on {n} qubits, dt={dt}, 'exp')(final_time={T}, start_time={t0}): error {e:.3e} vs expm, {len(first)} callback records (expected {k + 1}), intermediate error {mid:.3e}",
                     src, expected="< 1e-9", observed=e, broken=["C16_search_exp"])
            if np.abs(psi_in - psi).max() > 0:
                ok["exp"] = False
                fail(ctx, "evolve:mutates-initial-state", "StateEvolution changed the caller's initial_state array", src, broken=["C16_search_exp"])
        except Exception as ex:  # noqa: BLE001
            ok["exp"] = False
            fail(ctx, "evolve:raises:exp", f"StateEvolution 'exp' raises {type(ex).__name__}: {ex}", src, broken=["C16_search_exp"])

    for solver, dense in (("exp", True), ("exp", False), ("rk4", True), ("rk45", False)):
        n = 2
        ms, const = rand_poly(rng, n, 3, commuting=(not dense and solver == "exp"), integer=False)
        Hm = poly_matrix(ms, const, n)
        hexpr = f"Hamiltonian({n}, {arr_src(Hm)})" if dense else f"SymbolicHamiltonian({poly_src(ms, const)}, nqubits={n})"
        basis = rng.randrange(4)
        src = PRE + (f"ham = {hexpr}\npsi = np.zeros(4, dtype=int); psi[{basis}] = 1\n"
                     f"out = models.StateEvolution(ham, 0.01, solver={solver!r})(final_time=0.2, initial_state=psi)\n"
                     f"ref = sla.expm(-0.2j * {arr_src(Hm)})[:, {basis}]\nd = pdist(out, ref)\nprint(d)\nsys.exit(0 if d < 1e-6 and psi.dtype.kind == 'i' and psi.sum() == 1 else 1)\n")
        ctx.case(("int-state", solver, dense))
        ctx.stat("evolution:integer-initial-state")
        try:
            env = dict(Q)
            exec(f"ham = {hexpr}\n", env)  # noqa: S102
            psi_i = np.zeros(4, dtype=int)
            psi_i[basis] = 1
            out = M.StateEvolution(env["ham"], 0.01, solver=solver)(final_time=0.2, initial_state=psi_i)
            d = pdist(out, sla.expm(-0.2j * Hm)[:, basis])
            if d > 1e-6 or psi_i.sum() != 1 or psi_i[basis] != 1:
                ok["exp"] = False
                fail(ctx, f"evolve:integer-state:{solver}", f"StateEvolution(solver={solver!r}) from the integer basis vector e_{basis}: {d:.3e} away from the column of expm(-i T H)", src, broken=["C16_search_exp"])
        except Exception as ex:  # noqa: BLE001
            ok["exp"] = False
            fail(ctx, f"evolve:raises:{solver}", f"integer initial state: {type(ex).__name__}: {ex}", src, broken=["C16_search_exp"])
    ctx.ob("C16_search_exp", ok["exp"], "search", "" if ok["exp"] else "see failing inputs")

    # (b) convergence order and norm of rk4 / rk45 / trotter, dense and symbolic, t0 != 0,
    # time-independent and H(t) = f(t) H0 (exact solution exp(-i F H0))
    orders = {"rk4": 4, "rk45": 5, "trotter": 2}
    settings = []
    for solver in ("rk4", "rk45", "trotter"):
        for dense in ((True, False) if solver != "trotter" else (False,)):
            for td in (False, True):
                settings.append((solver, dense, td))
    settings = settings * (3 if ctx.thorough else 2)
    for solver, dense, td in settings:
        n = rng.randint(2, 3)
        ms, const = rand_poly(rng, n, rng.randint(3, 6), commuting=False, integer=False)
        w = sum(abs(c) for c, _ in ms) + abs(const)
        scale = 2.0 / w  # keep ‖H‖ moderate so that the asymptotic regime is reached at dt = 0.1
        ms = [(round(c * scale, 4), ops) for c, ops in ms]
        const = round(const * scale, 4)
        Hm = poly_matrix(ms, const, n)
        psi = rstate(rng, n)
        t0 = rng.choice([0.0, 0.5])
        T = t0 + 1.0
        qsolver = "exp" if solver == "trotter" else solver
        hexpr = f"SymbolicHamiltonian({poly_src(ms, const)}, nqubits={n})" if not dense else f"Hamiltonian({n}, {arr_src(Hm)})"
        if td:
            # H(t) = (1 + t) H0: F = (T - t0) + (T^2 - t0^2) / 2
            F = (T - t0) + (T * T - t0 * t0) / 2
            if dense:
                hsrc = f"H0 = {arr_src(Hm)}\nham = lambda t: Hamiltonian({n}, (1 + t) * H0)\n"
            else:
                hsrc = f"ham = lambda t: SymbolicHamiltonian((1 + t) * ({poly_src(ms, const)}), nqubits={n})\n"
        else:
            F = T - t0
            hsrc = f"ham = {hexpr}\n"
        expected = orders[solver] if not (td and solver == "trotter") else 1
        ref = sla.expm(-1j * Hm * F) @ psi
        key_kind = ("td" if td else "const") + (":dense" if dense else ":symbolic")
        ctx.case(("order", solver, dense, td, n))
        ctx.stat(f"evolution:{solver}:{key_kind}")
        src = PRE + hsrc + f"solver = {qsolver!r}; T = {T!r}; t0 = {t0!r}\npsi = {arr_src(psi)}\nref = {arr_src(ref)}\n" + EVOL_SRC + ORDER_SRC + (
            f"outs = [run(dt)[0] for dt in {DTS_ORDER!r}]\n"
            + ("errs = [pdist(o, ref) for o in outs]\n" if solver == "trotter" else "errs = [float(np.abs(o - ref).max()) for o in outs]\n")
            + "print('errors', errs, 'order', observed_order(errs), 'norm', np.linalg.norm(outs[1]))\n"
            f"sys.exit(0 if observed_order(errs) >= {expected - 0.5} and errs[1] < {0.05 ** expected * 400!r} and abs(np.linalg.norm(outs[1]) - 1) < 1e-9 else 1)\n")
        try:
            env = dict(Q)
            exec(hsrc + f"solver = {qsolver!r}; T = {T!r}; t0 = {t0!r}\n", env)  # noqa: S102
            env["psi"] = psi
            exec(EVOL_SRC, env)  # noqa: S102
            o1, _ = env["run"](0.1)
            o2, _ = env["run"](0.05)
            o3, norms = env["run"](0.05, cb=True)
            o4, _ = env["run"](0.025)
            o5, _ = env["run"](0.0125)
        except Exception as ex:  # noqa: BLE001
            ok["order"] = False
            fail(ctx, f"evolve:raises:{solver}", f"StateEvolution {solver} ({key_kind}) raises {type(ex).__name__}: {ex}", src, broken=["C16_search_order"])
            continue
        # the Trotter circuit drops the constant of the Hamiltonian: compare up to a global phase
        dist = (lambda a, b: pdist(a, b)) if solver == "trotter" else (lambda a, b: float(np.abs(a - b).max()))
        e1, e2, e3, e4, e5 = dist(o1, ref), dist(o2, ref), dist(o3, ref), dist(o4, ref), dist(o5, ref)
        sl = observed_order([e1, e2, e4, e5])
        # absolute level: a method of order p has error ~ C dt^p with C = O(1) here
        level = 0.05**expected * 400
        if sl < expected - 0.5 or e2 > level:
            ok["order"] = False
            fail(ctx, f"order:{solver}" + (":time-dependent" if td else ""),
                 f"StateEvolution(solver={qsolver!r}, {'H(t)=(1+t)H0' if td else 'constant H'}, {'dense' if dense else 'symbolic'}, n={n}, t0={t0}, T={T}): "
                 f"errors {e1:.3e}, {e2:.3e}, {e4:.3e}, {e5:.3e} at dt = 0.1, 0.05, 0.025, 0.0125 — observed order {sl:.2f}, stated order {expected}",
                 src, expected=f"order >= {expected - 0.5}", observed=[e1, e2, e4, e5], broken=["C16_search_order"])
        if abs(np.linalg.norm(o2) - 1) > 1e-9 or abs(np.linalg.norm(o3) - 1) > 1e-9:
            ok["norm"] = False
            fail(ctx, f"norm:{solver}", f"final state of solver {qsolver!r} has norm {np.linalg.norm(o2)!r} / {np.linalg.norm(o3)!r} (with callbacks)", src, broken=["C16_search_norm"])
        nexp = 21
        if len(norms) != nexp or max(abs(x - 1) for x in norms) > 1e-9 or (e3 > 4 * e2 + 1e-9 and e3 > level):
            ok["callbacks"] = False
            fail(ctx, f"callbacks:{solver}", f"solver {qsolver!r} with a Norm callback over 20 steps: {len(norms)} records, max |norm - 1| = {max(abs(x - 1) for x in norms):.2e}, final error {e3:.3e} (without callbacks {e2:.3e})",
                 src, expected=f"{nexp} records of norm 1", observed=[len(norms)], broken=["C16_search_callbacks"])
    # (c) one Runge–Kutta step = Taylor polynomial of exp(-i dt H) (ties T16_rk4_taylor / T16_rk45_taylor)
    for solver, deg, c6 in (("rk4", 4, 0.0), ("rk45", 5, 1 / 2080)):
        for dense in (True, False):
            n = rng.randint(1, 3)
            ms, const = rand_poly(rng, n, rng.randint(1, 4), commuting=None, integer=False)
            Hm = poly_matrix(ms, const, n)
            psi = rstate(rng, n)
            dt = rng.choice([0.3, 0.11, 1.0])
            A = -1j * dt * Hm
            ref = np.zeros_like(psi)
            term = psi.copy()
            for j in range(deg + 1):
                ref = ref + term
                term = A @ term / (j + 1)
            if c6:
                ref = ref + c6 * np.linalg.matrix_power(A, 6) @ psi
            hexpr = f"Hamiltonian({n}, {arr_src(Hm)})" if dense else f"SymbolicHamiltonian({poly_src(ms, const)}, nqubits={n})"
            cls = "RungeKutta4" if solver == "rk4" else "RungeKutta45"
            src = PRE + (f"ham = {hexpr}\npsi = {arr_src(psi)}\nref = {arr_src(ref)}\n"
                         f"s = solvers.get_solver({solver!r}, {dt!r}, ham)\nassert type(s).__name__ == {cls!r}\ns.t = 0.4\nout = s(psi.copy())\n"
                         "print('one step vs Taylor polynomial', np.abs(out - ref).max(), 't', s.t)\n"
                         f"sys.exit(0 if np.abs(out - ref).max() < 1e-10 and abs(s.t - 0.4 - {dt!r}) < 1e-12 else 1)\n")
            ctx.case(("rkstep", solver, dense, n, dt))
            ctx.stat(f"evolution:{solver}:one-step")
            try:
                env = dict(Q)
                exec(f"ham = {hexpr}\n", env)  # noqa: S102
                s = Q["solvers"].get_solver(solver, dt, env["ham"])
                s.t = 0.4
                out = s(psi.copy())
                d = np.abs(out - ref).max()
                tt = s.t
            except Exception as ex:  # noqa: BLE001
                ok["rkstep"] = False
                fail(ctx, f"rk-step:raises:{solver}", f"{cls} step raises {type(ex).__name__}: {ex}", src, broken=["C16_search_rkstep"])
                continue
            if d > 1e-10 or abs(tt - 0.4 - dt) > 1e-12:
                ok["rkstep"] = False
                fail(ctx, f"rk-step:{solver}", f"one {cls} step (dt={dt}, constant {'dense' if dense else 'symbolic'} H on {n} qubits) differs from the degree-{deg} Taylor polynomial of exp(-i dt H) by {d:.3e}",
                     src, expected="< 1e-10", observed=d, broken=["C16_search_rkstep"])
    ctx.ob("C16_search_order", ok["order"], "search", "" if ok["order"] else "see failing inputs")
    ctx.ob("C16_search_norm", ok["norm"], "search", "" if ok["norm"] else "see failing inputs")
    ctx.ob("C16_search_callbacks", ok["callbacks"], "search", "" if ok["callbacks"] else "see failing inputs")
    ctx.ob("C16_search_rkstep", ok["rkstep"], "search", "" if ok["rkstep"] else "see failing inputs")


# ---------------------------------------------------------------------------
# direct search 3: Trotter solver on commuting terms, time tracking, exp cache, histories


def history_search(ctx):
    rng = ctx.rng
    ok = True
    M = Q["models"]
    # (a) Trotter solver on commuting Hamiltonians is exact for every (T, t0, dt)
    for T, t0, dt in [(0.3, 0.0, 0.1), (0.7, 0.0, 0.1), (0.6, 0.0, 0.2), (1.3, 1.0, 0.1), (2.4, 0.0, 0.3), (0.35, 0.0, 0.05)]:
        n = rng.randint(2, 4)
        ms, const = rand_poly(rng, n, rng.randint(2, 6), commuting=True, integer=False)
        Hm = poly_matrix(ms, const, n)
        psi = rstate(rng, n)
        k = round((T - t0) / dt)
        ctx.case(("trotter-evol", T, t0, dt))
        ctx.stat("evolution:trotter-commuting")
        src = PRE + (f"n = {n}\nh = SymbolicHamiltonian({poly_src(ms, const)}, nqubits=n)\npsi = {arr_src(psi)}\nT = {T!r}; t0 = {t0!r}; dt = {dt!r}\n"
                     f"H = {arr_src(Hm)}\nnr = callbacks.Norm()\nev = models.StateEvolution(h, dt, callbacks=[nr])\n"
                     "out = ev(final_time=T, start_time=t0, initial_state=psi.copy())\nref = sla.expm(-1j * H * (T - t0)) @ psi\n"
                     "d = 1 - abs(np.vdot(ref, out))\nprint('infidelity', d, 'records', len(nr.results))\n"
                     f"sys.exit(0 if d < 1e-10 and len(nr.results) == {k + 1} else 1)\n")
        try:
            nr = Q["callbacks"].Norm()
            ev = M.StateEvolution(sym_ham(ms, const, n), dt, callbacks=[nr])
            out = ev(final_time=T, start_time=t0, initial_state=psi.copy())
            ref = sla.expm(-1j * Hm * (T - t0)) @ psi
            d = 1 - abs(np.vdot(ref, out))
            if d > 1e-10 or len(nr.results) != k + 1:
                ok = False
                fail(ctx, "evolve:trotter-commuting", f"Trotter evolution of commuting {poly_src(ms, const)} to T={T} (t0={t0}, dt={dt}): infidelity {d:.3e}, {len(nr.results)} records (expected {k + 1})",
                     src, expected="< 1e-10", observed=d, broken=["C16_search_history"])
        except Exception as ex:  # noqa: BLE001
            ok = False
            fail(ctx, "evolve:raises:trotter", f"{type(ex).__name__}: {ex}", src, broken=["C16_search_history"])
    # (b) Hamiltonian.exp(a): call histories (different a, spectrum computed in between, repeated a)
    for rep in range(4):
        n = rng.randint(1, 3)
        ms, const = rand_poly(rng, n, rng.randint(1, 5), commuting=None, integer=False)
        Hm = poly_matrix(ms, const, n)
        seq = [rng.choice([0.1, 0.2, 0.3, -0.4, 1.0]) for _ in range(5)]
        eig_at = rng.randint(0, 4)
        dense = rep % 2 == 0
        hexpr = f"Hamiltonian({n}, {arr_src(Hm)})" if dense else f"SymbolicHamiltonian({poly_src(ms, const)}, nqubits={n})"
        src = PRE + (f"h = {hexpr}\nH = {arr_src(Hm)}\nbad = 0\n"
                     f"for j, a in enumerate({seq!r}):\n    if j == {eig_at}: h.eigenvectors()\n"
                     "    bad = max(bad, np.abs(np.asarray(h.exp(a)) - sla.expm(-1j * a * H)).max())\n"
                     "print('max deviation of h.exp(a) from expm(-i a H)', bad)\nsys.exit(0 if bad < 1e-9 else 1)\n")
        ctx.case(("exp-history", rep))
        ctx.stat("history:exp")
        try:
            env = dict(Q)
            exec(f"h = {hexpr}\n", env)  # noqa: S102
            h = env["h"]
            worst = 0.0
            for j, a in enumerate(seq):
                if j == eig_at:
                    h.eigenvectors()
                worst = max(worst, np.abs(np.asarray(h.exp(a)) - sla.expm(-1j * a * Hm)).max())
            if worst > 1e-9:
                ok = False
                fail(ctx, "exp:history", f"h.exp(a) over the calls {seq} (eigenvectors() before call {eig_at}) deviates from expm(-i a H) by {worst:.3e}", src, broken=["C16_search_history"])
        except Exception as ex:  # noqa: BLE001
            ok = False
            fail(ctx, "exp:raises", f"{type(ex).__name__}: {ex}", src, broken=["C16_search_history"])
    # (c) circuit(dt1) then circuit(dt2) against a fresh Hamiltonian; one evolution object used twice with
    #     different (T, t0); group.term after a later append
    for rep in range(3):
        n = rng.randint(2, 4)
        ms, const = rand_poly(rng, n, rng.randint(2, 6), commuting=False, integer=False)
        dt1, dt2 = rng.choice([(0.1, 0.2), (0.3, -0.3), (0.05, 0.5)])
        src = PRE + (f"f = lambda: SymbolicHamiltonian({poly_src(ms, const)}, nqubits={n})\nh = f()\nU1 = h.circuit({dt1}).unitary(); U2 = h.circuit({dt2}).unitary(); U1b = h.circuit({dt1}).unitary()\n"
                     f"d = max(np.abs(U2 - f().circuit({dt2}).unitary()).max(), np.abs(U1b - U1).max())\nprint(d)\nsys.exit(0 if d < 1e-12 else 1)\n")
        ctx.case(("circ-history", rep))
        ctx.stat("history:circuit")
        try:
            h = sym_ham(ms, const, n)
            U1 = h.circuit(dt1).unitary()
            U2 = h.circuit(dt2).unitary()
            U1b = h.circuit(dt1).unitary()
            d = max(np.abs(U2 - sym_ham(ms, const, n).circuit(dt2).unitary()).max(), np.abs(U1b - U1).max())
            if d > 1e-12:
                ok = False
                fail(ctx, "circuit:second-call", f"circuit({dt1}) then circuit({dt2}) of one Hamiltonian object differs from a fresh object by {d:.3e}", src, broken=["C16_search_history"])
        except Exception as ex:  # noqa: BLE001
            ok = False
            fail(ctx, "circuit:raises", f"{type(ex).__name__}: {ex}", src, broken=["C16_search_history"])
    # (c') the `form` of a SymbolicHamiltonian is reassigned after the object has been used
    #      (matrix, terms, circuit, a Trotter evolution): everything afterwards follows the new form
    for rep in range(4):
        n = rng.randint(2, 3)
        ms, const = rand_poly(rng, n, rng.randint(2, 5), commuting=False, integer=False)
        ms2, const2 = rand_poly(rng, n, rng.randint(2, 5), commuting=None, integer=False)
        ms2 = [m for m in ms2 if m[1] != ((n - 1, "Z"),)] + [(0.6, ((n - 1, "Z"),))]  # keeps the register size
        dt = rng.choice([0.1, 0.25, -0.2])
        use = ["h.matrix", f"h.circuit({dt})", "h.terms", f"h.circuit({dt}); h.exp(0.3)",
               f"models.StateEvolution(h, 0.1)(final_time=0.3, initial_state=np.eye({2**n})[0].astype(complex))"][(rep + rng.randint(0, 4)) % 5]
        H2 = poly_matrix(ms2, const2, n)
        src = PRE + (f"h = SymbolicHamiltonian({poly_src(ms, const)}, nqubits={n})\n{use}\n"
                     f"new = SymbolicHamiltonian({poly_src(ms2, const2)}, nqubits={n})\nh.form = new.form\n"
                     f"H2 = {arr_src(H2)}\n"
                     f"d = max(np.abs(h.circuit({dt}).unitary() - new.circuit({dt}).unitary()).max(), np.abs(np.asarray(h.matrix) - H2).max(),\n"
                     f"        np.abs(np.asarray(h.exp(0.3)) - sla.expm(-0.3j * H2)).max())\n"
                     f"psi = np.eye({2**n})[1].astype(complex)\n"
                     "d = max(d, np.abs(models.StateEvolution(h, 0.1)(final_time=0.2, initial_state=psi.copy()) - models.StateEvolution(new, 0.1)(final_time=0.2, initial_state=psi.copy())).max())\n"
                     "print(d)\nsys.exit(0 if d < 1e-9 else 1)\n")
        ctx.case(("form-history", rep, use))
        ctx.stat("history:form-reassigned")
        try:
            env = {}
            exec(src.rsplit("print(d)", 1)[0], env)  # noqa: S102 - own generated text, identical to the replay
            if not env["d"] < 1e-9:
                ok = False
                fail(ctx, "circuit:stale-after-form", f"SymbolicHamiltonian used ({use}), then `form` reassigned: circuit / matrix / exp / Trotter evolution deviate from the new form by {env['d']:.3e}",
                     src, broken=["C16_search_history"])
        except Exception as ex:  # noqa: BLE001
            ok = False
            fail(ctx, "circuit:raises", f"form reassignment history: {type(ex).__name__}: {ex}", src, broken=["C16_search_history"])
    for solver, first0 in (("exp", True), ("exp", False), ("rk4", True), ("rk4", False), ("trotter", True), ("trotter", False)):
        n = 2
        # the Trotter variant uses commuting terms, so that every step is exact and the times at
        # which H(t) is read are visible in the result
        ms, const = rand_poly(rng, n, 3, commuting=(solver == "trotter"), integer=False)
        Hm = poly_matrix(ms, const, n)
        psi = rstate(rng, n)
        dense = solver != "trotter"
        qsolver = "exp" if solver == "trotter" else solver
        if dense:
            hsrc = f"H0 = {arr_src(Hm)}\nham = lambda t: Hamiltonian({n}, (1 + t) * H0)\n"
        else:
            hsrc = f"H0 = {arr_src(Hm)}\nham = lambda t: SymbolicHamiltonian((1 + t) * ({poly_src(ms, const)}), nqubits={n})\n"
        runs = [(0.5, 0.0), (1.2, 0.7)] if first0 else [(1.2, 0.7), (0.5, 0.0)]
        (Ta, ta), (Tb, tb) = runs
        src = PRE + hsrc + (f"psi = {arr_src(psi)}\nev = models.StateEvolution(ham, 0.1, solver={qsolver!r})\n"
                            f"a = ev(final_time={Ta}, start_time={ta}, initial_state=psi.copy())\n"
                            f"b = ev(final_time={Tb}, start_time={tb}, initial_state=psi.copy())\n"
                            f"b2 = models.StateEvolution(ham, 0.1, solver={qsolver!r})(final_time={Tb}, start_time={tb}, initial_state=psi.copy())\n"
                            f"ref = psi.copy()\nfor j in range(5): ref = sla.expm(-1j * 0.1 * (1 + {tb} + 0.1 * j) * H0) @ ref\n"
                            f"d2 = pdist(b, ref) if {solver != 'rk4'} else 0.0\n"
                            "print(np.abs(b - b2).max(), d2)\nsys.exit(0 if np.abs(b - b2).max() < 1e-12 and d2 < 1e-9 else 1)\n")
        ctx.case(("evol-history", solver, first0))
        ctx.stat("history:evolution-object-reused")
        try:
            env = dict(Q)
            exec(hsrc, env)  # noqa: S102
            ev = M.StateEvolution(env["ham"], 0.1, solver=qsolver)
            ev(final_time=Ta, start_time=ta, initial_state=psi.copy())
            b = ev(final_time=Tb, start_time=tb, initial_state=psi.copy())
            b2 = M.StateEvolution(env["ham"], 0.1, solver=qsolver)(final_time=Tb, start_time=tb, initial_state=psi.copy())
            # the times the solver hands to H(t): compare with the explicit product of step propagators
            if solver != "rk4":
                refp = psi.copy()
                for j in range(5):
                    refp = sla.expm(-1j * 0.1 * (1 + tb + 0.1 * j) * Hm) @ refp
                dref = pdist(b, refp)
            else:
                dref = 0.0
            if np.abs(b - b2).max() > 1e-12 or dref > 1e-9:
                ok = False
                fail(ctx, f"evolve:second-run:{solver}", f"an evolution object (H(t)=(1+t)H0, solver {qsolver}) run for {runs[0]} and then for {runs[1]} (final, start): differs from a fresh object by {np.abs(b - b2).max():.3e}; "
                     f"deviation from the product of the step propagators exp(-i dt H(t0 + j dt)): {dref:.3e}", src, broken=["C16_search_history"])
        except Exception as ex:  # noqa: BLE001
            ok = False
            fail(ctx, f"evolve:raises:{solver}", f"{type(ex).__name__}: {ex}", src, broken=["C16_search_history"])
    # group.term after a later append (cache reset)
    try:
        HT, TG = Q["HamiltonianTerm"], Q["TermGroup"]
        A = np.array(rand_int_matrix(rng, 2, 2))
        B = np.array(rand_int_matrix(rng, 1, 2))
        g = TG(HT(A, 2, 0))
        first = np.array(g.term.matrix)
        g.append(HT(B, 0))
        second = np.array(g.term.matrix)
        ref = A + np.kron(np.eye(2), B)
        ctx.stat("history:group-append")
        if np.abs(first - A).max() > 1e-12 or np.abs(second - ref).max() > 1e-12:
            ok = False
            fail(ctx, "terms:stale-merged-term", "TermGroup.term read, then append(term), then TermGroup.term: the merged term misses the appended term",
                 PRE + f"A = {arr_src(A)}; B = {arr_src(B)}\ng = TermGroup(HamiltonianTerm(A, 2, 0)); g.term; g.append(HamiltonianTerm(B, 0))\n"
                 "d = np.abs(g.term.matrix - (A + np.kron(np.eye(2), B))).max()\nprint(d)\nsys.exit(0 if d < 1e-12 else 1)\n", broken=["C16_search_history"])
    except Exception as ex:  # noqa: BLE001
        ok = False
        fail(ctx, "terms:raises", f"TermGroup append/term raises {type(ex).__name__}: {ex}", "", broken=["C16_search_history"])
    ctx.ob("C16_search_history", ok, "search", "" if ok else "see failing inputs")


# ---------------------------------------------------------------------------
# direct search 4: adiabatic evolution


def adiabatic_search(ctx):
    rng = ctx.rng
    ok = True
    M = Q["models"]
    scheds = [("lambda x: x", lambda x: x), ("lambda x: x ** 2", lambda x: x**2), ("lambda x: np.sin(np.pi * x / 2) ** 2", lambda x: math.sin(math.pi * x / 2) ** 2)]
    for rep in range(6 if ctx.thorough else 4):
        n = rng.randint(2, 3)
        comm = rep % 2 == 0
        ms0, c0 = rand_poly(rng, n, rng.randint(1, 3), commuting=True, integer=False, zonly=False)
        ms1, c1 = rand_poly(rng, n, rng.randint(2, 4), commuting=True, integer=False, zonly=False)
        if comm:
            # make everything commute: Z-only
            ms0, c0 = rand_poly(rng, n, rng.randint(1, 3), commuting=True, integer=False, zonly=True)
            ms1, c1 = rand_poly(rng, n, rng.randint(2, 4), commuting=True, integer=False, zonly=True)
        H0, H1 = poly_matrix(ms0, c0, n), poly_matrix(ms1, c1, n)
        ssrc, sfun = scheds[rep % len(scheds)]
        Ttot = rng.choice([1.0, 2.0, 0.8])
        for dense in (True, False):
            if dense:
                hs = f"h0 = Hamiltonian({n}, {arr_src(H0)})\nh1 = Hamiltonian({n}, {arr_src(H1)})\n"
            else:
                hs = f"h0 = SymbolicHamiltonian({poly_src(ms0, c0)}, nqubits={n})\nh1 = SymbolicHamiltonian({poly_src(ms1, c1)}, nqubits={n})\n"
            tt = rng.choice([0.0, 0.3 * Ttot, Ttot, 0.77 * Ttot])
            st = sfun(tt / Ttot)
            ref = (1 - st) * H0 + st * H1
            dt = 0.1
            src = PRE + hs + (f"s = {ssrc}\nah = AdiabaticHamiltonian(h0, h1); ah.schedule = s; ah.total_time = {Ttot!r}\nt = {tt!r}\n"
                              f"H0 = {arr_src(H0)}; H1 = {arr_src(H1)}\nst = s(t / {Ttot!r}); ref = (1 - st) * H0 + st * H1\n"
                              "d = np.abs(np.asarray(ah(t).matrix) - ref).max()\n"
                              + ("" if dense else f"U = ah.circuit({dt}, t=t).unitary(); U2 = ah.circuit({dt} / 2, t=t).unitary()\n"
                                 f"e1 = pdist(U, sla.expm(-1j * {dt} * ref)); e2 = pdist(U2, sla.expm(-1j * {dt} / 2 * ref))\nprint('circuit errors', e1, e2)\n"
                                 "d = max(d, 0 if (e1 < 1e-10 or e2 <= e1 / 6.5) else 1)\n")
                              + "print(d)\nsys.exit(0 if d < 1e-9 else 1)\n")
            ctx.case(("adiabatic-H", rep, dense))
            ctx.stat("adiabatic:hamiltonian:" + ("dense" if dense else "symbolic"))
            try:
                env = dict(Q)
                exec(hs, env)  # noqa: S102
                ah = Q["AdiabaticHamiltonian"](env["h0"], env["h1"])
                ah.schedule = sfun
                ah.total_time = Ttot
                d = np.abs(np.asarray(ah(tt).matrix) - ref).max()
                if d > 1e-9:
                    ok = False
                    fail(ctx, "adiabatic:hamiltonian:" + ("dense" if dense else "symbolic"), f"AdiabaticHamiltonian(t={tt}) with schedule {ssrc}, total time {Ttot}: matrix differs from (1-s)H0 + sH1 by {d:.3e}",
                         src, expected="< 1e-9", observed=d, broken=["C16_search_adiabatic"])
                if not dense:
                    U = ah.circuit(dt, t=tt).unitary()
                    U2 = ah.circuit(dt / 2, t=tt).unitary()
                    e1 = pdist(U, sla.expm(-1j * dt * ref))
                    e2 = pdist(U2, sla.expm(-1j * dt / 2 * ref))
                    bad = (e1 > 1e-10) if comm else (e1 >= 1e-10 and e2 > e1 / 6.5)
                    if bad:
                        ok = False
                        fail(ctx, "adiabatic:circuit", f"SymbolicAdiabaticHamiltonian.circuit({dt}, t={tt}) (schedule {ssrc}): error {e1:.3e}, at dt/2 {e2:.3e} against exp(-i dt ((1-s)H0 + sH1))"
                             + (" for commuting terms" if comm else ""), src, expected="exact (commuting) / ratio >= 6.5", observed=[e1, e2], broken=["C16_search_adiabatic"])
            except Exception as ex:  # noqa: BLE001
                ok = False
                fail(ctx, "adiabatic:raises", f"{type(ex).__name__}: {ex}", src, broken=["C16_search_adiabatic"])
    # AdiabaticEvolution end to end: convergence towards a fine reference integration
    for solver, dense, expected in (("exp", True, 1), ("exp", False, 1), ("rk4", True, 4), ("rk45", False, 5)):
        n = 2
        ms0 = [(-1.0, ((0, "X"),)), (-1.0, ((1, "X"),))]
        ms1, c1 = rand_poly(rng, n, 3, commuting=None, integer=False)
        H0, H1 = poly_matrix(ms0, 0, n), poly_matrix(ms1, c1, n)
        Ttot = 1.0
        if dense:
            hs = f"h0 = Hamiltonian({n}, {arr_src(H0)})\nh1 = Hamiltonian({n}, {arr_src(H1)})\n"
        else:
            hs = f"h0 = SymbolicHamiltonian({poly_src(ms0, 0)}, nqubits={n})\nh1 = SymbolicHamiltonian({poly_src(ms1, c1)}, nqubits={n})\n"
        psi0 = np.ones(2**n, dtype=complex) / 2.0  # ground state of -X0 - X1
        from scipy.integrate import solve_ivp

        sol = solve_ivp(lambda t, y: -1j * (((1 - t / Ttot) * H0 + (t / Ttot) * H1) @ y), (0.0, Ttot), psi0.copy(),
                        method="DOP853", rtol=1e-12, atol=1e-13)
        refp = sol.y[:, -1]
        src = PRE + ORDER_SRC + hs + (f"psi0 = np.ones({2 ** n}, dtype=complex) / 2.0\nref = {arr_src(refp)}\n"
                          f"run = lambda dt: models.AdiabaticEvolution(h0, h1, lambda x: x, dt, solver={solver!r})(final_time={Ttot!r}, initial_state=psi0.copy())\n"
                          f"outs = [run(dt) for dt in {DTS_ORDER!r}]\n"
                          + ("errs = [pdist(o, ref) for o in outs]\n" if (solver == "exp" and not dense) else "errs = [float(np.abs(o - ref).max()) for o in outs]\n")
                          + "print(errs, observed_order(errs))\n"
                          f"sys.exit(0 if observed_order(errs) >= {expected - 0.5} and abs(np.linalg.norm(outs[1]) - 1) < 1e-9 else 1)\n")
        ctx.case(("adiabatic-evolution", solver, dense))
        ctx.stat(f"adiabatic:evolution:{solver}")
        try:
            env = dict(Q)
            exec(hs, env)  # noqa: S102
            run = lambda dt: M.AdiabaticEvolution(env["h0"], env["h1"], lambda x: x, dt, solver=solver)(final_time=Ttot, initial_state=psi0.copy())  # noqa: E731
            o1, o2, o4, o5 = run(0.1), run(0.05), run(0.025), run(0.0125)
            # the Trotter circuit drops the constants of the Hamiltonians: up to a global phase there
            trot = solver == "exp" and not dense
            errs = [pdist(o, refp) if trot else float(np.abs(o - refp).max()) for o in (o1, o2, o4, o5)]
            e1, e2, e4 = errs[:3]
            sl = observed_order([e if e > 3e-12 else 0.0 for e in errs])  # the reference is good to ~1e-12
            if sl < expected - 0.5 or abs(np.linalg.norm(o2) - 1) > 1e-9:
                ok = False
                fail(ctx, f"order:{solver}:adiabatic" if solver != "exp" else "adiabatic:evolution:exp",
                     f"AdiabaticEvolution(solver={solver!r}, {'dense' if dense else 'symbolic'}): errors {e1:.3e} (dt=0.1), {e2:.3e} (dt=0.05), {e4:.3e} (dt=0.025) against a fine reference — order {sl:.2f}, expected {expected}; norm {np.linalg.norm(o2)!r}",
                     src, expected=f"order >= {expected - 0.5}", observed=errs, broken=["C16_search_adiabatic"])
        except Exception as ex:  # noqa: BLE001
            ok = False
            fail(ctx, "adiabatic:raises", f"AdiabaticEvolution {solver}: {type(ex).__name__}: {ex}", src, broken=["C16_search_adiabatic"])
    # the times at which the adiabatic Hamiltonian is read: exact propagators (dense) / commuting
    # terms (Trotter), so the result is the explicit product over the steps
    for dense in (True, False):
        n = 2
        if dense:
            ms0, c0 = rand_poly(rng, n, 2, commuting=None, integer=False)
            ms1, c1 = rand_poly(rng, n, 3, commuting=None, integer=False)
        else:
            ms0, c0 = rand_poly(rng, n, 2, commuting=True, integer=False, zonly=True)
            ms1, c1 = rand_poly(rng, n, 3, commuting=True, integer=False, zonly=True)
        H0, H1 = poly_matrix(ms0, c0, n), poly_matrix(ms1, c1, n)
        psi = rstate(rng, n)
        Ttot, dt, ks = 0.6, 0.2, 3
        if dense:
            hs = f"h0 = Hamiltonian({n}, {arr_src(H0)})\nh1 = Hamiltonian({n}, {arr_src(H1)})\n"
        else:
            hs = f"h0 = SymbolicHamiltonian({poly_src(ms0, c0)}, nqubits={n})\nh1 = SymbolicHamiltonian({poly_src(ms1, c1)}, nqubits={n})\n"
        refp = psi.copy()
        for j in range(ks):
            sj = (j * dt / Ttot) ** 2
            refp = sla.expm(-1j * dt * ((1 - sj) * H0 + sj * H1)) @ refp
        src = PRE + hs + (f"psi = {arr_src(psi)}\nref = {arr_src(refp)}\nnr = callbacks.Norm()\n"
                          f"ev = models.AdiabaticEvolution(h0, h1, lambda x: x ** 2, {dt}, callbacks=[nr])\nout = ev(final_time={Ttot}, initial_state=psi.copy())\n"
                          "d = pdist(out, ref)\nprint(d, len(nr.results))\n" + f"sys.exit(0 if d < 1e-9 and len(nr.results) == {ks + 1} else 1)\n")
        ctx.case(("adiabatic-steps", dense))
        ctx.stat("adiabatic:step-times")
        try:
            env = dict(Q)
            exec(hs, env)  # noqa: S102
            nr = Q["callbacks"].Norm()
            ev = M.AdiabaticEvolution(env["h0"], env["h1"], lambda x: x**2, dt, callbacks=[nr])
            out = ev(final_time=Ttot, initial_state=psi.copy())
            d = pdist(out, refp)
            if d > 1e-9 or len(nr.results) != ks + 1:
                ok = False
                fail(ctx, "adiabatic:step-times:" + ("dense" if dense else "trotter"),
                     f"AdiabaticEvolution(s = x², dt={dt}, 'exp', {'dense' if dense else 'symbolic commuting'})(final_time={Ttot}): {d:.3e} away from the product of exp(-i dt H(j dt)), {len(nr.results)} callback records (expected {ks + 1})",
                     src, expected="< 1e-9", observed=d, broken=["C16_search_adiabatic"])
            # default initial state = ground state of h0 (here h0 is replaced by -X0 - X1, non-degenerate)
            if dense:
                hx = Q["hamiltonians"].X(n)
                o_def = M.AdiabaticEvolution(hx, env["h1"], lambda x: x, dt)(final_time=Ttot)
                o_exp = M.AdiabaticEvolution(hx, env["h1"], lambda x: x, dt)(final_time=Ttot, initial_state=np.ones(2**n, dtype=complex) / 2 ** (n / 2))
                if pdist(o_def, o_exp) > 1e-9:
                    ok = False
                    fail(ctx, "adiabatic:default-initial-state", "AdiabaticEvolution without initial_state does not start from the ground state of h0",
                         PRE + hs + f"hx = hamiltonians.X({n})\na = models.AdiabaticEvolution(hx, h1, lambda x: x, {dt})(final_time={Ttot})\n"
                         f"b = models.AdiabaticEvolution(hx, h1, lambda x: x, {dt})(final_time={Ttot}, initial_state=np.ones({2 ** n}, dtype=complex) / {2 ** (n / 2)!r})\n"
                         "print(pdist(a, b))\nsys.exit(0 if pdist(a, b) < 1e-9 else 1)\n", broken=["C16_search_adiabatic"])
            # parametrised schedule: set_parameters([p, T]) fixes s(t) = t ** p and the total time
            ev2 = M.AdiabaticEvolution(env["h0"], env["h1"], lambda x, p: x ** p[0], dt)
            ev2.set_parameters([2.0, 1.5])
            tt = 0.9
            st = (tt / 1.5) ** 2
            d2 = np.abs(np.asarray(ev2.hamiltonian(tt).matrix) - ((1 - st) * H0 + st * H1)).max()
            if d2 > 1e-9:
                ok = False
                fail(ctx, "adiabatic:set-parameters", f"AdiabaticEvolution with s(t, p) = t ** p[0] after set_parameters([2.0, 1.5]): H(0.9) differs from (1-s)H0 + sH1 by {d2:.3e}",
                     PRE + hs + f"ev = models.AdiabaticEvolution(h0, h1, lambda x, p: x ** p[0], {dt}); ev.set_parameters([2.0, 1.5])\nst = (0.9 / 1.5) ** 2\n"
                     f"d = np.abs(np.asarray(ev.hamiltonian(0.9).matrix) - ((1 - st) * {arr_src(H0)} + st * {arr_src(H1)})).max()\nprint(d)\nsys.exit(0 if d < 1e-9 else 1)\n",
                     broken=["C16_search_adiabatic"])
        except Exception as ex:  # noqa: BLE001
            ok = False
            fail(ctx, "adiabatic:raises", f"AdiabaticEvolution step times: {type(ex).__name__}: {ex}", src, broken=["C16_search_adiabatic"])
    ctx.ob("C16_search_adiabatic", ok, "search", "" if ok else "see failing inputs")


# ---------------------------------------------------------------------------


def run(ctx):
    global Q
    Q = _import_qibo()
    modules, theorems = registry(PROP)
    ctx.theorems = theorems
    build_and_audit(ctx, PROP, modules, theorems)
    ctx.trusted += [
        "scipy.linalg.expm is an oracle meaning NormedSpace.exp (its values are compared with the model's merged matrices through expm itself)",
        "the local bound ‖S(dt) − exp(−i dt H)‖ ≤ 2 r3(|dt| Σ‖h_j‖) is proved for every term list (C16c: T16_trotter_error_bound, TrotterThirdOrder_proved) and evaluated on the real circuits; the GLOBAL bounds over k steps (C16d: Trotter k·2 r3(dt L), rk4 / rk45 (1+eps)^k − 1, time-dependent Trotter against the frozen exponentials) are proved in the spectral norm for Hermitian terms and evaluated on the real circuit powers, solver steps, StateEvolution and AdiabaticEvolution on every run; convergence of the frozen-step product to the time-ordered exponential for time-dependent H is not proved: it is measured (error ratio under dt halving)",
        "Lean's Float is IEEE binary64 like Python's float (the kernel evaluates it through Lean's software model; the driver through the hardware)",
    ]
    ctx.notes.append(
        "raw HamiltonianTerm lists (all lists of <=2 ordered subsets of 3 qubits exhaustively, 3-lists sampled/all, random nested/overlapping/repeated "
        "subsets on n<=4) through the real from_terms / term / to_term vs the Lean model exactly; Pauli-polynomial circuits and adiabatic circuits: "
        "gate skeleton exactly, matrices vs expm of the model's merged matrices; step counts for ~500 (T, t0, dt); direct search vs scipy expm "
        "(commuting exact, non-commuting error ratio, solver orders, norms, callbacks, call histories, adiabatic)")
    corr_raw(ctx)
    corr_symbolic(ctx)
    steps_suite(ctx)
    trotter_search(ctx)
    trotter_bound_search(ctx)
    evolution_search(ctx)
    history_search(ctx)
    adiabatic_search(ctx)
    # part 4: the global bounds of Props/C16d evaluated on the real code; the solvers' clock
    import sys

    from props import C16_global

    C16_global.run_suites(ctx, sys.modules[__name__])
    # part 5: same-qubit Pauli products through every route, shared-object adiabatic histories, 9–11 qubits
    from props import C16_forms

    C16_forms.run_suites(ctx, sys.modules[__name__])
