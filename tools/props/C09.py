"""C09 — routing output is executable on the connectivity graph and equals the input up
to the reported layout.

Three ingredients (see tools/README.md):
  * theorems  lean/QV/Props/C09.lean over the model lean/QV/Model/Router.lean;
  * tie       (a) action replay: CircuitMap.update / undo / execute_block of every real
                  ShortestPaths / Sabre run are recorded in-process and replayed by the Lean
                  model (maps, routed gates after every action, guards, order check);
              (b) the Lean model of StarConnectivityRouter's loop is run side by side with
                  the real router; (c) _create_dag against the Lean edge model;
              (d) the proved order checker `pickCheck` validates every real block
                  decomposition and every real execution order;
              (e) the Lean transliteration of blocks.py (QV/Model/Blocks.lean, proved to be a
                  commuting reordering for all circuits) is compared block by block, gate object
                  by gate object, with the real `block_decomposition(fuse=True/False)` and its
                  helper functions (exhaustive small circuits + seeded random);
              (f) measurement handling and front layer (props/C09_meas.py): every entry of the real
                  routed queue of all three routers against `mroute` / `mstarRoute` of
                  QV/Model/RouterMeas.lean, every `_update_front_layer` against `frontLayer`;
  * search    the property itself on the real routers: connectivity of every two-qubit
              gate, exact operator identity  routed = P·input  on integer data, layout is a
              bijection, wire names / circuit kwargs kept, inputs not mutated, trailing
              measurements re-attached on the right qubits with their registers, samples;
              one router object reused after `router.connectivity` was reassigned.
"""
from __future__ import annotations

import itertools
import json

import networkx as nx
import numpy as np

from vlib.driver import run_driver
from vlib.proofs import build_and_audit, registry

PROP = "C09"
DRIVER = "DriverC09.lean"

# ---------------------------------------------------------------------------
# executable SPEC (also the body of every replay snippet)

SPEC_SRC = r'''
import random, copy
import numpy as np, networkx as nx
from qibo import Circuit, gates
from qibo.backends import NumpyBackend
from qibo.transpiler.router import ShortestPaths, Sabre, StarConnectivityRouter

import signal, contextlib


class RouterTimeout(Exception):
    pass


@contextlib.contextmanager
def time_limit(seconds):
    """a router call that does not return is a failure, not a hang of the check."""
    def handler(signum, frame):
        raise RouterTimeout(f"no result after {seconds} s")
    old = signal.signal(signal.SIGALRM, handler)
    signal.setitimer(signal.ITIMER_REAL, seconds)
    try:
        yield
    finally:
        signal.setitimer(signal.ITIMER_REAL, 0)
        signal.signal(signal.SIGALRM, old)


_NB = NumpyBackend()
MARK = np.array([[2, 1], [1, 0]], dtype=complex)   # stand-in operator of a measurement


def local_matrix(g):
    """(matrix, ordered qubits) of a gate; measurements act as MARK on each qubit."""
    if isinstance(g, gates.M):
        m = np.array([[1]], dtype=complex)
        for _ in g.qubits:
            m = np.kron(m, MARK)
        return m, list(g.qubits)
    m = np.asarray(g.matrix(_NB), dtype=complex)
    if g.is_controlled_by:
        ts, cs = list(g.target_qubits), list(g.control_qubits)
        d = 2 ** (len(ts) + len(cs))
        full = np.eye(d, dtype=complex)
        k = 2 ** len(ts)
        full[d - k:, d - k:] = m
        return full, cs + ts
    return m, list(g.qubits)


def operator(queue, n):
    """operator of a gate list as a tensor with axes (out_0..out_{n-1}, in) ."""
    U = np.eye(2 ** n, dtype=complex).reshape((2,) * n + (2 ** n,))
    for g in queue:
        m, qs = local_matrix(g)
        k = len(qs)
        U = np.tensordot(m.reshape((2,) * (2 * k)), U, axes=(list(range(k, 2 * k)), qs))
        U = np.moveaxis(U, list(range(k)), qs)
    return U


def sig(g):
    """class + parameters of a gate (no qubits)."""
    if isinstance(g, gates.M):
        return ("M",)
    if isinstance(g, gates.Unitary):
        pars = tuple(np.round(np.asarray(g.parameters[0], dtype=complex).reshape(-1), 9).tolist())
    else:
        pars = tuple(np.round(np.asarray(p, dtype=complex).reshape(-1), 9).tolist().__repr__() for p in g.parameters)
    return (type(g).__name__, pars, len(g.control_qubits) if g.is_controlled_by else -1)


def regname(m):
    """explicit register names are compared exactly, default ones (register<k>) by order."""
    import re
    r = m.register_name
    return None if r is None or re.fullmatch(r"register\d+", str(r)) else r


def regname_str(r):
    import re
    return None if r is None or re.fullmatch(r"register\d+", str(r)) else r


def trailing(queue):
    out = []
    for g in reversed(list(queue)):
        if isinstance(g, gates.M):
            out.append(g)
        else:
            break
    return out[::-1]


def final_measurements(queue):
    """the measurements the routers treat as final: every non-collapsing measurement (no
    later gate touches its qubits) wherever it sits, then the trailing measurements."""
    queue = list(queue)
    tr = trailing(queue)
    body = queue[: len(queue) - len(tr)]
    return [g for g in body if isinstance(g, gates.M) and not g.collapse] + tr


def body_gates(queue):
    fin = {id(g) for g in final_measurements(queue)}
    return [g for g in queue if id(g) not in fin]


def check_routing(circuit, connectivity, routed, layout, exact, before=None):
    """the property C09 for one call; returns a list of (kind, detail)."""
    bad = []
    n = circuit.nqubits
    wn = list(circuit.wire_names)
    # (c) layout is a bijection wire name -> position, wire names and circuit kwargs kept
    if not isinstance(layout, dict) or set(layout.keys()) != set(wn) or sorted(layout.values()) != list(range(n)):
        bad.append(("layout", f"final layout {layout} is not a bijection from {wn} onto 0..{n-1}"))
        return bad
    if list(routed.wire_names) != wn or routed.nqubits != n:
        bad.append(("wire_names", f"wire names {routed.wire_names} / nqubits {routed.nqubits}, expected {wn} / {n}"))
        return bad
    if bool(routed.density_matrix) != bool(circuit.density_matrix):
        bad.append(("kwargs", "density_matrix flag of the routed circuit differs"))
    f = [layout[wn[l]] for l in range(n)]
    # (a) every two-qubit gate on an edge
    for g in routed.queue:
        if isinstance(g, gates.M):
            continue
        if len(g.qubits) > 2:
            bad.append(("connectivity", f"{g.name}{g.qubits} acts on more than two qubits"))
        elif len(g.qubits) == 2:
            a, b = wn[g.qubits[0]], wn[g.qubits[1]]
            if not connectivity.has_edge(a, b):
                bad.append(("connectivity", f"{g.name} on physical qubits ({a!r},{b!r}) (positions {g.qubits}) is not an edge"))
                break
    # (b) routed == P . input
    UL = operator(circuit.queue, n)
    UR = operator(routed.queue, n)
    want = np.moveaxis(UL, list(range(n)), f)
    same = np.array_equal(UR, want) if exact else np.allclose(UR, want, atol=1e-9, rtol=0)
    if not same:
        bad.append(("operator", "routed operator differs from P.U with P from the reported layout"))
    # (d) every final (non-collapsing) measurement of the input comes after all gates of the
    # output, in the input's order, on l2p[q], same register name and qubit order (collapsing
    # measurements act in place: they are covered by the operator identity)
    tin = [m for m in final_measurements(circuit.queue) if not m.collapse]
    tout = [m for m in trailing(routed.queue) if not m.collapse]
    win = [(regname(m), tuple(f[q] for q in m.qubits)) for m in tin]
    # (pieces of a split collapsing multi-qubit measurement may precede them)
    wout = [(regname(m), tuple(m.qubits)) for m in tout[len(tout) - len(tin):]] if len(tout) >= len(tin) else None
    if wout != win:
        bad.append(("measurements", f"final measurements at the end of the output {[(m.register_name, m.qubits) for m in tout]}, expected {win}"))
    # registers never disappear from the results of the routed circuit
    rin, rout = circuit.measurement_tuples, routed.measurement_tuples
    lost = [r for r, qs in rin.items() if regname_str(r) is not None
            and (r not in rout or tuple(rout[r]) != tuple(f[q] for q in qs))]
    if lost or len(rout) < len(rin):
        bad.append(("registers-dropped", f"registers {lost or sorted(rin)} of the input are missing or on other qubits in "
                                          f"routed.measurement_tuples {dict(rout)} (input {dict(rin)}, layout {f})"))
    nin = sum(len(g.qubits) for g in circuit.queue if isinstance(g, gates.M))
    nout = sum(len(g.qubits) for g in routed.queue if isinstance(g, gates.M))
    if nin != nout:
        bad.append(("measurements", f"{nout} measured qubits in the output, {nin} in the input"))
    # the input circuit is not changed by the call
    if before is not None and before != snapshot(circuit):
        bad.append(("mutation", "the input circuit was modified by the router"))
    return bad


def split_clash_class(queue, detach):
    """input class of the known defect of `_split_multi_qubit_measurements`: a multi-qubit
    measurement together with another measurement among the gates that reach the block
    decomposition (for routers: after the final measurements are detached)."""
    body = body_gates(queue) if detach else list(queue)
    ms = [g for g in body if isinstance(g, gates.M)]
    return len(ms) >= 2 and any(len(g.qubits) > 1 for g in ms)


def raise_kind(e, queue, detach=True):
    if isinstance(e, RouterTimeout):
        return "hangs"
    kind = f"raises:{type(e).__name__}"
    if isinstance(e, KeyError) and not ("already exists in circuit" in str(e) and split_clash_class(queue, detach)):
        kind += ":other"
    return kind


def snapshot(circuit):
    return (circuit.nqubits, tuple(map(repr, circuit.wire_names)),
            tuple((sig(g), tuple(g.qubits), getattr(g, "register_name", None)) for g in circuit.queue))


def make_router(kind, connectivity, opts):
    if kind == "ShortestPaths":
        return ShortestPaths(connectivity, seed=opts.get("seed"))   # None -> the documented default 42
    if kind == "Sabre":
        return Sabre(connectivity, **opts)
    return StarConnectivityRouter(connectivity)


def build_graph(edges, nodes):
    G = nx.Graph()
    G.add_nodes_from(nodes)
    G.add_edges_from(edges)
    return G


def build_circuit(n, wire_names, gate_codes, density_matrix=False):
    c = Circuit(n, wire_names=list(wire_names), density_matrix=density_matrix)
    for code in gate_codes:
        c.add(eval(code, {"gates": gates, "np": np}))
    return c


def run_case(case, calls=1):
    """build everything from plain data, call the router `calls` times (same router
    object, fresh circuit each time), check every call; returns list of (kind, detail)."""
    G = build_graph(case["edges"], case["nodes"])
    G0 = G.copy()
    router = make_router(case["router"], G, case.get("opts", {}))
    bad = []
    for k in range(calls):
        c = build_circuit(case["n"], case["wire_names"], case["gates"], case.get("dm", False))
        before = snapshot(c)
        try:
            with time_limit(20):
                routed, layout = router(c)
        except Exception as e:  # routers must accept every circuit of 1- and 2-qubit gates
            bad.append((raise_kind(e, c.queue) if k == 0 else "reuse", f"call {k+1}: {type(e).__name__}: {e}"))
            break
        r = check_routing(c, G0, routed, layout, case.get("exact", True), before)
        if k > 0:
            r = [("reuse", f"call {k+1} of the same router object: {kind}: {d}") for kind, d in r]
        bad += r
        if set(G.nodes) != set(G0.nodes) or set(map(frozenset, G.edges)) != set(map(frozenset, G0.edges)):
            bad.append(("mutation", "the connectivity graph passed by the caller was modified"))
        if bad:
            break
    return bad


def run_reassign(case):
    """one router OBJECT used on a sequence of connectivity graphs: constructed with the
    first graph (or with None), then `router.connectivity = G` before every later call (what
    Passes.__call__ does on every call, what sharing one router between two pipelines does).
    Every call is checked against the graph that is CURRENT at that call."""
    graphs = [build_graph(e, case["nodes"]) for e in case["graphs"]]
    first = None if case.get("none_first") else graphs[0].copy()
    router = make_router(case["router"], first, case.get("opts", {}))
    bad = []
    for k, G in enumerate(graphs):
        if k > 0 or first is None:
            router.connectivity = G.copy()
        gl = case["gates"][k]
        c = build_circuit(case["n"], case["wire_names"], gl)
        before = snapshot(c)
        try:
            with time_limit(20):
                routed, layout = router(c)
        except Exception as e:
            bad.append(("reassigned-connectivity", f"call {k+1} on graph {case['graphs'][k]}: {type(e).__name__}: {e}"))
            break
        r = check_routing(c, G, routed, layout, case.get("exact", True), before)
        if r:
            bad += [("reassigned-connectivity", f"call {k+1} on graph {case['graphs'][k]} (router object first used on "
                     f"{case['graphs'][0] if first is not None else None}): {kind}: {d}") for kind, d in r]
            break
    return bad


def run_wire_orders(case):
    """one router OBJECT called on a sequence of circuits that use the same physical qubits
    in DIFFERENT wire orders (what any placer produces) and with different content; with
    case['reassign'] the same graph object is assigned to `router.connectivity` again before
    every later call (what Passes.__call__ does).  Every call gets the full check, with the
    edges of the graph read through the wire names of THAT call."""
    G = build_graph(case["edges"], case["nodes"])
    G0 = G.copy()
    router = make_router(case["router"], G, case.get("opts", {}))
    bad = []
    for k, call in enumerate(case["calls"]):
        if k > 0 and case.get("reassign"):
            router.connectivity = G
        c = build_circuit(case["n"], call["wire_names"], call["gates"])
        before = snapshot(c)
        try:
            with time_limit(20):
                routed, layout = router(c)
        except Exception as e:
            kind = raise_kind(e, c.queue)
            if kind == "raises:KeyError":      # the known split defect: not a reuse problem
                break
            bad.append(("reuse:wire-order", f"call {k+1} (wires {call['wire_names']}): {type(e).__name__}: {e}"))
            break
        r = check_routing(c, G0, routed, layout, case.get("exact", True), before)
        if r:
            bad += [("reuse:wire-order", f"call {k+1} of one router object, wires {call['wire_names']} (first call: wires "
                     f"{case['calls'][0]['wire_names']}): {kind}: {d}") for kind, d in r]
            break
        if set(G.nodes) != set(G0.nodes) or set(map(frozenset, G.edges)) != set(map(frozenset, G0.edges)):
            bad.append(("reuse:wire-order", "the connectivity graph passed by the caller was modified"))
            break
    return bad
'''

SPEC = {}
exec(compile(SPEC_SRC, "<C09 spec>", "exec"), SPEC)
gates = SPEC["gates"]
Circuit = SPEC["Circuit"]


def replay_code(case, calls, kinds):
    return (SPEC_SRC + "\ncase = " + repr(case) + f"\nbad = run_case(case, calls={calls})\nprint(bad)\n"
            + f"assert not [b for b in bad if b[0] in {sorted(kinds)!r}], bad\n")


# ---------------------------------------------------------------------------
# generators

INT_1Q = ["gates.X({0})", "gates.Y({0})", "gates.Z({0})", "gates.S({0})", "gates.SDG({0})"]
INT_2Q = ["gates.CNOT({0},{1})", "gates.CZ({0},{1})", "gates.CY({0},{1})", "gates.SWAP({0},{1})",
          "gates.iSWAP({0},{1})", "gates.FSWAP({0},{1})", "gates.X({1}).controlled_by({0})",
          "gates.Y({1}).controlled_by({0})", "gates.S({1}).controlled_by({0})"]
FLT_1Q = ["gates.H({0})", "gates.RX({0}, {t})", "gates.U3({0}, {t}, 0.3, -1.1)", "gates.T({0})", "gates.GPI2({0}, {t})"]
FLT_2Q = ["gates.CRZ({0},{1}, {t})", "gates.fSim({0},{1}, {t}, 0.4)", "gates.RZZ({0},{1}, {t})",
          "gates.CU3({0},{1}, {t}, 0.2, 0.9)", "gates.H({1}).controlled_by({0})", "gates.RBS({0},{1}, {t})",
          "gates.RY({1}, {t}).controlled_by({0})", "gates.SiSWAP({0},{1})", "gates.GIVENS({0},{1}, {t})"]
DET_1Q = ["gates.X({0})", "gates.Z({0})", "gates.Y({0})"]
DET_2Q = ["gates.CNOT({0},{1})", "gates.SWAP({0},{1})", "gates.CZ({0},{1})", "gates.iSWAP({0},{1})", "gates.FSWAP({0},{1})"]

PH = [1, -1, 1j, -1j]


def _cstr(z):
    z = complex(z)
    if z.imag == 0:
        return str(int(z.real))
    if z.real == 0:
        return f"{int(z.imag)}j"
    return f"({int(z.real)}{int(z.imag):+d}j)"


def int_matrix(rng, d):
    """invertible, non-symmetric in general: monomial matrix plus one off-support entry."""
    perm = list(range(d))
    rng.shuffle(perm)
    m = [[0] * d for _ in range(d)]
    for i in range(d):
        m[i][perm[i]] = rng.choice(PH)
    if rng.random() < 0.6:
        i = rng.randrange(d)
        j = rng.choice([j for j in range(d) if j != perm[i]])
        m[i][j] = rng.choice([1, -1])
    return "[" + ",".join("[" + ",".join(_cstr(x) for x in row) + "]" for row in m) + "]"


def random_gate(rng, n, mode):
    """one gate code. mode: 'int' exact data, 'float' named parametrised gates too, 'det'
    monomial gates only (deterministic measurement outcomes)."""
    two = n >= 2 and rng.random() < 0.6
    t = round(rng.uniform(-3, 3), 3)
    if mode == "det":
        pool = DET_2Q if two else DET_1Q
    elif mode == "named":
        pool = (FLT_2Q + INT_2Q) if two else (FLT_1Q + INT_1Q)
    elif mode == "float" and rng.random() < 0.6:
        pool = FLT_2Q if two else FLT_1Q
    elif rng.random() < 0.45:
        d = 4 if two else 2
        pool = ["gates.Unitary(np.array(" + int_matrix(rng, d) + "), " + ("{0},{1}" if two else "{0}") + ", check_unitary=False)"]
    else:
        pool = INT_2Q if two else INT_1Q
    code = rng.choice(pool)
    if two:
        a, b = rng.sample(range(n), 2)
        return code.format(a, b, t=t)
    return code.format(rng.randrange(n), t=t)


def random_recipe(rng, n, ngates, mode, meas):
    """meas: 'none' | 'trailing' | 'mid' (mid-circuit and trailing)."""
    codes = []
    reg = 0
    for _ in range(ngates):
        if meas == "mid" and rng.random() < 0.12:
            k = 1 if rng.random() < 0.85 else min(n, rng.choice([2, 2, 3]))
            qs = rng.sample(range(n), k)
            kw = ""
            if rng.random() < 0.3:
                kw = f", register_name='m{reg}'"
                reg += 1
            elif k == 1 and rng.random() < 0.3:
                kw = ", collapse=True"
            codes.append(f"gates.M({','.join(map(str, qs))}{kw})")
        else:
            codes.append(random_gate(rng, n, mode))
    if meas in ("trailing", "mid"):
        qs = list(range(n))
        rng.shuffle(qs)
        qs = qs[: rng.randint(1, n)]
        # split the measured qubits over 1-3 registers, arbitrary order inside a register
        while qs:
            k = rng.randint(1, len(qs))
            part, qs = qs[:k], qs[k:]
            kw = f", register_name='r{reg}'" if rng.random() < 0.7 else ""
            reg += 1
            codes.append(f"gates.M({','.join(map(str, part))}{kw})")
    return codes


def atlas_graphs(maxn=5):
    out = []
    for G in nx.graph_atlas_g():
        k = G.number_of_nodes()
        if 2 <= k <= maxn and nx.is_connected(G):
            out.append(G)
    return out


def structured_graphs(rng, thorough):
    gs = [nx.path_graph(5), nx.path_graph(6), nx.path_graph(7), nx.cycle_graph(6), nx.cycle_graph(7),
          nx.star_graph(5), nx.star_graph(6), nx.grid_2d_graph(2, 3), nx.grid_2d_graph(2, 4),
          nx.path_graph(8), nx.cycle_graph(8)]
    for k in (6, 7, 8):
        for _ in range(3 if thorough else 1):
            # random labelled tree from a random Pruefer-like attachment
            T = nx.Graph()
            T.add_node(0)
            for v in range(1, k):
                T.add_edge(v, rng.randrange(v))
            gs.append(T)
    return [nx.convert_node_labels_to_integers(g) for g in gs]


def label_graph(rng, G, style):
    """node labels of the given style and a wire order: returns (wire_names, edges).
    'id': labels 0..n-1 in natural wire order; 'perm': integer labels, shuffled assignment
    and shuffled wire order; 'str': string labels, shuffled wire order."""
    n = G.number_of_nodes()
    if style == "str":
        names = list(rng.choice([["q%d" % i for i in range(n)], ["A", "b", "C3", "d_", "E", "f", "G", "h9"][:n]]))
    else:
        names = list(range(n))
    if style != "id":
        rng.shuffle(names)
    lab = {v: names[i] for i, v in enumerate(sorted(G.nodes))}
    edges = [(lab[a], lab[b]) for a, b in G.edges]
    rng.shuffle(edges)
    edges = [e if rng.random() < 0.5 else (e[1], e[0]) for e in edges]
    wire_names = list(names)
    if style == "id":
        wire_names = list(range(n))
    else:
        rng.shuffle(wire_names)
    return wire_names, edges


def deferred_cases():
    """input class of a repaired defect: a measurement that is final on its qubit but not
    trailing in the queue, followed by gates that need a SWAP on that wire (routed in place
    it became a collapsing measurement and its register vanished from the results)."""
    out = []
    for router in ("ShortestPaths", "Sabre"):
        for n in (4, 5):
            for seed in (1, 2, 3):
                for mq, tail in (("1", []), ("1", [f"gates.M(0,{n-1}, register_name='b')"]), ("2,1", ["gates.M(0)"]),
                                 ("1", [f"gates.X({n-1})"])):
                    opts = {"seed": seed} if router == "ShortestPaths" else {"seed": seed, "swap_threshold": [0.1, 1.5, 1.5][seed - 1]}
                    out.append({"router": router, "n": n, "nodes": list(range(n)), "wire_names": list(range(n)),
                                "edges": list(nx.path_graph(n).edges), "opts": opts, "exact": True,
                                "gates": ["gates.X(1)", f"gates.M({mq}, register_name='a')", "gates.X(0)",
                                          f"gates.CNOT(0,{n-1})", f"gates.CNOT({n-1},0)"] + tail})
    for mid, names in ((2, [0, 1, 2, 3, 4]), (0, ["c", "x", "y", "z", "w"])):
        leaves = [i for i in range(5) if i != mid]
        edges = [(names[mid], names[i]) for i in leaves]
        for mq, tail in ((f"{mid}", []), (f"{mid}", [f"gates.M({leaves[0]},{leaves[1]}, register_name='b')"]),
                         (f"{leaves[2]},{mid}", [f"gates.X({leaves[3]})"])):
            out.append({"router": "StarConnectivityRouter", "n": 5, "nodes": list(names), "wire_names": list(names),
                        "edges": edges, "opts": {}, "exact": True,
                        "gates": [f"gates.X({mid})", f"gates.M({mq}, register_name='a')",
                                  f"gates.CZ({leaves[0]},{leaves[1]})", f"gates.CNOT({leaves[1]},{leaves[3]})"] + tail})
    return out


def sabre_opts(rng):
    return {
        "lookahead": rng.choice([0, 1, 2, 2, 3]),
        "decay_lookahead": rng.choice([0.0, 0.6, 0.6, 1.0]),
        "delta": rng.choice([0.001, 0.001, 0.5]),
        "swap_threshold": rng.choice([0.1, 0.4, 1.5, 1.5, 3.0]),
        "seed": rng.randrange(1000),
    }


def make_case(rng, G, router, style, ngates, mode, meas, dm=False):
    wire_names, edges = label_graph(rng, G, style)
    n = len(wire_names)
    opts = sabre_opts(rng) if router == "Sabre" else ({"seed": rng.randrange(1000)} if router == "ShortestPaths" and rng.random() < 0.85 else {})
    return {"router": router, "n": n, "nodes": list(wire_names), "wire_names": list(wire_names), "edges": edges,
            "opts": opts, "gates": random_recipe(rng, n, ngates, mode, meas), "exact": mode not in ("float", "named"), "dm": dm}


# ---------------------------------------------------------------------------
# recording the action sequence of a real run


class Recorder:
    """wraps CircuitMap.update / undo / execute_block (class level, this process only) and
    records every call made on the router's own circuit map, with the state after it."""

    def __init__(self, router, tagger):
        self.router = router
        self.tag = tagger
        self.actions = []

    def __enter__(self):
        from qibo.transpiler import router as R

        self.R = R
        CM = R.CircuitMap
        self.orig = (CM.update, CM.undo, CM.execute_block)
        rec = self

        def is_main(cm):
            return cm is getattr(rec.router, "circuit_map", None)

        def snap(cm):
            if len(rec.actions) > 4000:
                raise RuntimeError("more than 4000 routing actions on a circuit of at most 30 gates")
            try:  # reading the block list has no side effect on the measurement gates
                bl = cm._routed_blocks()
                k = sum(len(b.gates) for b in bl)
                last = next((b.gates[-1] for b in reversed(bl) if b.gates), None)
            except AttributeError:
                gl = list(cm.routed_circuit().queue)
                k, last = len(gl), (gl[-1] if gl else None)
            return (list(cm.physical_to_logical), list(cm.logical_to_physical), k, rec.tag(last) if last is not None else None)

        def update(cm, logical_swap):
            out = rec.orig[0](cm, logical_swap)
            if is_main(cm):
                rec.actions.append((("S", int(logical_swap[0]), int(logical_swap[1])), snap(cm)))
            return out

        def undo(cm):
            out = rec.orig[1](cm)
            if is_main(cm):
                rec.actions.append((("Z",), snap(cm)))
            return out

        def execute_block(cm, block):
            gs = [rec.tag(g) for g in block.gates] if is_main(cm) else None
            out = rec.orig[2](cm, block)
            if gs is not None:
                rec.actions.append((("X", gs), snap(cm)))
            return out

        CM.update, CM.undo, CM.execute_block = update, undo, execute_block
        return self

    def __exit__(self, *a):
        CM = self.R.CircuitMap
        CM.update, CM.undo, CM.execute_block = self.orig
        return False


class Tagger:
    """gate -> (tag, meas, qubits); tag 0 = SWAP, 1 = plain measurement."""

    def __init__(self, collapse_tags=False):
        # star model: tag 1 = final (non-collapsing) measurement, 2 = collapsing measurement
        self.collapse_tags = collapse_tags
        self.tags = {("SWAP", (), -1): 0, ("M",): 1, ("M", True): 2}

    def __call__(self, g):
        s = SPEC["sig"](g)
        if self.collapse_tags and isinstance(g, gates.M) and g.collapse:
            s = ("M", True)
        t = self.tags.setdefault(s, len(self.tags))
        return (t, 1 if isinstance(g, gates.M) else 0, tuple(int(q) for q in g.qubits))


def gtoks(g):
    return f"{g[0]} {g[1]} {len(g[2])} " + " ".join(map(str, g[2]))


def gstr(g):
    return f"{g[0]} {g[1]} {len(g[2])} " + " ".join(map(str, g[2]))


def split_input(queue, tag):
    """(body, final measurements) as the routers see the queue: the final measurements
    (non-collapsing ones anywhere + the trailing ones, original order) are detached and kept
    whole; in the remaining body multi-qubit measurements are split into plain one-qubit
    measurements (only if there is one)."""
    fin = SPEC["final_measurements"](queue)
    body = SPEC["body_gates"](queue)
    multi = any(isinstance(g, gates.M) and len(g.qubits) > 1 for g in body)
    out = []
    for g in body:
        if multi and isinstance(g, gates.M) and len(g.qubits) > 1:
            out += [(1, 1, (int(q),)) for q in g.qubits]
        else:
            out.append(tag(g))
    return out, [tag(g) for g in fin]


def projections_equal(a, b):
    """spec of 'same circuit up to commuting gates on different qubits'."""
    if sorted(a) != sorted(b):
        return False
    qs = {q for g in a for q in g[2]}
    return all([g for g in a if q in g[2]] == [g for g in b if q in g[2]] for q in qs)


# ---------------------------------------------------------------------------
# the suites


class Suite:
    def __init__(self, ctx):
        self.ctx = ctx
        self.lines = []  # driver lines
        self.expect = []  # (kind, expected string / callback data, case)
        self.bad = {"replay": 0, "star": 0, "dag": 0, "pick": 0, "guard": 0, "blocks": 0,
                    "blocksmodel": 0, "blockshelper": 0, "blocksprop": 0, "blockspick": 0}
        self.reported = set()
        self.detail = {}

    def note(self, suite, msg):
        self.bad[suite] += 1
        self.detail.setdefault(suite, msg)


def fail_case(ctx, case, calls, bad, broken):
    """report a failing input (shrunk) for the kinds in `bad`."""
    kinds = {k for k, _ in bad}
    run_case = SPEC["run_case"]
    # shrink the gate list while the same kinds of failure stay
    cur = dict(case)
    gl = list(case["gates"])
    changed = "hangs" not in kinds
    budget = 150
    import time as _time
    t_end = _time.time() + 45
    while changed and budget > 0 and _time.time() < t_end:
        changed = False
        for i in range(len(gl) - 1, -1, -1):
            budget -= 1
            if budget <= 0 or _time.time() > t_end:
                break
            trial = gl[:i] + gl[i + 1:]
            cur["gates"] = trial
            try:
                b2 = run_case(cur, calls)
            except Exception:
                continue
            if kinds <= {k for k, _ in b2}:
                gl = trial
                changed = True
    cur["gates"] = gl
    try:
        b2 = run_case(cur, calls) or bad
    except Exception:
        b2, cur = bad, case
    for kind in sorted(kinds):
        det = next((d for k, d in b2 if k == kind), "")
        ctx.fail(f"registers-dropped:{case['router']}" if kind == "registers-dropped" else f"{case['router']}:{kind}",
                 f"{case['router']} on graph {cur['edges']} wires {cur['wire_names']}: {det}",
                 replay_code(cur, calls, {kind}), expected="no violation of C09", observed=[list(b) for b in b2][:4],
                 broken=broken)


def route_and_record(ctx, st, case, record=True):
    """one real run: direct property check + recorded action sequence queued for the Lean
    replay.  returns the list of property violations."""
    G = SPEC["build_graph"](case["edges"], case["nodes"])
    c = SPEC["build_circuit"](case["n"], case["wire_names"], case["gates"], case.get("dm", False))
    before = SPEC["snapshot"](c)
    router = SPEC["make_router"](case["router"], G.copy(), case.get("opts", {}))
    tag = Tagger(collapse_tags=case["router"] == "StarConnectivityRouter")
    n = case["n"]
    try:
        if record and case["router"] != "StarConnectivityRouter":
            with Recorder(router, tag) as rec:
                with SPEC["time_limit"](20):
                    routed, layout = router(c)
            actions = rec.actions
        else:
            with SPEC["time_limit"](20):
                routed, layout = router(c)
            actions = None
    except Exception as e:
        if case["router"] == "StarConnectivityRouter" and type(e).__name__ == "ConnectivityError":
            # the model says whether the real loop raises (lookahead over a >2-qubit gate)
            inp = [tag(g) for g in c.queue]
            mid = star_middle(case)
            st.lines.append(f"STAR {n} {mid} {len(inp)} " + " ".join(gtoks(g) for g in inp))
            st.expect.append(("star", "ERR", case))
        return [(SPEC["raise_kind"](e, c.queue), f"{type(e).__name__}: {e}")]
    bad = SPEC["check_routing"](c, G, routed, layout, case.get("exact", True), before)
    wn = list(case["wire_names"])
    idx = {w: i for i, w in enumerate(wn)}
    real_routed = [tag(g) for g in routed.queue]
    lay = [layout[wn[i]] for i in range(n)] if isinstance(layout, dict) and set(layout) == set(wn) else []
    if case["router"] == "StarConnectivityRouter":
        inp = [tag(g) for g in c.queue]
        mid = star_middle(case)
        st.lines.append(f"STAR {n} {mid} {len(inp)} " + " ".join(gtoks(g) for g in inp))
        st.expect.append(("star", " , ".join(gstr(g) for g in real_routed) + " | " + " ".join(map(str, lay)), case))
        return bad
    if actions is None:
        return bad
    inp, fms = split_input(c.queue, tag)
    edges = [(idx[a], idx[b]) for a, b in case["edges"]]
    toks = [f"REPLAY {n} {len(edges)}"] + [f"{a} {b}" for a, b in edges]
    toks.append(str(len(inp) + len(fms)))
    toks += [gtoks(g) for g in inp + fms]
    toks.append(str(len(fms)))
    toks += [gtoks(g) for g in fms]
    toks.append(str(len(actions)))
    exp = ""
    executed = []
    for act, (p2l, l2p, nrt, lastg) in actions:
        if act[0] == "X":
            toks.append(f"X {len(act[1])} " + " ".join(gtoks(g) for g in act[1]))
            executed += act[1]
            ctx.stat("action_exec")
        elif act[0] == "S":
            toks.append(f"S {act[1]} {act[2]}")
            ctx.stat("action_swap")
        else:
            toks.append("Z")
            ctx.stat("action_undo")
        last = gstr(lastg) if lastg is not None else "-"
        exp += f"{' '.join(map(str, p2l))} | {' '.join(map(str, l2p))} | {nrt} | {last} ;"
    exp += " F " + " , ".join(gstr(g) for g in real_routed) + " L " + " ".join(map(str, lay))
    st.lines.append(" ".join(toks))
    st.expect.append(("replay", exp, case))
    # spec-level order check of the real execution order (independent of the Lean checker)
    if not projections_equal(inp + fms, executed + fms):
        st.note("pick", f"execution order of {case['router']} is not a reordering of commuting gates: {case['gates']}")
        bad.append(("order", "blocks were executed in an order that does not respect the input's dependencies"))
    return bad


def star_middle(case):
    G = SPEC["build_graph"](case["edges"], case["nodes"])
    mid = [v for v in G.nodes if G.degree(v) == 4][0]
    return list(case["wire_names"]).index(mid)


def process_driver(ctx, st):
    if not st.lines:
        return
    res = run_driver(st.lines, driver=DRIVER)
    for line, (kind, exp, case) in zip(res, st.expect):
        if kind == "replay":
            parts = line.split(" # ")
            state = parts[0]
            guards, maps, pick = (parts + ["", "", ""])[1:4]
            if state.strip() != exp.strip():
                a, b = state.split(";"), exp.split(";")
                k = next((i for i, (x, y) in enumerate(zip(a, b)) if x.strip() != y.strip()), min(len(a), len(b)))
                st.note("replay", f"model and CircuitMap disagree at action {k}: model `{a[k].strip() if k < len(a) else ''}` "
                                  f"real `{b[k].strip() if k < len(b) else ''}` case {json.dumps(case)[:700]}")
                case["_corr"] = True
            if "0" in guards:
                st.note("guard", f"action {guards.index('0')} of the real run violates its guard (SWAP or block on a non-edge): {json.dumps(case)[:600]}")
                case["_guard"] = True
            if "0" in maps:
                st.note("replay", f"maps are not inverse permutations after action {maps.index('0')}: {json.dumps(case)[:600]}")
            if pick.strip() != "1":
                st.note("pick", f"pickCheck rejects the real execution order: {json.dumps(case)[:600]}")
        elif kind == "star":
            line, _, gbit = line.partition(" # ")
            if gbit.strip() == "0":
                st.note("guard", f"an action of the star loop violates its guard on the star graph: {json.dumps(case)[:600]}")
            if line.strip() != exp.strip():
                st.note("star", f"star model `{line.strip()[:300]}` real `{exp.strip()[:300]}` case {json.dumps(case)[:600]}")
                case["_corr"] = True
        elif kind == "pick":
            want, what = exp
            if line.strip() != want:
                st.note("blocks", f"pickCheck={line.strip()} expected {want}: {what}")
        elif kind == "blocks_model":
            real, with_ids, n, fuse, codes = exp
            body, _, pick = line.partition(" # ")
            if body.strip() == "ERR" or real == "ERR":
                if not (body.strip() == "ERR" and real == "ERR"):
                    st.note("blocksmodel", f"block_decomposition(fuse={fuse}) of {codes} on {n} qubits: model `{body.strip()[:200]}` real `{str(real)[:200]}`")
                continue
            model = []
            for blk in (body.split(" ; ") if body.strip() else []):
                qs, _, gl = blk.partition(" | ")
                gs = []
                for gtxt in (gl.split(" , ") if gl.strip() else []):
                    t = [int(x) for x in gtxt.split()]
                    gs.append((t[0] if with_ids else None, t[1], t[2], tuple(t[4:4 + t[3]])))
                model.append((tuple(int(x) for x in qs.split()), gs))
            if model != real:
                k = next((i for i, (x, y) in enumerate(zip(model, real)) if x != y), min(len(model), len(real)))
                st.note("blocksmodel", f"block_decomposition(fuse={fuse}) of {codes} on {n} qubits: block {k} differs: model "
                                       f"{model[k] if k < len(model) else None} real {real[k] if k < len(real) else None}")
            if pick.strip() != "1":
                st.note("blockspick", f"pickCheck rejects the model's blocks of {codes} (fuse={fuse})")
        elif kind == "blocks_helper":
            cmd, want, src = exp
            if line.strip() != want.strip():
                st.note("blockshelper", f"{cmd}: model `{line.strip()}` real `{want}` on `{src[:300]}`")
        elif kind == "dag":
            edges = [int(x) for x in line.split()]
            model = nx.DiGraph()
            model.add_nodes_from(range(exp[0]))
            model.add_edges_from(zip(edges[0::2], edges[1::2]))
            if set(nx.transitive_closure(model).edges) != exp[1]:
                st.note("dag", f"_create_dag closure differs from the model's: pairs {exp[2]}")
    st.lines, st.expect = [], []


# ---------------------------------------------------------------------------


def router_suites(ctx, st):
    rng = ctx.rng
    th = ctx.thorough
    atlas = atlas_graphs(5)
    structured = structured_graphs(rng, th)
    failing = []

    def one(G, router, style, ngates, mode, meas, calls=1, dm=False):
        case = make_case(rng, G, router, style, ngates, mode, meas, dm)
        ctx.stat(f"router_{router}")
        ctx.stat(f"labels_{style}")
        ctx.stat(f"mode_{mode}_{meas}")
        ctx.stat(f"n_{case['n']}")
        bad = route_and_record(ctx, st, case)
        ctx.case((router, case["n"], tuple(case["edges"]), tuple(case["gates"])))
        if [k for k, _ in bad] == ["raises:KeyError"]:
            # known input class (split of a mid-circuit multi-qubit measurement): keep the
            # coverage of this case with the measurement reduced to its first qubit
            failing.append((case, 1, bad))
            import re as _re
            gl = list(case["gates"])
            ntr = 0
            while ntr < len(gl) and gl[len(gl) - 1 - ntr].startswith("gates.M("):
                ntr += 1
            case = dict(case, gates=[_re.sub(r"gates\.M\((\d+)(?:,\d+)+", r"gates.M(\1", g) if i < len(gl) - ntr else g
                                     for i, g in enumerate(gl)])
            ctx.stat("reduced_after_known_split_defect")
            bad = route_and_record(ctx, st, case)
        if calls > 1 and not bad:
            b2 = SPEC["run_case"](case, calls)
            bad = b2
        if bad:
            failing.append((case, calls if any(k == "reuse" for k, _ in bad) else 1, bad))
        return case, bad

    # F12 class first: long paths, far-apart two-qubit gates, ShortestPaths and Sabre fallback
    for n in (4, 5, 6, 7):
        for (a, b) in ((0, n - 1), (n - 1, 0), (1, n - 1)):
            for router, opts in (("ShortestPaths", {"seed": 1}), ("Sabre", {"seed": 1, "swap_threshold": 0.1}),
                                 ("Sabre", {"seed": 2})):
                case = {"router": router, "n": n, "nodes": list(range(n)), "wire_names": list(range(n)),
                        "edges": list(nx.path_graph(n).edges), "opts": opts,
                        "gates": [f"gates.CNOT({a},{b})", f"gates.Unitary(np.array([[1,1],[0,1]]), {a}, check_unitary=False)"],
                        "exact": True}
                bad = route_and_record(ctx, st, case)
                ctx.case((router, n, "path", a, b))
                ctx.stat("far_pair_on_path")
                if bad:
                    failing.append((case, 1, bad))
    # boundary circuits
    for router in ("ShortestPaths", "Sabre"):
        for gl in ([], ["gates.X(0)"], ["gates.M(0,1)"], ["gates.M(1)", "gates.M(0, register_name='z')"],
                   ["gates.X(2)", "gates.M(2)", "gates.X(0)"], ["gates.CNOT(2,0)"] * 3,
                   ["gates.CNOT(0,2)", "gates.M(0,1,2)"], ["gates.M(0,2)", "gates.CNOT(0,2)", "gates.M(1,0)"]):
            case = {"router": router, "n": 3, "nodes": ["a", "b", "c"], "wire_names": ["b", "c", "a"],
                    "edges": [("a", "b"), ("c", "a")], "opts": {"seed": 3}, "gates": gl, "exact": True}
            bad = route_and_record(ctx, st, case)
            ctx.case((router, "boundary", tuple(gl)))
            if bad:
                failing.append((case, 1, bad))

    for case in deferred_cases():
        bad = route_and_record(ctx, st, case)
        ctx.case((case["router"], "deferred", tuple(case["gates"]), repr(case["opts"])))
        ctx.stat("final_not_trailing_measurement_then_swap")
        if bad:
            failing.append((case, 1, bad))

    styles = ["id", "perm", "str"]
    reps = 20 if th else 5
    # all connected graphs on <= 5 nodes
    for G in atlas:
        for router in ("ShortestPaths", "Sabre"):
            for r in range(reps):
                style = styles[(rng.randrange(3) + r) % 3]
                mode = rng.choice(["int", "int", "float", "det"])
                meas = rng.choice(["none", "trailing", "mid", "mid"])
                one(G, router, style, rng.randint(3, 25 if G.number_of_nodes() > 3 else 12), mode, meas,
                    calls=2 if rng.random() < 0.25 else 1, dm=rng.random() < 0.1)
    # structured larger graphs
    for G in structured:
        for router in ("ShortestPaths", "Sabre"):
            for r in range(8 if th else 2):
                one(G, router, rng.choice(styles), rng.randint(6, 25), rng.choice(["int", "int", "float"]),
                    rng.choice(["none", "trailing", "mid"]), calls=2 if rng.random() < 0.15 else 1)
    # star router: every position of the centre, every label style
    for r in range(240 if th else 40):
        G = nx.star_graph(4)
        one(G, "StarConnectivityRouter", styles[r % 3], rng.randint(2, 25), rng.choice(["int", "int", "float", "det"]),
            rng.choice(["none", "trailing", "mid"]), calls=2 if r % 4 == 0 else 1)
    # star router, trailing measurement of more than two qubits after a gate needing a swap
    case = {"router": "StarConnectivityRouter", "n": 5, "nodes": list(range(5)), "wire_names": list(range(5)),
            "edges": [(2, 0), (2, 1), (2, 3), (2, 4)], "opts": {},
            "gates": ["gates.CZ(0,1)", "gates.M(0,1,3)"], "exact": True}
    bad = route_and_record(ctx, st, case)
    if bad:
        failing.append((case, 1, bad))
    # reuse of one router object (second call differs from first?)
    for router in ("ShortestPaths", "Sabre"):
        for style in ("perm", "str", "perm", "str") if th else ("perm", "str"):
            G = rng.choice([g for g in atlas if g.number_of_nodes() >= 3])
            case = make_case(rng, G, router, style, rng.randint(3, 10), "int", "trailing")
            ctx.stat("reuse_cases")
            b = SPEC["run_case"](case, 3)
            ctx.case((router, "reuse", tuple(case["edges"]), tuple(case["gates"])))
            if b:
                failing.append((case, 3, b))
    return failing


def reassign_suite(ctx):
    """a router object whose `.connectivity` is reassigned between calls (Passes does it on
    every call): all three routers, G1 -> G2 and G1 -> G2 -> G1, construction with None then
    assignment; every call checked against the graph current at that call."""
    rng = ctx.rng
    th = ctx.thorough
    nbad = 0
    reported = set()

    def names_for(style, n):
        if style == "str":
            names = list(rng.choice([["q%d" % i for i in range(n)], ["A", "b", "C3", "d_", "E", "f", "G", "h9"][:n]]))
        else:
            names = list(range(n))
        if style != "id":
            rng.shuffle(names)
        wires = list(names)
        if style != "id":
            rng.shuffle(wires)
        return names, wires

    def edges_of(G, names):
        es = [(names[a], names[b]) for a, b in G.edges]
        rng.shuffle(es)
        return [e if rng.random() < 0.5 else (e[1], e[0]) for e in es]

    def shuffled(G):
        n = G.number_of_nodes()
        perm = list(range(n))
        rng.shuffle(perm)
        return nx.relabel_nodes(G, {v: perm[i] for i, v in enumerate(sorted(G.nodes))})

    def star(centre):
        G = nx.Graph()
        G.add_nodes_from(range(5))
        G.add_edges_from((centre, v) for v in range(5) if v != centre)
        return G

    def report(case, bad):
        nonlocal nbad
        nbad += 1
        key = f"{case['router']}:reassigned-connectivity"
        if key in reported:
            return
        reported.add(key)
        cur = dict(case)
        # shrink: fewer calls first (keep the last two graphs), then fewer gates per call
        run = SPEC["run_reassign"]
        try:
            if len(cur["graphs"]) > 2:
                t = dict(cur, graphs=cur["graphs"][-2:], gates=cur["gates"][-2:])
                if run(t):
                    cur = t
            budget = 80
            for k in range(len(cur["gates"])):
                gl = list(cur["gates"][k])
                i = len(gl) - 1
                while i >= 0 and budget > 0:
                    budget -= 1
                    trial = gl[:i] + gl[i + 1:]
                    t = dict(cur, gates=cur["gates"][:k] + [trial] + cur["gates"][k + 1:])
                    try:
                        if run(t):
                            gl, cur = trial, t
                    except Exception:
                        pass
                    i -= 1
            b2 = run(cur) or bad
        except Exception:
            cur, b2 = case, bad
        code = (SPEC_SRC + "\ncase = " + repr(cur) + "\nbad = run_reassign(case)\nprint(bad)\nassert not bad, bad\n")
        ctx.fail(key, f"{case['router']} object reused after `router.connectivity` was reassigned "
                      f"(graphs {cur['graphs']}, wires {cur['wire_names']}): {b2[0][1]}",
                 code, expected="every call respects the graph assigned before it (C09 on the current graph)",
                 observed=[list(b) for b in b2][:3], broken=["C09_search_reassigned"])

    def go(case, what):
        ctx.stat("reassign_cases")
        ctx.stat(f"reassign_{case['router']}")
        ctx.case(("reassign", case["router"], what, repr(case["graphs"]), repr(case["gates"])))
        try:
            bad = SPEC["run_reassign"](case)
        except Exception as e:
            bad = [("reassigned-connectivity", f"harness: {type(e).__name__}: {e}")]
        if bad:
            report(case, bad)

    styles = ["id", "perm", "str"]
    # star router: every ordered pair of different centres (20), three label styles over the run
    pairs = [(a, b) for a in range(5) for b in range(5) if a != b]
    rng.shuffle(pairs)
    for r, (c1, c2) in enumerate(pairs if th else pairs[:12]):
        for rep in range(3 if th else 1):
            style = styles[(r + rep) % 3]
            names, wires = names_for(style, 5)
            seq = [c1, c2] if (r + rep) % 3 else [c1, c2, c1]
            none_first = (r + rep) % 4 == 3
            widx = {w: i for i, w in enumerate(wires)}
            gates_seq = []
            for c in seq:
                # a two-qubit gate between two leaves of the CURRENT star forces a SWAP through its centre
                leaves = [widx[names[v]] for v in range(5) if v != c]
                a, b = rng.sample(leaves, 2)
                meas = rng.choice(["none", "trailing"])
                gl = random_recipe(rng, 5, rng.randint(1, 10), rng.choice(["int", "int", "det"]), meas)
                gl.insert(0, f"gates.CZ({a},{b})")
                gates_seq.append(gl)
            case = {"router": "StarConnectivityRouter", "opts": {}, "n": 5, "nodes": list(names), "wire_names": list(wires),
                    "graphs": [edges_of(star(c), names) for c in seq], "gates": gates_seq, "none_first": none_first, "exact": True}
            go(case, "star")
    # ShortestPaths / Sabre: paths, rings, stars, trees on the same node set with other adjacency
    def family(n):
        T = nx.Graph()
        T.add_node(0)
        for v in range(1, n):
            T.add_edge(v, rng.randrange(v))
        return [nx.path_graph(n), nx.cycle_graph(n), nx.star_graph(n - 1), T]

    for router in ("ShortestPaths", "Sabre"):
        for r in range(36 if th else 10):
            n = rng.choice([4, 5, 5, 6])
            style = styles[r % 3]
            names, wires = names_for(style, n)
            k = 2 if r % 3 else 3
            fam = family(n)
            Gs = [shuffled(rng.choice(fam)) for _ in range(2)]
            tries = 0
            while set(map(frozenset, Gs[0].edges)) == set(map(frozenset, Gs[1].edges)) and tries < 10:
                Gs[1] = shuffled(rng.choice(fam))
                tries += 1
            seqG = Gs if k == 2 else [Gs[0], Gs[1], Gs[0]]
            widx = {w: i for i, w in enumerate(wires)}
            gates_seq = []
            for G in seqG:
                # a two-qubit gate on a NON-edge of the current graph, so that SWAPs are needed
                non = [(a, b) for a in range(n) for b in range(n) if a != b and not G.has_edge(a, b)]
                gl = random_recipe(rng, n, rng.randint(2, 12), rng.choice(["int", "int", "det"]), rng.choice(["none", "trailing"]))
                if non:
                    a, b = rng.choice(non)
                    gl.insert(0, f"gates.CNOT({widx[names[a]]},{widx[names[b]]})")
                gates_seq.append(gl)
            opts = sabre_opts(rng) if router == "Sabre" else {"seed": rng.randrange(1000)}
            case = {"router": router, "opts": opts, "n": n, "nodes": list(names), "wire_names": list(wires),
                    "graphs": [edges_of(G, names) for G in seqG], "gates": gates_seq, "none_first": r % 4 == 3, "exact": True}
            go(case, "general")
    ctx.ob("C09_search_reassigned", nbad == 0, "search", f"{nbad} failing cases" if nbad else "")


def wire_order_suite(ctx):
    """one router object, 2-4 calls, every call with another permutation of the node labels
    as wire_names and another circuit content; all three routers; with and without
    re-assigning the same graph object to `router.connectivity` between the calls."""
    rng = ctx.rng
    th = ctx.thorough
    run = SPEC["run_wire_orders"]
    atlas = [g for g in atlas_graphs(5) if g.number_of_nodes() >= 3]
    extra = [nx.path_graph(5), nx.path_graph(6), nx.cycle_graph(6), nx.star_graph(5), nx.grid_2d_graph(2, 3)]
    extra = [nx.convert_node_labels_to_integers(g) for g in extra]
    nbad = 0
    reported = set()

    def sequence(router, G, style, reassign, ncalls):
        n = G.number_of_nodes()
        if style == "str":
            names = list(rng.choice([["q%d" % i for i in range(n)], ["A", "b", "C3", "d_", "E", "f", "G", "h9"][:n]]))
        else:
            names = list(range(n))
        if style != "id":
            rng.shuffle(names)
        lab = {v: names[i] for i, v in enumerate(sorted(G.nodes))}
        edges = [(lab[a], lab[b]) for a, b in G.edges]
        rng.shuffle(edges)
        mode = rng.choice(["int", "int", "float"])
        calls = []
        prev = None
        for k in range(ncalls):
            wires = list(names)
            if not (k == 0 and style == "id"):
                for _ in range(5):
                    rng.shuffle(wires)
                    if wires != prev:
                        break
            prev = list(wires)
            calls.append({"wire_names": wires,
                          "gates": random_recipe(rng, n, rng.choice([0, 2, 5, 9, 14, 20]), mode, rng.choice(["none", "trailing", "mid"]))})
        opts = sabre_opts(rng) if router == "Sabre" else ({"seed": rng.randrange(1000)} if router == "ShortestPaths" else {})
        return {"router": router, "n": n, "nodes": list(names), "edges": edges, "opts": opts, "calls": calls,
                "reassign": reassign, "exact": mode != "float"}

    def report(case, bad):
        nonlocal nbad
        nbad += 1
        key = f"{case['router']}:reuse:wire-order"
        if key in reported:
            return
        reported.add(key)
        cur = case
        import time as _time
        t_end = _time.time() + 40
        try:
            # fewer calls: keep the first call and the failing one
            kfail = next((k for k in range(1, len(cur["calls"])) if run(dict(cur, calls=[cur["calls"][0], cur["calls"][k]]))), None)
            if kfail is not None:
                cur = dict(cur, calls=[cur["calls"][0], cur["calls"][kfail]])
            for k in range(len(cur["calls"])):
                gl = list(cur["calls"][k]["gates"])
                i = len(gl) - 1
                while i >= 0 and _time.time() < t_end:
                    trial = gl[:i] + gl[i + 1:]
                    calls = list(cur["calls"])
                    calls[k] = dict(calls[k], gates=trial)
                    t = dict(cur, calls=calls)
                    if run(t):
                        gl, cur = trial, t
                    i -= 1
            bad = run(cur) or bad
        except Exception:
            cur = case
        code = (SPEC_SRC + "\ncase = " + repr(cur) + "\nbad = run_wire_orders(case)\nprint(bad)\nassert not bad, bad\n")
        ctx.fail(key, f"{case['router']} object reused with another wire order on graph {cur['edges']}"
                      f"{' (connectivity re-assigned to the same graph object between calls)' if cur.get('reassign') else ''}: {bad[0][1]}",
                 code, expected="every call satisfies C09 for its own wire_names", observed=[list(b) for b in bad][:3],
                 broken=["C09_search_reuse_wire_order"])

    # directed: 5 wires A..E on a line, second call uses another order (string, int, permuted int labels)
    directed = []
    for router in ("ShortestPaths", "Sabre"):
        for names in (["A", "B", "C", "D", "E"], [0, 1, 2, 3, 4], [3, 0, 4, 1, 2]):
            for reassign in (False, True):
                edges = [(names[i], names[i + 1]) for i in range(4)]
                gl = ["gates.CNOT(0,1)", "gates.CNOT(1,2)", "gates.CNOT(2,3)", "gates.CNOT(3,4)", "gates.CNOT(4,0)",
                      "gates.Unitary(np.array([[1,1],[0,1]]), 2, check_unitary=False)", "gates.M(0,3, register_name='a')"]
                w2 = [names[i] for i in (2, 0, 3, 1, 4)]
                w3 = [names[i] for i in (4, 3, 2, 1, 0)]
                directed.append({"router": router, "n": 5, "nodes": list(names), "edges": edges,
                                 "opts": {"seed": 4}, "reassign": reassign, "exact": True,
                                 "calls": [{"wire_names": list(names), "gates": gl}, {"wire_names": w2, "gates": gl},
                                           {"wire_names": w3, "gates": gl[:3]}]})
    for names in (["A", "B", "C", "D", "E"], [0, 1, 2, 3, 4]):
        edges = [(names[0], names[i]) for i in range(1, 5)]
        gl = ["gates.CZ(1,2)", "gates.CNOT(3,4)", "gates.CNOT(0,2)", "gates.M(1,4, register_name='a')"]
        directed.append({"router": "StarConnectivityRouter", "n": 5, "nodes": list(names), "edges": edges, "opts": {},
                         "reassign": False, "exact": True,
                         "calls": [{"wire_names": list(names), "gates": gl},
                                   {"wire_names": [names[i] for i in (3, 1, 0, 4, 2)], "gates": gl}]})
    for case in directed:
        ctx.case(("wire-order-directed", case["router"], repr(case["nodes"]), case["reassign"]))
        ctx.stat("wire_order_sequences")
        bad = run(case)
        if bad:
            report(case, bad)
    for r in range(150 if th else 36):
        router = ["ShortestPaths", "Sabre", "StarConnectivityRouter"][r % 3]
        G = nx.star_graph(4) if router == "StarConnectivityRouter" else rng.choice(atlas + extra)
        case = sequence(router, G, ["perm", "str", "id"][(r // 3) % 3], reassign=(r // 9) % 2 == 1, ncalls=rng.randint(2, 4))
        ctx.case(("wire-order", router, tuple(case["edges"]), tuple(tuple(c["wire_names"]) for c in case["calls"])))
        ctx.stat("wire_order_sequences")
        ctx.stat("wire_order_calls", len(case["calls"]))
        bad = run(case)
        if bad:
            report(case, bad)
    ctx.ob("C09_search_reuse_wire_order", nbad == 0, "search", f"{nbad} failing sequences" if nbad else "")


def samples_suite(ctx):
    """execute input and routed circuit (monomial gates: deterministic outcomes) and compare
    the reported frequencies per register."""
    rng = ctx.rng
    bad = 0
    atlas = [g for g in atlas_graphs(5) if g.number_of_nodes() >= 3]
    directed = deferred_cases()
    directed = directed if ctx.thorough else directed[::3]
    for r in range(len(directed) + (60 if ctx.thorough else 18)):
        if r < len(directed):
            case = directed[r]
            router = case["router"]
        else:
            router = ["ShortestPaths", "Sabre", "StarConnectivityRouter"][r % 3]
            G = nx.star_graph(4) if router == "StarConnectivityRouter" else rng.choice(atlas)
            case = make_case(rng, G, router, rng.choice(["id", "perm", "str"]), rng.randint(3, 14), "det", "trailing")
        Gx = SPEC["build_graph"](case["edges"], case["nodes"])
        c = SPEC["build_circuit"](case["n"], case["wire_names"], case["gates"])
        try:
            with SPEC["time_limit"](20):
                routed, layout = SPEC["make_router"](router, Gx, case["opts"])(c)
            c2 = SPEC["build_circuit"](case["n"], case["wire_names"], case["gates"])
            f_in = c2(nshots=3).frequencies(registers=True)
            f_out = routed(nshots=3).frequencies(registers=True)
            same = {k: dict(v) for k, v in f_in.items()} == {k: dict(v) for k, v in f_out.items()} and list(f_in) == list(f_out)
        except Exception as e:
            same, f_in, f_out = False, None, f"{type(e).__name__}: {e}"
        ctx.case(("samples", router, tuple(case["gates"])))
        ctx.stat("samples_cases")
        if not same:
            bad += 1
            code = (SPEC_SRC + "\ncase = " + repr(case) + "\nG = build_graph(case['edges'], case['nodes'])\n"
                    "c = build_circuit(case['n'], case['wire_names'], case['gates'])\n"
                    "routed, layout = make_router(case['router'], G, case['opts'])(c)\n"
                    "c2 = build_circuit(case['n'], case['wire_names'], case['gates'])\n"
                    "a = c2(nshots=3).frequencies(registers=True); b = routed(nshots=3).frequencies(registers=True)\n"
                    "print(a, b)\nassert {k: dict(v) for k, v in a.items()} == {k: dict(v) for k, v in b.items()} and list(a) == list(b)\n")
            ctx.fail(f"{router}:samples", f"measured frequencies per register differ between input and routed circuit: {case['gates']}",
                     code, expected=str(f_in), observed=str(f_out), broken=["C09_search_samples"])
    ctx.ob("C09_search_samples", bad == 0, "search", f"{bad} cases" if bad else "")


def asserts_suite(ctx):
    """transpiler/asserts.py against the executable spec: assert_connectivity and
    assert_circuit_equivalence accept every correct routing and reject a routing whose
    reported layout is wrong / that leaves the graph."""
    from qibo.transpiler.asserts import assert_circuit_equivalence, assert_connectivity

    rng = ctx.rng
    bad = 0
    atlas = [g for g in atlas_graphs(5) if g.number_of_nodes() >= 3]
    for r in range(40 if ctx.thorough else 14):
        router = ["ShortestPaths", "Sabre", "StarConnectivityRouter"][r % 3]
        G = nx.star_graph(4) if router == "StarConnectivityRouter" else rng.choice(atlas)
        case = make_case(rng, G, router, rng.choice(["id", "perm", "str"]), rng.randint(3, 12), "named", "none")
        Gx = SPEC["build_graph"](case["edges"], case["nodes"])
        c = SPEC["build_circuit"](case["n"], case["wire_names"], case["gates"])
        n = case["n"]
        wn = case["wire_names"]
        try:
            with SPEC["time_limit"](20):
                routed, layout = SPEC["make_router"](router, Gx.copy(), case["opts"])(c)
        except Exception:
            continue  # reported by the router suites
        if SPEC["check_routing"](c, Gx, routed, layout, False):
            continue  # idem
        ctx.case(("asserts", router, tuple(case["gates"])))
        ctx.stat("asserts_cases")
        pre = (SPEC_SRC + "\nfrom qibo.transpiler.asserts import assert_circuit_equivalence, assert_connectivity\ncase = " + repr(case)
               + "\nG = build_graph(case['edges'], case['nodes'])\nc = build_circuit(case['n'], case['wire_names'], case['gates'])\n"
               "routed, layout = make_router(case['router'], G.copy(), case['opts'])(c)\n")

        def report(key, what, code):
            nonlocal bad
            bad += 1
            ctx.fail(key, what + f" ({router}, gates {case['gates']})", pre + code, broken=["C09_search_asserts"])

        try:
            assert_connectivity(Gx, routed)
            assert_circuit_equivalence(c, routed, layout)
        except Exception as e:
            report("asserts:rejects-correct", f"asserts reject a correct routing: {type(e).__name__}: {e}",
                   "assert_connectivity(G, routed); assert_circuit_equivalence(c, routed, layout)\n")
            continue
        # wrong layout: exchange two images; if the operator identity then fails, the assert must raise
        a, b = rng.sample(range(n), 2)
        wrong = dict(layout)
        wrong[wn[a]], wrong[wn[b]] = layout[wn[b]], layout[wn[a]]
        if any(k == "operator" for k, _ in SPEC["check_routing"](c, Gx, routed, wrong, False)):
            try:
                assert_circuit_equivalence(c, routed, wrong)
                report("asserts:accepts-wrong-layout", f"assert_circuit_equivalence accepts the wrong layout {wrong}",
                       f"wrong = {wrong!r}\ntry:\n    assert_circuit_equivalence(c, routed, wrong)\nexcept Exception:\n    raise SystemExit(0)\nraise SystemExit(1)\n")
            except Exception:
                pass
        # a circuit with a two-qubit gate outside the graph must be rejected
        non = [(i, j) for i in range(n) for j in range(n) if i != j and not Gx.has_edge(wn[i], wn[j])]
        if non:
            i, j = rng.choice(non)
            c2 = SPEC["build_circuit"](n, wn, case["gates"] + [f"gates.CZ({i},{j})"])
            try:
                assert_connectivity(Gx, c2)
                report("asserts:accepts-non-edge", f"assert_connectivity accepts CZ({i},{j}) on a non-edge",
                       f"c2 = build_circuit(case['n'], case['wire_names'], case['gates'] + ['gates.CZ({i},{j})'])\ntry:\n    assert_connectivity(G, c2)\nexcept Exception:\n    raise SystemExit(0)\nraise SystemExit(1)\n")
            except Exception:
                pass
    ctx.ob("C09_search_asserts", bad == 0, "search", f"{bad} cases" if bad else "")


def blocks_and_dag_suite(ctx, st):
    """block_decomposition and _create_dag on the real code."""
    from qibo.transpiler.blocks import block_decomposition
    from qibo.transpiler.router import _create_dag

    rng = ctx.rng
    nbad = 0
    for r in range(1500 if ctx.thorough else 200):
        n = rng.randint(2, 6)
        mode = rng.choice(["int", "float", "det"])
        meas = rng.choice(["none", "trailing", "mid", "mid"])
        codes = random_recipe(rng, n, rng.randint(0, 25), mode, meas)
        c = SPEC["build_circuit"](n, list(range(n)), codes)
        tag = Tagger()
        before = SPEC["snapshot"](c)
        for fuse in (True, False):
            try:
                with SPEC["time_limit"](10):
                    blocks = block_decomposition(c, fuse=fuse)
            except Exception as e:
                nbad += 1
                code = (SPEC_SRC + "\nfrom qibo.transpiler.blocks import block_decomposition\n"
                        f"c = build_circuit({n}, list(range({n})), {codes!r})\nblock_decomposition(c, fuse={fuse})\n")
                known = isinstance(e, KeyError) and "already exists in circuit" in str(e) and SPEC["split_clash_class"](c.queue, False)
                ctx.fail("blocks:raises" if known else f"blocks:raises:{type(e).__name__}",
                         f"block_decomposition(fuse={fuse}) of {codes} raises {type(e).__name__}: {e}", code,
                         expected="a list of blocks", observed=f"{type(e).__name__}: {e}", broken=["C09_search_blocks"])
                continue
            multi = any(isinstance(g, gates.M) and len(g.qubits) > 1 for g in c.queue)
            inp = []
            for g in c.queue:
                if multi and isinstance(g, gates.M) and len(g.qubits) > 1:
                    inp += [(1, 1, (int(q),)) for q in g.qubits]
                else:
                    inp.append(tag(g))
            flat = [tag(g) for b in blocks for g in b.gates]
            ok = projections_equal(inp, flat)
            shape = all(len(b.qubits) == 2 and b.qubits[0] != b.qubits[1] and all(0 <= q < n for q in b.qubits)
                        and all(set(g.qubits) <= set(b.qubits) for g in b.gates) for b in blocks)
            ctx.case(("blocks", n, fuse, tuple(codes)))
            ctx.stat("blocks_cases")
            st.lines.append(f"PICK {len(inp)} " + " ".join(gtoks(g) for g in inp) + f" {len(flat)} " + " ".join(gtoks(g) for g in flat))
            st.expect.append(("pick", ("1" if ok else "0", f"blocks of {codes}"), None))
            if not (ok and shape) or before != SPEC["snapshot"](c):
                nbad += 1
                what = ("flatten(blocks) is not the input up to commuting gates on different qubits" if not ok else
                        "a block is not a set of gates inside two distinct qubits" if not shape else "input circuit modified")
                code = (SPEC_SRC + PROJ_SRC + "\nfrom qibo.transpiler.blocks import block_decomposition\n"
                        f"c = build_circuit({n}, list(range({n})), {codes!r})\nbefore = snapshot(c)\n"
                        f"blocks = block_decomposition(c, fuse={fuse})\n"
                        "assert blocks_ok(c, blocks) and before == snapshot(c)\n")
                ctx.fail("blocks:" + ("order" if not ok else "shape" if not shape else "mutation"),
                         f"block_decomposition(fuse={fuse}) of {codes}: {what}", code,
                         expected="per-qubit gate sequences unchanged", observed=[[list(b.qubits), [g.name for g in b.gates]] for b in blocks][:8],
                         broken=["C09_search_blocks"])
            if fuse:
                pairs = [tuple(b.qubits) for b in blocks]
                with SPEC["time_limit"](10):
                    dag = _create_dag(pairs)
                want = set()
                dep = nx.DiGraph()
                dep.add_nodes_from(range(len(pairs)))
                dep.add_edges_from((i, j) for i in range(len(pairs)) for j in range(i + 1, len(pairs)) if set(pairs[i]) & set(pairs[j]))
                want = set(nx.transitive_closure(dep).edges)
                got = set(nx.transitive_closure(dag).edges)
                ctx.stat("dag_cases")
                st.lines.append(f"DAG {len(pairs)} " + " ".join(f"2 {a} {b}" for a, b in pairs))
                st.expect.append(("dag", (len(pairs), got, pairs), None))
                if got != want or set(dag.nodes) != set(range(len(pairs))):
                    nbad += 1
                    code = ("import networkx as nx\nfrom qibo.transpiler.router import _create_dag\n"
                            f"pairs = {pairs!r}\ndag = _create_dag(pairs)\ndep = nx.DiGraph(); dep.add_nodes_from(range(len(pairs)))\n"
                            "dep.add_edges_from((i, j) for i in range(len(pairs)) for j in range(i + 1, len(pairs)) if set(pairs[i]) & set(pairs[j]))\n"
                            "assert set(nx.transitive_closure(dag).edges) == set(nx.transitive_closure(dep).edges)\n")
                    ctx.fail("dag:order", f"_create_dag({pairs}) does not order exactly the blocks that share a qubit", code,
                             expected=sorted(want)[:20], observed=sorted(got)[:20], broken=["C09_search_blocks"])
    # random pair lists for the DAG (more shapes than block decompositions give)
    for r in range(600 if ctx.thorough else 150):
        n = rng.randint(2, 6)
        pairs = [tuple(sorted(rng.sample(range(n), 2))) for _ in range(rng.randint(0, 14))]
        with SPEC["time_limit"](10):
            dag = _create_dag(pairs)
        dep = nx.DiGraph()
        dep.add_nodes_from(range(len(pairs)))
        dep.add_edges_from((i, j) for i in range(len(pairs)) for j in range(i + 1, len(pairs)) if set(pairs[i]) & set(pairs[j]))
        want, got = set(nx.transitive_closure(dep).edges), set(nx.transitive_closure(dag).edges)
        st.lines.append(f"DAG {len(pairs)} " + " ".join(f"2 {a} {b}" for a, b in pairs))
        st.expect.append(("dag", (len(pairs), got, pairs), None))
        ctx.case(("dag", tuple(pairs)))
        ctx.stat("dag_cases")
        if got != want or set(dag.nodes) != set(range(len(pairs))):
            nbad += 1
            code = ("import networkx as nx\nfrom qibo.transpiler.router import _create_dag\n"
                    f"pairs = {pairs!r}\ndag = _create_dag(pairs)\ndep = nx.DiGraph(); dep.add_nodes_from(range(len(pairs)))\n"
                    "dep.add_edges_from((i, j) for i in range(len(pairs)) for j in range(i + 1, len(pairs)) if set(pairs[i]) & set(pairs[j]))\n"
                    "assert set(nx.transitive_closure(dag).edges) == set(nx.transitive_closure(dep).edges)\n")
            ctx.fail("dag:order", f"_create_dag({pairs}) does not order exactly the blocks that share a qubit", code,
                     expected=sorted(want)[:20], observed=sorted(got)[:20], broken=["C09_search_blocks"])
    ctx.ob("C09_search_blocks", nbad == 0, "search", f"{nbad} cases" if nbad else "")


def blocks_model_suite(ctx, st):
    """tie of the Lean transliteration of blocks.py (QV/Model/Blocks.lean): exact comparison
    of block contents (sorted qubits, gate OBJECTS by position in the queue, gate data) of the
    real `block_decomposition(fuse=True/False)` with the model's, exhaustively for small
    circuits and on seeded random ones; the helper functions `_find_previous_gates`,
    `_find_successive_gates`, `_gates_on_qubit` are compared one by one on random lists."""
    from qibo.transpiler import blocks as B
    from qibo.transpiler._exceptions import BlockingError

    rng = ctx.rng
    th = ctx.thorough

    def one(n, codes, what):
        try:
            c = SPEC["build_circuit"](n, list(range(n)), codes) if n >= 1 else None
        except Exception:
            return
        tag = Tagger()
        multi = any(isinstance(g, gates.M) and len(g.qubits) > 1 for g in c.queue)
        pos = None if multi else {id(g): i for i, g in enumerate(c.queue)}
        inp = [tag(g) for g in c.queue]
        for fuse in (True, False):
            try:
                with SPEC["time_limit"](10):
                    blocks = B.block_decomposition(c, fuse=fuse)
                real = [(tuple(int(q) for q in b.qubits),
                         [((pos[id(g)] if pos is not None else None),) + tag(g) for g in b.gates]) for b in blocks]
            except BlockingError:
                real = "ERR"
            except Exception:
                continue  # e.g. the known register clash of the measurement split: reported by the search suite
            ctx.case(("blocks_model", n, fuse, tuple(codes)))
            ctx.stat("blocks_model_cases")
            ctx.stat("blocks_model_" + what)
            st.lines.append(f"BLOCKS {n} {1 if fuse else 0} {len(inp)} " + " ".join(gtoks(g) for g in inp))
            st.expect.append(("blocks_model", (real, pos is not None, n, fuse, codes), None))
            if real != "ERR" and not SPEC_BLOCKS["blocks_ok"](c, blocks):
                code = (SPEC_SRC + PROJ_SRC + "\nfrom qibo.transpiler.blocks import block_decomposition\n"
                        f"c = build_circuit({n}, list(range({n})), {codes!r})\n"
                        f"blocks = block_decomposition(c, fuse={fuse})\nassert blocks_ok(c, blocks)\n")
                st.note("blocksprop", f"block_decomposition(fuse={fuse}) of {codes}")
                if "blocks:order:small" not in st.reported:
                    st.reported.add("blocks:order:small")
                    ctx.fail("blocks:order:small", f"block_decomposition(fuse={fuse}) of {codes}: flatten(blocks) is not the input up to "
                             "commuting gates on different qubits, or a block is not inside two distinct qubits", code,
                             expected="per-qubit gate sequences unchanged",
                             observed=[[list(b.qubits), [g.name for g in b.gates]] for b in blocks][:8],
                             broken=["C09_search_blocks_exhaustive", "C09_corr_blocks_model", "C09_corr_blocks_helpers",
                                     "C09_corr_blocks_model_accepted"])

    # exhaustive: every circuit of X / CNOT placements (gate objects differ by identity only)
    def kinds(n):
        return [f"gates.X({q})" for q in range(n)] + [f"gates.CNOT({a},{b})" for a in range(n) for b in range(n) if a != b]

    plan = [(2, 5), (3, 3)] + ([(3, 4), (4, 3)] if th else [])
    for n, maxlen in plan:
        ks = kinds(n)
        for L in range(0, maxlen + 1):
            for combo in itertools.product(ks, repeat=L):
                one(n, list(combo), "exhaustive")
    if not th:
        ks = kinds(3)
        for _ in range(250):
            one(3, [rng.choice(ks) for _ in range(4)], "exhaustive_sampled")
    # boundary: one-qubit circuit, three-qubit gate first / after a two-qubit gate, only measurements
    for n, codes in ((1, ["gates.X(0)"]), (3, ["gates.TOFFOLI(0,1,2)"]), (3, ["gates.CNOT(0,1)", "gates.TOFFOLI(0,1,2)"]),
                     (3, ["gates.X(0)", "gates.TOFFOLI(2,1,0)", "gates.CNOT(0,1)"]), (3, ["gates.M(0,1,2)"]),
                     (3, ["gates.X(2)", "gates.M(0,1)"]), (4, ["gates.M(3)", "gates.X(3)", "gates.M(1)"]),
                     (2, ["gates.X(1)"]), (5, ["gates.X(4)"]), (5, ["gates.Z(4)", "gates.X(0)", "gates.Y(4)", "gates.X(2)"])):
        one(n, codes, "boundary")
    # seeded random circuits: more qubits, longer, many repeated gates on the same pair, measurements
    for r in range(1200 if th else 220):
        n = rng.randint(2, 7)
        meas = rng.choice(["none", "none", "trailing", "mid"])
        mode = rng.choice(["int", "det", "det"])
        if r % 3 == 0:
            # few pairs, many one-qubit gates: long fusions, interleaved successors
            prs = [tuple(rng.sample(range(n), 2)) for _ in range(rng.randint(1, 3))]
            codes = []
            for _ in range(rng.randint(0, 30)):
                if rng.random() < 0.45:
                    a, b = rng.choice(prs)
                    if rng.random() < 0.5:
                        a, b = b, a
                    codes.append(rng.choice(DET_2Q).format(a, b))
                else:
                    codes.append(rng.choice(DET_1Q).format(rng.randrange(n)))
        else:
            codes = random_recipe(rng, n, rng.randint(0, 30), mode, meas)
        one(n, codes, "random")
    # the helper functions one by one
    for r in range(600 if th else 150):
        n = rng.randint(2, 6)
        gl = []
        for _ in range(rng.randint(0, 14)):
            if rng.random() < 0.35:
                a, b = rng.sample(range(n), 2)
                gl.append(gates.CZ(a, b))
            else:
                gl.append(gates.X(rng.randrange(n)) if rng.random() < 0.8 else gates.M(rng.randrange(n)))
        tg = Tagger()
        toks = f"{len(gl)} " + " ".join(gtoks(tg(g)) for g in gl)
        pos = {id(g): i for i, g in enumerate(gl)}
        qs = rng.sample(range(n), 2)
        q = rng.randrange(n)
        ones = [g for g in gl if len(g.qubits) == 1]
        toks1 = f"{len(ones)} " + " ".join(gtoks(tg(g)) for g in ones)
        pos1 = {id(g): i for i, g in enumerate(ones)}
        for cmd, line, want in (
                ("PREV", f"PREV {toks} 2 {qs[0]} {qs[1]}", [pos[id(g)] for g in B._find_previous_gates(gl, tuple(qs))]),
                ("SUCC", f"SUCC {toks} 2 {qs[0]} {qs[1]}", [pos[id(g)] for g in B._find_successive_gates(gl, tuple(qs))]),
                ("ONQ", f"ONQ {toks1} {q}", [pos1[id(g)] for g in B._gates_on_qubit(ones, q)])):
            st.lines.append(line)
            st.expect.append(("blocks_helper", (cmd, " ".join(map(str, want)), line), None))
            ctx.stat("blocks_helper_cases")
            ctx.case(("blocks_helper", line))


PROJ_SRC = r'''
def blocks_ok(c, blocks):
    multi = any(isinstance(g, gates.M) and len(g.qubits) > 1 for g in c.queue)
    inp = []
    for g in c.queue:
        if multi and isinstance(g, gates.M) and len(g.qubits) > 1:
            inp += [(("M",), (q,)) for q in g.qubits]
        else:
            inp.append((sig(g), tuple(g.qubits)))
    flat = [(sig(g), tuple(g.qubits)) for b in blocks for g in b.gates]
    n = c.nqubits
    if sorted(map(repr, inp)) != sorted(map(repr, flat)):
        return False
    for q in range(n):
        if [g for g in inp if q in g[1]] != [g for g in flat if q in g[1]]:
            return False
    return all(len(b.qubits) == 2 and b.qubits[0] != b.qubits[1] and all(0 <= q < n for q in b.qubits)
               and all(set(g.qubits) <= set(b.qubits) for g in b.gates) for b in blocks)
'''


SPEC_BLOCKS = dict(SPEC)
exec(compile(PROJ_SRC, "<C09 blocks spec>", "exec"), SPEC_BLOCKS)


def selftest_spec(ctx):
    """the spec must reject wrong outputs (guards against a vacuous check)."""
    G = nx.path_graph(3)
    c = SPEC["build_circuit"](3, [0, 1, 2], ["gates.CNOT(0,2)", "gates.Unitary(np.array([[1,1],[0,1]]), 0, check_unitary=False)", "gates.M(0,2)"])
    good = SPEC["build_circuit"](3, [0, 1, 2], ["gates.SWAP(0,1)", "gates.CNOT(1,2)", "gates.Unitary(np.array([[1,1],[0,1]]), 1, check_unitary=False)", "gates.M(1,2)"])
    lay = {0: 1, 1: 0, 2: 2}
    ok = SPEC["check_routing"](c, G, good, lay, True) == []
    wrongs = {
        "connectivity": (SPEC["build_circuit"](3, [0, 1, 2], ["gates.SWAP(0,1)", "gates.SWAP(0,1)", "gates.CNOT(0,2)", "gates.Unitary(np.array([[1,1],[0,1]]), 0, check_unitary=False)", "gates.M(0,2)"]), {0: 0, 1: 1, 2: 2}),
        "operator": (SPEC["build_circuit"](3, [0, 1, 2], ["gates.SWAP(0,1)", "gates.CNOT(2,1)", "gates.Unitary(np.array([[1,1],[0,1]]), 1, check_unitary=False)", "gates.M(1,2)"]), lay),
        "layout": (good, {0: 1, 1: 1, 2: 2}),
        "measurements": (SPEC["build_circuit"](3, [0, 1, 2], ["gates.SWAP(0,1)", "gates.CNOT(1,2)", "gates.Unitary(np.array([[1,1],[0,1]]), 1, check_unitary=False)", "gates.M(2,1)"]), lay),
    }
    for kind, (r, l) in wrongs.items():
        got = {k for k, _ in SPEC["check_routing"](c, G, r, l, True)}
        ok = ok and kind in got
    # wrong layout reported for a correct circuit
    got = {k for k, _ in SPEC["check_routing"](c, G, good, {0: 0, 1: 1, 2: 2}, True)}
    ok = ok and "operator" in got
    ok = ok and projections_equal([(5, 0, (0,)), (6, 0, (1,))], [(6, 0, (1,)), (5, 0, (0,))])
    ok = ok and not projections_equal([(5, 0, (0,)), (6, 0, (0, 1))], [(6, 0, (0, 1)), (5, 0, (0,))])
    ctx.ob("C09_spec_selftest", ok, "selftest", "" if ok else "the executable spec accepts a wrong routing")


def run(ctx):
    MODULES, THEOREMS = registry(PROP)
    ctx.theorems = THEOREMS
    build_and_audit(ctx, PROP, MODULES, THEOREMS)
    selftest_spec(ctx)
    st = Suite(ctx)
    failing = router_suites(ctx, st)
    blocks_and_dag_suite(ctx, st)
    blocks_model_suite(ctx, st)
    process_driver(ctx, st)
    reassign_suite(ctx)
    wire_order_suite(ctx)
    samples_suite(ctx)
    asserts_suite(ctx)
    from props import basis_meas
    basis_meas.run(ctx, PROP, ['router-sabre', 'router-shortestpaths', 'router-star', 'router-sabre-twice'])
    # failing inputs on the real code
    seen = set()
    for case, calls, bad in failing:
        kinds = tuple(sorted({k for k, _ in bad}))
        if (case["router"], kinds) in seen:
            continue
        seen.add((case["router"], kinds))
        broken = ["C09_search_property"]
        if case.get("_guard"):
            broken.append("C09_corr_guards")
        if any(k == "order" for k, _ in bad):
            broken.append("C09_corr_order")
        if case.get("_corr"):
            broken.append("C09_corr_replay" if case["router"] != "StarConnectivityRouter" else "C09_corr_star")
        fail_case(ctx, case, calls, bad, broken)
    ctx.ob("C09_search_property", not failing, "search", f"{len(failing)} failing cases; first: {failing[0][2][:2]}" if failing else "")
    ctx.ob("C09_corr_replay", st.bad["replay"] == 0, "correspondence", st.detail.get("replay", ""))
    ctx.ob("C09_corr_guards", st.bad["guard"] == 0, "correspondence", st.detail.get("guard", ""))
    ctx.ob("C09_corr_order", st.bad["pick"] == 0, "correspondence", st.detail.get("pick", ""))
    ctx.ob("C09_corr_star", st.bad["star"] == 0, "correspondence", st.detail.get("star", ""))
    ctx.ob("C09_corr_dag", st.bad["dag"] == 0, "correspondence", st.detail.get("dag", ""))
    ctx.ob("C09_corr_blocks_order", st.bad["blocks"] == 0, "correspondence", st.detail.get("blocks", ""))
    ctx.ob("C09_corr_blocks_model", st.bad["blocksmodel"] == 0, "correspondence", st.detail.get("blocksmodel", ""))
    ctx.ob("C09_corr_blocks_helpers", st.bad["blockshelper"] == 0, "correspondence", st.detail.get("blockshelper", ""))
    ctx.ob("C09_corr_blocks_model_accepted", st.bad["blockspick"] == 0, "correspondence", st.detail.get("blockspick", ""))
    ctx.ob("C09_search_blocks_exhaustive", st.bad["blocksprop"] == 0, "search", st.detail.get("blocksprop", ""))
    # measurement handling + front layer (Model/RouterMeas.lean); after the loop above so that an input
    # class already reported there also explains the obligations of this suite
    import sys
    from props import C09_meas
    C09_meas.run_suites(ctx, sys.modules[__name__])
    # wire names vs node labels of another type (ints, numpy ints, digit strings, mixed)
    from props import C09_labels
    C09_labels.run_suites(ctx, sys.modules[__name__])
    # connectivity graphs whose edges / nodes carry attributes (weights, calibration data)
    from props import C09_attrs
    C09_attrs.run_suites(ctx, sys.modules[__name__])
    ctx.sample({"suite": "action replay", "meaning": "every CircuitMap.update/undo/execute_block call of a real ShortestPaths/Sabre run is replayed by QV.Router.step; p2l, l2p, number of routed gates and the last routed gate are compared after every action, the whole routed gate list and the layout at the end; guard bits and pickCheck come from the Lean side"})
    ctx.sample({"suite": "property search", "meaning": "connectivity of every 2-qubit gate, exact routed == P.U on Gaussian-integer operators (measurements as a fixed non-commuting marker), layout bijection, wire names, trailing measurements with registers, input not mutated, router object reused"})
    ctx.sample({"suite": "blocks model", "meaning": "QV.Blocks.blockDecomposition (transliteration of blocks.py with object identities) against the real block_decomposition for fuse=True/False: sorted qubits of every block and the gate objects in it (position in the queue + class/qubits), all X/CNOT circuits on 2 qubits up to 5 gates and 3 qubits up to 3 gates (thorough: 3 qubits up to 4, 4 qubits up to 3), seeded random circuits up to 7 qubits / 30 gates with measurements, refusals (one qubit, three-qubit gate); _find_previous_gates / _find_successive_gates / _gates_on_qubit one by one"})
    ctx.sample({"suite": "reassigned connectivity", "meaning": "one router object, `router.connectivity = G2` between calls (also G1->G2->G1 and construction with None): every call checked against the graph current at that call; stars with every ordered pair of different centres, paths/rings/stars/trees for ShortestPaths and Sabre"})
    ctx.trusted.append("networkx shortest paths / transitive reduction / topological generations (their outputs are validated per run: guards, order check, DAG closure)")
    ctx.trusted.append("measurements enter the operator identity as a fixed non-commuting 2x2 marker on each measured qubit (their data — qubit order, register name, collapse / basis / p0 / p1 — is compared entry by entry by the measurement-entry replay of props/C09_meas.py)")
    ctx.notes.append("all connected graphs on 2-5 nodes (30) x {ShortestPaths, Sabre} with identity / permuted / string labels, paths-rings-stars-grids-trees up to 8 nodes, random circuits <= 25 gates (integer Unitary, named, controlled_by, parametrised), trailing and mid-circuit measurements, Sabre options incl. swap_threshold small enough to force undo + shortest-path fallback, StarConnectivityRouter on every centre position, second and third call of one router object")
