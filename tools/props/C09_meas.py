"""C09 — measurement handling of the three routers and the front layer of the block DAG:
tie of lean/QV/Model/RouterMeas.lean (theorems in lean/QV/Props/C09d.lean) to
`transpiler/router.py`, plus a direct search of the property on measurement entries.

  * entry replay  every real ShortestPaths / Sabre call is recorded at the CircuitMap level
                  with FULL gate data (class tag, qubits, and for measurements the collapse
                  attribute and the constructor arguments register_name / collapse / basis /
                  p0 / p1) and replayed by `mroute`: the model detaches the final measurements
                  of the input queue itself (`detach`), moves the executed blocks and the
                  detached measurements through the layouts (`QItem.onQubits`) and flags the
                  result as `Circuit.add` does (`addFlags`); every entry of the real routed queue
                  is compared with the model's, and the Lean side evaluates the guards and the
                  order check of the model's body against the real execution order;
  * star          `mstarRoute` side by side with the real StarConnectivityRouter (entries + layout);
  * front layer   every `_update_front_layer` of the real runs is recorded (nodes and edges of
                  the DAG at that moment, resulting front layer) and compared with `frontLayer`;
  * search        independent executable spec on the real output: `routed.measurements` are the
                  input's `measurements` in order, on layout[q] in the original qubit order, with
                  register names, bit-flip probabilities following the qubits, Z basis once the
                  rotations are in the queue; collapsing measurements keep their data.

Circuits: measurements at the start, in the middle and at the end, split registers, final but
not trailing measurements (one and several qubits), collapsing ones (explicit and turned by a
later gate), basis X / Y, p0 / p1 as scalar, list and dict.
"""
from __future__ import annotations

import json

import networkx as nx
import numpy as np

from vlib.driver import run_driver

DRIVER = "DriverC09.lean"

MEAS_SPEC_SRC = r'''
def _bf(m, i):
    return tuple(float(m.bitflip_map[i][q]) for q in m.qubits)


def check_measurement_entries(circuit, routed, layout):
    """C09 on measurement entries: final measurements stay attached to the same logical
    qubits and registers (with their data), collapsing ones keep their data."""
    bad = []
    n = circuit.nqubits
    wn = list(circuit.wire_names)
    if not isinstance(layout, dict) or set(layout.keys()) != set(wn) or sorted(layout.values()) != list(range(n)):
        return [("layout", f"final layout {layout} is not a bijection")]
    f = [layout[wn[l]] for l in range(n)]
    body_multi = any(isinstance(g, gates.M) and len(g.qubits) > 1 for g in body_gates(circuit.queue))
    tin, tout = list(circuit.measurements), list(routed.measurements)
    if len(tout) < len(tin) or (not body_multi and len(tout) != len(tin)):
        bad.append(("measurement-entries", f"{len(tout)} reporting measurements in the output "
                    f"{[(m.register_name, m.qubits) for m in tout]}, {len(tin)} in the input {[(m.register_name, m.qubits) for m in tin]}"))
        return bad
    for a, b in zip(tin, tout[len(tout) - len(tin):]):
        want = tuple(f[q] for q in a.qubits)
        if tuple(b.qubits) != want or regname(a) != regname(b):
            bad.append(("measurement-entries", f"register {a.register_name!r} on logical {a.qubits} -> output {b.register_name!r} on {b.qubits}, expected physical {want}"))
        elif _bf(a, 0) != _bf(b, 0) or _bf(a, 1) != _bf(b, 1):
            bad.append(("measurement-entries", f"bit-flip probabilities of register {a.register_name!r}: input {a.bitflip_map} output {b.bitflip_map} (layout {f})"))
        elif b.collapse or any(x != "Z" for x in b.init_kwargs["basis"]) != any(x != "Z" for x in a.init_kwargs["basis"]):
            bad.append(("measurement-entries", f"register {a.register_name!r}: collapse={b.collapse}, basis {b.init_kwargs['basis']} (input {a.init_kwargs['basis']})"))
    if not body_multi:
        key = lambda m: repr((regname(m), len(m.qubits), _bf(m, 0), _bf(m, 1)))
        cin = sorted(key(m) for m in circuit.queue if isinstance(m, gates.M) and m.collapse)
        cout = sorted(key(m) for m in routed.queue if isinstance(m, gates.M) and m.collapse)
        if cin != cout:
            bad.append(("measurement-entries", f"collapsing measurements of the output {cout} differ from the input's {cin}"))
    return bad


def run_meas_case(case):
    G = build_graph(case["edges"], case["nodes"])
    c = build_circuit(case["n"], case["wire_names"], case["gates"])
    before = snapshot(c)
    try:
        with time_limit(20):
            routed, layout = make_router(case["router"], G.copy(), case.get("opts", {}))(c)
    except Exception as e:
        if case["router"] == "StarConnectivityRouter" and isinstance(e, KeyError) and "Bitflip map" in str(e):
            return [("collapsing-bitflip-rekey", f"{type(e).__name__}: {e}")]
        return [(raise_kind(e, c.queue), f"{type(e).__name__}: {e}")]
    return check_routing(c, G, routed, layout, case.get("exact", True), before) + check_measurement_entries(c, routed, layout)
'''

BASIS = {"Z": 0, "X": 1, "Y": 2}


def _norm(s):
    return " ".join(str(s).split())


def p_code(v):
    return int(round(float(v) * 64))


def pform_tokens(p):
    if p is None:
        return "N"
    if isinstance(p, dict):
        return f"D {len(p)} " + " ".join(f"{int(q)} {p_code(v)}" for q, v in p.items())
    if isinstance(p, (list, tuple)):
        return f"L {len(p)} " + " ".join(str(p_code(v)) for v in p)
    return f"S {p_code(p)}"


def pform_show(p):
    if p is None:
        return "N"
    if isinstance(p, dict):
        return "D " + " ".join(f"{q}:{v}" for q, v in sorted((int(q), p_code(v)) for q, v in p.items()))
    if isinstance(p, (list, tuple)):
        return "L " + " ".join(str(p_code(v)) for v in p)
    return f"S {p_code(p)}"


class Items:
    """gate -> driver tokens / canonical entry string.  Tags: 0 SWAP, 1 non-collapsing
    measurement, 2 collapsing measurement, >= 3 other gates by class + parameters."""

    def __init__(self, base):
        self.base = base
        self.tagger = base.Tagger()
        self.regs = {}

    def reg(self, name):
        if name is None:
            return 0
        return self.regs.setdefault(str(name), len(self.regs) + 1)

    def tokens(self, g):
        gates = self.base.gates
        qs = [int(q) for q in g.qubits]
        if isinstance(g, gates.M):
            kw = g.init_kwargs
            basis = [BASIS.get(b, 9) for b in kw["basis"]]
            return (f"{2 if g.collapse else 1} 1 {len(qs)} {' '.join(map(str, qs))} {int(bool(g.collapse))} 0 "
                    f"{self.reg(kw['register_name'])} {int(bool(kw['collapse']))} {len(basis)} {' '.join(map(str, basis))} "
                    f"{pform_tokens(kw['p0'])} {pform_tokens(kw['p1'])}")
        t = self.tagger(g)[0]
        return f"{t} 0 {len(qs)} {' '.join(map(str, qs))} 0 0 0 0 0 N N"

    def entry(self, g):
        gates = self.base.gates
        qs = " ".join(str(int(q)) for q in g.qubits)
        if isinstance(g, gates.M):
            kw = g.init_kwargs
            basis = " ".join(str(BASIS.get(b, 9)) for b in kw["basis"])
            return _norm(f"m {qs} | {int(bool(g.collapse))} | {self.reg(kw['register_name'])} | {int(bool(kw['collapse']))} | "
                         f"{basis} | {pform_show(kw['p0'])} | {pform_show(kw['p1'])}")
        return _norm(f"g {self.tagger(g)[0]} {qs}")


class FrontRec:
    """records (nodes, edges, front layer) after every `_update_front_layer` of this router."""

    def __init__(self, router):
        self.router = router
        self.rows = []
        self.pairs = None
        self.prev = []
        self.executed = []

    def __enter__(self):
        self.cls = type(self.router)
        self.orig = self.cls.__dict__.get("_update_front_layer")
        rec = self
        if self.orig is not None:
            def wrapped(r, *a, **k):
                out = rec.orig(r, *a, **k)
                if r is rec.router and len(rec.rows) < 400:
                    try:
                        nodes = [int(v) for v in r._dag.nodes]
                        if rec.pairs is None:
                            # first call (preprocessing): every block is still there
                            rec.pairs = [tuple(int(q) for q in r._dag.nodes[v]["qubits"]) for v in sorted(nodes)]
                            if sorted(nodes) != list(range(len(nodes))):
                                rec.pairs = False
                        gone = sorted(v for v in rec.prev if v not in nodes)
                        rec.executed += gone
                        rec.prev = nodes
                        rec.rows.append((nodes, [(int(a), int(b)) for a, b in r._dag.edges],
                                         [int(v) for v in r._front_layer], list(rec.executed)))
                    except Exception:
                        pass
                return out
            self.cls._update_front_layer = wrapped
        return self

    def __exit__(self, *a):
        if self.orig is not None:
            self.cls._update_front_layer = self.orig
        return False


# ---------------------------------------------------------------------------
# generation


def _p_value(rng):
    return rng.choice([0.0, 0.125, 0.25, 0.5, 0.015625, 0.75])


def _p_arg(rng, qs):
    form = rng.choice(["scalar", "list", "dict", "dict"])
    if form == "scalar":
        return repr(float(rng.choice([0.125, 0.25, 0.5])))
    if form == "list":
        return "[" + ", ".join(repr(float(_p_value(rng))) for _ in qs) + "]"
    sub = [q for q in qs if rng.random() < 0.7] or [qs[0]]
    rng.shuffle(sub)
    return "{" + ", ".join(f"{q}: {float(_p_value(rng))!r}" for q in sub) + "}"


def meas_code(rng, qs, regctr, allow_collapse):
    kw = []
    if rng.random() < 0.6:
        kw.append(f"register_name='r{regctr[0]}'")
        regctr[0] += 1
    explicit = allow_collapse and len(qs) == 1 and rng.random() < 0.2
    if explicit:
        kw.append("collapse=True")
    r = rng.random()
    if r < 0.2:
        kw.append("basis=gates." + rng.choice(["X", "Y"]))
    elif r < 0.3 and len(qs) > 1:
        kw.append("basis=[" + ", ".join("gates." + rng.choice(["Z", "X", "Y"]) for _ in qs) + "]")
    if not explicit and rng.random() < 0.5:
        kw.append("p0=" + _p_arg(rng, qs))
        if rng.random() < 0.4:
            kw.append("p1=" + _p_arg(rng, qs))
    elif not explicit and rng.random() < 0.15:
        kw.append("p1=" + _p_arg(rng, qs))
    return f"gates.M({', '.join(map(str, qs))}{''.join(', ' + k for k in kw)})"


def meas_recipe(base, rng, n, mode):
    """gate codes with measurements at the start / middle / end; multi-qubit measurements only
    where no later gate touches them (a multi-qubit measurement in the routed body is the known
    finding K09-1 and is covered by the other suites)."""
    gates = base.gates
    for _ in range(8):
        body = []
        for _ in range(rng.randint(1, 14)):
            code = base.random_gate(rng, n, mode)
            qs = tuple(eval(code, {"gates": gates, "np": np}).qubits)
            body.append((code, qs, False))
        regctr = [0]
        for _ in range(rng.randint(1, 4)):
            where = rng.choice(["start", "middle", "middle", "any", "late"])
            pos = {"start": 0, "middle": rng.randint(0, len(body)), "any": rng.randint(0, len(body)),
                   "late": max(0, len(body) - rng.randint(0, 2))}[where]
            touched = {q for code, qs, ism in body[pos:] if not ism for q in qs}
            quiet = [q for q in range(n) if q not in touched]
            r = rng.random()
            if r < 0.3 and len(quiet) >= 2:
                qs = rng.sample(quiet, rng.randint(2, min(3, len(quiet))))
            elif r < 0.55 and quiet:
                qs = [rng.choice(quiet)]
            else:
                qs = [rng.randrange(n)]
            body.insert(pos, (meas_code(rng, qs, regctr, True), tuple(qs), True))
        codes = [c for c, _, _ in body]
        r = rng.random()
        if r < 0.7:
            # trailing registers: split over 1-3 measurement gates
            qs = list(range(n))
            rng.shuffle(qs)
            qs = qs[: rng.randint(1, n)]
            while qs:
                k = rng.randint(1, len(qs))
                part, qs = qs[:k], qs[k:]
                codes.append(meas_code(rng, part, regctr, rng.random() < 0.3))
        try:
            c = base.SPEC["build_circuit"](n, list(range(n)), codes)
        except Exception:
            continue
        bodyg = base.SPEC["body_gates"](c.queue)
        if any(isinstance(g, gates.M) and len(g.qubits) > 1 for g in bodyg):
            continue   # a rotated-basis measurement made an earlier multi-qubit one collapsing
        return codes
    return ["gates.X(0)", "gates.M(0)"]


DIRECTED = [
    # final but not trailing, dict p0, then gates needing SWAPs on that wire
    ["gates.X(1)", "gates.M(1, register_name='a', p0={1: 0.25})", "gates.X(0)", "gates.CNOT(0,{L})", "gates.CNOT({L},0)"],
    # two-qubit final measurement in front, rotated basis, list p1
    ["gates.M(1, 2, register_name='a', basis=gates.X, p1=[0.125, 0.5])", "gates.CNOT(0,{L})", "gates.M(0, register_name='b')"],
    # collapse-turned measurement with dict p0, explicit collapsing one, trailing split registers
    ["gates.CZ(1,2)", "gates.M(1, p0={1: 0.25})", "gates.X(1)", "gates.M(0, collapse=True)", "gates.CNOT(0,{L})",
     "gates.M(3, register_name='x')", "gates.M(1, 0, register_name='y', p0={0: 0.5})"],
    # measurement at the very start that stays final, Y basis at the end
    ["gates.M(2, register_name='s', p0=0.25)", "gates.CNOT(0,{L})", "gates.CNOT(1,{L})", "gates.M(1, basis=gates.Y)"],
    # the same qubit measured twice (both final), non-trailing
    ["gates.M(1, register_name='u')", "gates.M(1, 2, register_name='v', p0={2: 0.125, 1: 0.5})", "gates.CNOT(0,{L})", "gates.X(0)"],
    # trailing explicit collapsing measurement
    ["gates.CNOT(0,{L})", "gates.M(1, register_name='k')", "gates.X(0)", "gates.M(0, collapse=True)"],
]


def directed_cases():
    out = []
    for router in ("ShortestPaths", "Sabre"):
        for n in (4, 5):
            for seed in (1, 2):
                for gl in DIRECTED:
                    opts = {"seed": seed} if router == "ShortestPaths" else {"seed": seed, "swap_threshold": [0.1, 1.5][seed - 1]}
                    out.append({"router": router, "n": n, "nodes": list(range(n)), "wire_names": list(range(n)),
                                "edges": list(nx.path_graph(n).edges), "opts": opts,
                                "gates": [g.replace("{L}", str(n - 1)) for g in gl], "exact": False})
    for mid, names in ((2, [0, 1, 2, 3, 4]), (0, ["c", "x", "y", "z", "w"]), (4, [3, 1, 4, 0, 2])):
        leaves = [i for i in range(5) if i != mid]
        edges = [(names[mid], names[i]) for i in leaves]
        a, b, c, d = leaves
        for gl in ([f"gates.X({mid})", f"gates.M({mid}, register_name='a', p0={{{mid}: 0.25}})", f"gates.CZ({a},{b})", f"gates.CNOT({b},{d})"],
                   [f"gates.CZ({a},{b})", f"gates.M({a}, p0={{{a}: 0.25}})", f"gates.X({a})", f"gates.M({c})"],
                   [f"gates.CZ({a},{b})", f"gates.M({a},{mid}, p0={{{mid}: 0.25}}, p1=[0.5, 0.125])", f"gates.CZ({c},{d})", f"gates.X({a})", f"gates.M({b}, register_name='t', basis=gates.X)"],
                   [f"gates.M({mid},{a}, register_name='a', basis=[gates.X, gates.Z])", f"gates.CZ({b},{c})", f"gates.M({d}, collapse=True)", f"gates.CZ({b},{d})", f"gates.M({b},{c}, register_name='b', p0={{{c}: 0.5}})"]):
            out.append({"router": "StarConnectivityRouter", "n": 5, "nodes": list(names), "wire_names": list(names),
                        "edges": edges, "opts": {}, "gates": gl, "exact": False})
    return out


# ---------------------------------------------------------------------------


def run_suites(ctx, base):
    SPEC = dict(base.SPEC)
    exec(compile(MEAS_SPEC_SRC, "<C09 measurement spec>", "exec"), SPEC)
    gates = base.gates
    rng = ctx.rng
    th = ctx.thorough
    lines, expect = [], []
    bad = {"entries": 0, "star": 0, "front": 0, "guards": 0, "order": 0, "search": 0}
    detail = {}
    reported = set()

    def note(k, msg):
        bad[k] += 1
        detail.setdefault(k, msg)

    def replay(case, kinds):
        return (base.SPEC_SRC + MEAS_SPEC_SRC + "\ncase = " + repr(case) + "\nbad = run_meas_case(case)\nprint(bad)\n"
                + f"assert not [b for b in bad if b[0] in {sorted(kinds)!r}], bad\n")

    pending = []

    def report(case, found, broken):
        """failing input on the real code (shrunk), one report per router and kind."""
        bad["search"] += 1
        kinds = {k for k, _ in found}
        keyof = lambda kind: ("StarConnectivityRouter:collapsing-bitflip-rekey" if kind == "collapsing-bitflip-rekey"
                              else f"registers-dropped:{case['router']}" if kind == "registers-dropped" else f"{case['router']}:{kind}")
        todo = []
        for kind in sorted(kinds):
            key = keyof(kind)
            prev = next((f for f in ctx.failures if f["key"] == key), None)
            if prev is not None:
                # the same input class was already reported: it also explains these obligations
                prev["broken"] = sorted(set(prev["broken"]) | set(broken))
            elif key not in reported:
                reported.add(key)
                todo.append(kind)
        if not todo:
            return
        cur = dict(case)
        gl = list(case["gates"])
        import time as _t
        t_end = _t.time() + 25
        changed = True
        while changed and _t.time() < t_end:
            changed = False
            for i in range(len(gl) - 1, -1, -1):
                trial = gl[:i] + gl[i + 1:]
                try:
                    b2 = SPEC["run_meas_case"](dict(cur, gates=trial))
                except Exception:
                    continue
                if set(todo) <= {k for k, _ in b2}:
                    gl, changed = trial, True
        cur["gates"] = gl
        try:
            b2 = SPEC["run_meas_case"](cur) or found
        except Exception:
            cur, b2 = case, found
        cur = {k: v for k, v in cur.items() if not k.startswith("_")}
        for kind in todo:
            det = next((d for k, d in b2 if k == kind), "")
            ctx.fail(keyof(kind), f"{case['router']} on graph {cur['edges']} wires {cur['wire_names']}, gates {cur['gates']}: {det}",
                     replay(cur, {kind}), expected="final measurements stay attached to the same logical qubits and registers (C09)",
                     observed=[list(b) for b in b2][:4], broken=broken)

    def one(case, what):
        G = SPEC["build_graph"](case["edges"], case["nodes"])
        c = SPEC["build_circuit"](case["n"], case["wire_names"], case["gates"])
        n = case["n"]
        wn = list(case["wire_names"])
        idx = {w: i for i, w in enumerate(wn)}
        items = Items(base)
        qtoks = [items.tokens(g) for g in c.queue]
        before = SPEC["snapshot"](c)
        router = SPEC["make_router"](case["router"], G.copy(), case.get("opts", {}))
        star = case["router"] == "StarConnectivityRouter"
        ctx.case(("meas", case["router"], what, tuple(case["edges"]), tuple(case["gates"]), repr(case.get("opts"))))
        ctx.stat("meas_cases")
        ctx.stat(f"meas_{case['router']}")
        for g in c.queue:
            if isinstance(g, gates.M):
                fin = g in SPEC["final_measurements"](c.queue)
                ctx.stat("meas_entry_" + ("final_trailing" if g in SPEC["trailing"](c.queue) else "final_not_trailing" if fin
                                           else "collapsing_explicit" if g.init_kwargs["collapse"] else "collapsing_turned"))
                if isinstance(g.init_kwargs["p0"], dict) or isinstance(g.init_kwargs["p1"], dict):
                    ctx.stat("meas_entry_dict_bitflip")
                if len(g.qubits) > 1:
                    ctx.stat("meas_entry_multi_qubit")
        if any(isinstance(g, gates.M) for g in c.queue[:1]):
            ctx.stat("meas_at_start")
        try:
            if star:
                with SPEC["time_limit"](20):
                    routed, layout = router(c)
                actions, fronts = None, []
            else:
                with FrontRec(router) as fr, base.Recorder(router, items.tokens) as rec:
                    with SPEC["time_limit"](20):
                        routed, layout = router(c)
                actions, fronts = rec.actions, fr.rows
        except Exception as e:
            if star and type(e).__name__ == "ConnectivityError":
                lines.append(f"MSTAR {n} {base.star_middle(case)} {len(qtoks)} " + " ".join(qtoks))
                expect.append(("star", "ERR", case))
                return
            kind = SPEC["raise_kind"](e, c.queue)
            if kind == "raises:KeyError":       # known finding K09-1, reported by the other suites
                ctx.stat("meas_known_split_defect")
                return
            if star and isinstance(e, KeyError) and "Bitflip map" in str(e):
                kind = "collapsing-bitflip-rekey"
            pending.append((case, [(kind, f"{type(e).__name__}: {e}")]))
            return
        found = SPEC["check_routing"](c, G, routed, layout, case.get("exact", True), before) \
            + SPEC["check_measurement_entries"](c, routed, layout)
        real = " , ".join(items.entry(g) for g in routed.queue)
        lay = " ".join(str(layout[wn[i]]) for i in range(n)) if isinstance(layout, dict) and set(layout) == set(wn) else "?"
        if star:
            lines.append(f"MSTAR {n} {base.star_middle(case)} {len(qtoks)} " + " ".join(qtoks))
            expect.append(("star", _norm(real + " L " + lay), case))
        else:
            edges = [(idx[a], idx[b]) for a, b in case["edges"]]
            toks = [f"MROUTE {n} {len(edges)}"] + [f"{a} {b}" for a, b in edges] + [str(len(qtoks))] + qtoks + [str(len(actions))]
            for act, _snap in actions:
                if act[0] == "X":
                    toks.append(f"X {len(act[1])} " + " ".join(act[1]))
                elif act[0] == "S":
                    toks.append(f"S {act[1]} {act[2]}")
                else:
                    toks.append("Z")
            lines.append(" ".join(toks))
            nfin = len(SPEC["final_measurements"](c.queue))
            expect.append(("mroute", (_norm(real + " L " + lay), nfin), case))
            for nodes, es, front, done in fronts:
                ctx.stat("front_layers")
                if 0 in nodes and any(a == 0 for a, _ in es):
                    ctx.stat("front_layers_node0_has_successors")
                lines.append(f"FRONT {len(nodes)} " + " ".join(map(str, nodes)) + f" {len(es)} " + " ".join(f"{a} {b}" for a, b in es))
                expect.append(("front", sorted(front), case))
                if fr.pairs:
                    # the same front layer from the model of `_create_dag` (no transitive reduction) and the
                    # blocks executed so far, each of which must have been in the front layer of its moment
                    lines.append(f"FRONTX {len(fr.pairs)} " + " ".join(f"{len(p)} " + " ".join(map(str, p)) for p in fr.pairs)
                                 + f" {len(done)} " + " ".join(map(str, done)))
                    expect.append(("frontx", sorted(front), case))
                    ctx.stat("front_layers_from_pairs")
        if found:
            pending.append((case, found))

    # ---- cases
    for case in directed_cases():
        one(case, "directed")
    atlas = [g for g in base.atlas_graphs(5) if g.number_of_nodes() >= 3]
    extra = [nx.convert_node_labels_to_integers(g) for g in (nx.path_graph(5), nx.path_graph(6), nx.cycle_graph(6), nx.star_graph(5))]
    styles = ["id", "perm", "str"]
    for r in range(420 if th else 90):
        router = ["ShortestPaths", "Sabre", "StarConnectivityRouter"][r % 3]
        G = nx.star_graph(4) if router == "StarConnectivityRouter" else rng.choice(atlas + extra)
        mode = rng.choice(["int", "int", "det", "float"])
        case = base.make_case(rng, G, router, styles[(r // 3) % 3], 0, mode, "none")
        case["gates"] = meas_recipe(base, rng, case["n"], mode)
        case["exact"] = False
        one(case, "random")

    # ---- model side
    res = run_driver(lines, driver=DRIVER) if lines else []
    for line, (kind, exp, case) in zip(res, expect):
        if kind == "mroute":
            want, nfin = exp
            parts = [p.strip() for p in line.split(" # ")]
            state = _norm(parts[0])
            wfb, guards, pick, ndet, tre = (parts + ["", "", "", "", ""])[1:6]
            ok = state == want
            if not ok:
                a, b = state.split(" , "), want.split(" , ")
                k = next((i for i, (x, y) in enumerate(zip(a, b)) if x != y), min(len(a), len(b)))
                note("entries", f"{case['router']}: entry {k} of the routed queue: model `{a[k] if k < len(a) else '-'}` real `{b[k] if k < len(b) else '-'}` "
                                f"case {json.dumps({k2: v for k2, v in case.items() if not k2.startswith('_')})[:700]}")
            if ndet.strip() != str(nfin):
                note("entries", f"{case['router']}: model detaches {ndet} measurements, spec {nfin}: {case['gates']}")
            if "0" in wfb or "0" in guards:
                note("guards", f"{case['router']}: an action of the real run violates its guard (wf {wfb}, edges {guards}): {case['gates']}")
            if pick.strip() != "1":
                note("order", f"{case['router']}: the real execution order is not a commuting reordering of the body the model detaches: {case['gates']}")
            if tre.strip() == "0":
                # hypothesis of T09_meas_registers, on full entries (tags, qubits, flags, constructor arguments)
                note("order", f"{case['router']}: the executed entries are not the body entries of the model's detach up to commuting reorderings: {case['gates']}")
            ctx.stat("meas_traceEq_" + {"1": "evaluated", "0": "failed", "-": "split_body"}.get(tre.strip(), "missing"))
        elif kind == "star":
            if _norm(line) != exp:
                a, b = _norm(line).split(" , "), exp.split(" , ")
                k = next((i for i, (x, y) in enumerate(zip(a, b)) if x != y), min(len(a), len(b)))
                note("star", f"star router: entry {k}: model `{a[k] if k < len(a) else '-'}` real `{b[k] if k < len(b) else '-'}` "
                             f"case {json.dumps({k2: v for k2, v in case.items() if not k2.startswith('_')})[:700]}")
        elif kind == "frontx":
            body, _, legit = line.partition(" # ")
            got = sorted(int(x) for x in body.split())
            if got != exp or legit.strip() != "1":
                note("front", f"{case['router']}: front layer of the real run {exp}; model from the block pairs and the executed blocks {got}, "
                              f"every executed block was in its front layer: {legit.strip()}: {case['gates']}")
        elif kind == "front":
            got = sorted(int(x) for x in line.split())
            if got != exp:
                note("front", f"{case['router']}: front layer of the real run {exp}, model {got}: {case['gates']}")
    names = {"entries": "C09_corr_measurement_entries", "star": "C09_corr_measurement_entries_star",
             "guards": "C09_corr_measurement_guards", "order": "C09_corr_measurement_body_order", "front": "C09_corr_front_layer"}
    broken_now = ["C09_search_measurement_entries"] + [names[k] for k in names if bad[k]]
    for case, found in pending:
        report(case, found, broken_now)
    ctx.ob("C09_corr_measurement_entries", bad["entries"] == 0, "correspondence", detail.get("entries", ""))
    ctx.ob("C09_corr_measurement_entries_star", bad["star"] == 0, "correspondence", detail.get("star", ""))
    ctx.ob("C09_corr_measurement_guards", bad["guards"] == 0, "correspondence", detail.get("guards", ""))
    ctx.ob("C09_corr_measurement_body_order", bad["order"] == 0, "correspondence", detail.get("order", ""))
    ctx.ob("C09_corr_front_layer", bad["front"] == 0, "correspondence", detail.get("front", ""))
    ctx.ob("C09_search_measurement_entries", bad["search"] == 0, "search", f"{bad['search']} failing cases" if bad["search"] else "")
    ctx.sample({"suite": "measurement entries", "meaning": "every entry of the real routed queue (gate tag + qubits; measurements: qubits in order, collapse attribute, register name, collapse / basis / p0 / p1 constructor arguments) equals the entry of addFlags(mroute / mstarRoute) computed by the Lean model from the input queue and the recorded routing actions; the model detaches the final measurements itself; guards and order check evaluated in Lean; front layers of every _update_front_layer compared with frontLayer"})
