"""C16, part 4 — the GLOBAL bounds proved in lean/QV/Props/C16d.lean, evaluated on the real code,
and the clock of the solvers (time-dependent Hamiltonians) compared with the model bit for bit.

Suites (called from props/C16.py::run):
  * `times_suite`            correspondence: the times at which the real `Exponential`,
                             `TrotterizedExponential`, `RungeKutta4`, `RungeKutta45` solvers USE the
                             Hamiltonian during `StateEvolution.execute` / `AdiabaticEvolution`, and the
                             final solver clock, against the model's `readLog` (driver op TIMES),
                             IEEE bit patterns;
  * `global_trotter_search`  `T16_trotter_global_of_le`: ‖circuit(dt).unitary()^k − exp(−i k dt H)‖₂
                             ≤ k·2 r₃(dt L) and the same for the state returned by the real
                             `StateEvolution` (`T16_trotter_evolution_error`);
  * `global_rk_search`       `T16_rk4_global` / `T16_rk45_global` on k real solver steps applied to
                             every basis vector (no normalisation), `T16_rk4_evolution_error` /
                             `T16_rk45_evolution_error` on the real `StateEvolution` with and without
                             callbacks (normalised; factor 2);
  * `global_adiabatic_search` `T16_timed_trotter_vs_frozen_of_le` on the product of the real
                             `SymbolicAdiabaticHamiltonian.circuit(dt, t_j).unitary()` and on the real
                             `AdiabaticEvolution`.
Every bound is required to hold (+1e-9) and the ratios error/bound are recorded in the evidence stats
(`ratio:*`: maximum over the run ×1000), together with the number of cases whose bound is below the
trivial bound 2 — the bounds are not vacuous.
"""
from __future__ import annotations

import math
import struct

import numpy as np
import scipy.linalg as sla

from vlib.driver import run_driver

DRIVER = "DriverC16.lean"
C = None  # the C16 module (helpers: rand_poly, poly_matrix, poly_src, arr_src, fail, PRE, Q, …)


def _bits(x):
    return struct.unpack("<Q", struct.pack("<d", float(x)))[0]


def _unbits(b):
    return struct.unpack("<d", struct.pack("<Q", int(b)))[0]


def exp_rem(N, x):
    """QV.Evo.expRem N x = e^x − Σ_{i<N} x^i/i! (series for small x: no cancellation)."""
    if x < 1.0:
        return sum(x**i / math.factorial(i) for i in range(N, N + 30))
    return math.exp(x) - sum(x**i / math.factorial(i) for i in range(N))


def rk45_loc(x):
    """QV.Evo.rk45Loc"""
    return exp_rem(7, x) + (1 / 720 - 1 / 2080) * x**6


def spec_norm(M):
    return float(np.linalg.norm(np.asarray(M), 2))


BOUND_SRC = (
    "import math\n"
    "def exp_rem(N, x):\n"
    "    return sum(x ** i / math.factorial(i) for i in range(N, N + 30)) if x < 1.0 else math.exp(x) - sum(x ** i / math.factorial(i) for i in range(N))\n"
    "rk45_loc = lambda x: exp_rem(7, x) + (1 / 720 - 1 / 2080) * x ** 6\n"
    "spec = lambda M: float(np.linalg.norm(np.asarray(M), 2))\n"
)


def _ratio(ctx, name, d, bound):
    """record max ratio (×1000, integer so that evidence stays canonical) and non-vacuity counts."""
    if bound > 0:
        r = int(round(1000 * d / bound))
        ctx.stats[f"ratio:{name}:max_x1000"] = max(ctx.stats.get(f"ratio:{name}:max_x1000", 0), r)
    ctx.stat(f"bound:{name}:cases")
    if bound < 2.0:
        ctx.stat(f"bound:{name}:below-trivial-2")
    if bound < 0.1:
        ctx.stat(f"bound:{name}:below-0.1")


# ---------------------------------------------------------------------------
# the clock of the solvers


STAGES = {"exp": 1, "trotter": 1, "rk4": 4, "rk45": 6, "adiabatic": 1}
KIND = {"exp": 0, "trotter": 0, "rk4": 1, "rk45": 2, "adiabatic": 0}

TIMES_SRC = (
    "log = []\n"
    "class TagH(Hamiltonian):\n"
    "    def exp(self, a):\n"
    "        log.append(self.tag); return super().exp(a)\n"
    "    def __matmul__(self, o):\n"
    "        log.append(self.tag); return super().__matmul__(o)\n"
    "class TagS(SymbolicHamiltonian):\n"
    "    def circuit(self, dt, accelerators=None):\n"
    "        log.append(self.tag); return super().circuit(dt, accelerators)\n"
    "def tagged(cls, t, *a, **k):\n"
    "    h = cls(*a, **k); h.tag = t; return h\n"
    "def spec_times(kind, t0, dt, n):\n"
    "    # the SPEC: clock t_0 = t0, t_{j+1} = t_j + dt; reads per step in order of use\n"
    "    out, t = [], t0\n"
    "    for _ in range(n):\n"
    "        out += {'exp': [t], 'trotter': [t], 'adiabatic': [t], 'rk4': [t, t + dt / 2.0, t + dt / 2.0, t + dt],\n"
    "                'rk45': [t, t + dt / 4.0, t + 3 * dt / 8.0, t + 12 * dt / 13.0, t + dt, t + dt / 2.0]}[kind]\n"
    "        t = t + dt\n"
    "    return out, t\n"
    "def run_times(kind, t0, dt, n, cb):\n"
    "    del log[:]\n"
    "    Hm = np.array([[0.3, 0.2 - 0.1j], [0.2 + 0.1j, -0.4]])\n"
    "    cbs = [callbacks.Norm()] if cb else []\n"
    "    T = t0 + n * dt\n"
    "    psi = np.array([0.6, 0.8j])\n"
    "    if kind == 'adiabatic':\n"
    "        ev = models.AdiabaticEvolution(SymbolicHamiltonian(X(0), nqubits=1), SymbolicHamiltonian(0.5 * Z(0) + 0.25 * X(0), nqubits=1), lambda x: x, dt, callbacks=cbs)\n"
    "        ah = ev.hamiltonian; orig = ah.circuit\n"
    "        def circ(dt_, accelerators=None, t=0):\n"
    "            log.append(t); return orig(dt_, accelerators, t)\n"
    "        ah.circuit = circ\n"
    "        ev(final_time=T, initial_state=psi.copy())  # start_time is 0 for AdiabaticEvolution\n"
    "    else:\n"
    "        if kind == 'trotter':\n"
    "            ham = lambda t: tagged(TagS, t, 0.3 * Z(0) + 0.2 * X(0), nqubits=1)\n"
    "        else:\n"
    "            ham = lambda t: tagged(TagH, t, 1, Hm)\n"
    "        ev = models.StateEvolution(ham, dt, solver=('exp' if kind in ('exp', 'trotter') else kind), callbacks=cbs)\n"
    "        ev(final_time=T, start_time=t0, initial_state=psi.copy())\n"
    "    return [float(x) for x in log], float(ev.solver.t), (len(cbs[0].results) if cb else None)\n"
)


def times_suite(ctx):
    rng = ctx.rng
    env = dict(C.Q)
    exec(TIMES_SRC, env)  # noqa: S102 - own text
    cases = []
    fixed = [(0.0, 0.25, 3), (0.0, 0.1, 7), (0.3, 0.1, 4), (1.0, 0.05, 5), (0.5, 0.3, 1), (0.7, 0.15, 0), (0.0, 1.0, 2), (2.0, 0.125, 6)]
    for kind in ("exp", "trotter", "rk4", "rk45", "adiabatic"):
        for t0, dt, n in fixed:
            cases.append((kind, 0.0 if kind == "adiabatic" else t0, dt, max(n, 1) if kind == "adiabatic" else n, (n + len(kind)) % 2 == 0))
        for _ in range(10 if ctx.thorough else 4):
            t0 = 0.0 if kind == "adiabatic" else rng.choice([0.0, round(rng.uniform(0, 2), 3), rng.uniform(0, 1)])
            dt = rng.choice([round(rng.uniform(0.01, 0.5), 3), rng.uniform(0.01, 0.3), 2.0 ** -rng.randint(1, 6)])
            cases.append((kind, t0, dt, rng.randint(1 if kind == "adiabatic" else 0, 9), rng.random() < 0.5))
    lines, reals = [], []
    bad = 0
    for kind, t0, dt, n, cb in cases:
        ctx.case(("times", kind, t0, dt, n, cb))
        ctx.stat(f"times:{kind}")
        src = C.PRE + TIMES_SRC + (
            f"kind = {kind!r}; t0 = {t0!r}; dt = {dt!r}; n = {n}; cb = {cb!r}\n"
            "got, clock, nrec = run_times(kind, t0, dt, n, cb)\nwant, wclock = spec_times(kind, t0, dt, n)\n"
            "print('reads', got, 'expected', want, 'clock', clock, wclock, 'callback records', nrec)\n"
            "sys.exit(0 if got == want and clock == wclock and (nrec is None or nrec == n + 1) else 1)\n")
        try:
            got, clock, nrec = env["run_times"](kind, t0, dt, n, cb)
        except Exception as ex:  # noqa: BLE001
            bad += 1
            C.fail(ctx, f"times:raises:{kind}", f"{kind} evolution with a tagged time-dependent Hamiltonian raises {type(ex).__name__}: {ex}", src, broken=["C16_corr_times"])
            continue
        # the number of steps the real loop made (the step count itself is the business of NSTEPS)
        n_real = len(got) // STAGES[kind] if len(got) % STAGES[kind] == 0 else -1
        if n_real != n or (nrec is not None and nrec != n + 1):
            bad += 1
            C.fail(ctx, f"times:{kind}", f"{kind}: final_time = t0 + {n}·dt (t0={t0!r}, dt={dt!r}) gave {len(got)} Hamiltonian reads ({STAGES[kind]} per step expected) and {nrec} callback records",
                   src, expected=f"{n * STAGES[kind]} reads", observed=len(got), broken=["C16_corr_times"])
            continue
        lines.append(f"TIMES {KIND[kind]} {_bits(t0)} {_bits(dt)} {n} {1 if cb else 0}")
        reals.append((kind, t0, dt, n, cb, got, clock, src))
    answers = run_driver(lines, driver=DRIVER) if lines else []
    for (kind, t0, dt, n, cb, got, clock, src), ans in zip(reals, answers):
        try:
            a, b = ans.split(" ; ") if " ; " in ans else (ans.replace(" ;", ""), "")
            mclock = int(a)
            mlog = [int(x) for x in b.split()]
        except ValueError:
            bad += 1
            ctx.ob("C16_corr_times_driver", False, "correspondence", f"driver answer {ans[:80]!r}")
            continue
        if mlog != [_bits(x) for x in got] or mclock != _bits(clock):
            bad += 1
            want = [_unbits(x) for x in mlog]
            C.fail(ctx, f"times:{kind}",
                   f"{kind} solver, t0={t0!r}, dt={dt!r}, {n} steps{' with callbacks' if cb else ''}: the Hamiltonian is used at times {got} and the clock ends at {clock!r}; "
                   f"the model (clock advanced by dt after every step, stage times of the solver) gives {want} and {_unbits(mclock)!r}",
                   src, expected=want, observed=got, broken=["C16_corr_times"])
    if len(answers) != len(lines):
        bad += 1
    ctx.ob("C16_corr_times", bad == 0, "correspondence", f"{bad} disagreements" if bad else "")


# ---------------------------------------------------------------------------
# global Trotter bound


def _chain_poly(rng, n):
    """terms on the pairs of a chain plus singles: several Trotter groups that do not commute."""
    monos = {}
    for i in range(n - 1):
        if rng.random() < 0.85:
            monos[((i, rng.choice("XYZ")), (i + 1, rng.choice("XYZ")))] = round(rng.uniform(-1, 1), 3) or 0.5
    for i in range(n):
        if rng.random() < 0.7:
            monos[((i, rng.choice("XYZ")),)] = round(rng.uniform(-1, 1), 3) or 0.5
    return [(c, ops) for ops, c in monos.items()]


def _families(ctx, count):
    rng = ctx.rng
    fams = []
    for k in range(count):
        if k % 2 == 0:
            n = rng.randint(3, 4)
            ms = _chain_poly(rng, n)
            if len(ms) < 2:
                continue
            fams.append((n, ms, rng.choice([0, 0.7, -1.3])))
        else:
            n = rng.randint(2, 3)
            ms, const = C.rand_poly(rng, n, rng.randint(2, 6), commuting=(True if k % 4 == 3 else False), integer=False)
            fams.append((n, ms, const))
    # transverse-field Ising chain (two non-commuting groups), a nested single-group shape (exact), XY + Z ring
    fams.append((3, [(1.0, ((0, "Z"), (1, "Z"))), (1.0, ((1, "Z"), (2, "Z"))), (0.9, ((0, "X"),)), (0.9, ((1, "X"),)), (0.9, ((2, "X"),))], 0.0))
    fams.append((3, [(0.7, ((0, "Z"), (1, "Z"), (2, "Z"))), (-0.4, ((2, "X"),)), (0.3, ((1, "Y"), (2, "Z")))], 0.25))
    fams.append((4, [(0.5, ((0, "X"), (1, "X"))), (0.6, ((1, "Y"), (2, "Y"))), (-0.7, ((2, "Z"), (3, "X"))), (0.4, ((0, "Z"),)), (-0.3, ((3, "Y"),))], -1.3))
    return fams


def global_trotter_search(ctx):
    rng = ctx.rng
    ok = True
    for n, ms, const in _families(ctx, 10 if ctx.thorough else 5):
        L = sum(abs(c) for c, _ in ms)
        if L == 0:
            continue
        H0 = C.poly_matrix(ms, 0.0, n)
        psi = C.rstate(rng, n)
        # (x = dt·L, k): T·L = k·x from 0.2 to 6
        for x, k in ((0.02, 10), (0.1, 5), (0.05, 40), (0.3, 3), (0.01, 100), (0.15, 40)):
            dt = x / L
            T = k * dt
            bound = k * 2 * C.rem3(dt * L)
            ctx.case(("global-trotter", C.poly_src(ms, const), dt, k))
            ctx.stat("global:trotter")
            src = C.PRE + BOUND_SRC + (
                f"n = {n}; dt = {dt!r}; k = {k}; const = {const!r}; L = {L!r}\nh = SymbolicHamiltonian({C.poly_src(ms, const)}, nqubits=n)\n"
                f"H0 = sum(MONO(c_, ops, n) for c_, ops in {ms!r})\npsi = {C.arr_src(psi)}\n"
                "bound = k * 2 * exp_rem(3, dt * L)\n"
                "U = np.asarray(h.circuit(dt).unitary()); Ek = sla.expm(-1j * k * dt * H0)\n"
                "Uk = np.linalg.matrix_power(U, k)\n"
                "d = min(spec(Uk - Ek), spec(Uk - np.exp(-1j * k * dt * const) * Ek))\n"
                "out = models.StateEvolution(h, dt)(final_time=k * dt, initial_state=psi.copy())\n"
                "ds = min(np.linalg.norm(out - Ek @ psi), np.linalg.norm(out - np.exp(-1j * k * dt * const) * (Ek @ psi)))\n"
                "print('spectral distance of k steps', d, 'state error', ds, 'proved bound k·2·r3(dt L) =', bound)\n"
                "sys.exit(0 if d <= bound + 1e-9 and ds <= bound + 1e-9 else 1)\n")
            try:
                h = C.sym_ham(ms, const, n)
                U = np.asarray(h.circuit(dt).unitary())
                Ek = sla.expm(-1j * k * dt * H0)
                Uk = np.linalg.matrix_power(U, k)
                ph = np.exp(-1j * k * dt * const)
                d = min(spec_norm(Uk - Ek), spec_norm(Uk - ph * Ek))
                out = C.Q["models"].StateEvolution(h, dt)(final_time=T, initial_state=psi.copy())
                ref = Ek @ psi
                ds = min(float(np.linalg.norm(out - ref)), float(np.linalg.norm(out - ph * ref)))
            except Exception as ex:  # noqa: BLE001
                ok = False
                C.fail(ctx, "global:raises:trotter", f"{type(ex).__name__}: {ex}", src, broken=["C16_search_global_trotter"])
                continue
            _ratio(ctx, "trotter-operator", d, bound)
            _ratio(ctx, "trotter-state", ds, bound)
            if not d <= bound + 1e-9:
                ok = False
                C.fail(ctx, "global:trotter-bound",
                       f"{C.poly_src(ms, const)} (n={n}): ‖circuit({dt}).unitary()^{k} − exp(−i·{k}·dt·H)‖₂ = {d:.3e} exceeds the proved bound k·2·r3(dt·Σ|c|) = {bound:.3e} (T16_trotter_global_of_le)",
                       src, expected=f"<= {bound:.3e}", observed=d, broken=["C16_search_global_trotter"])
            if not ds <= bound + 1e-9:
                ok = False
                C.fail(ctx, "global:trotter-evolution",
                       f"StateEvolution({C.poly_src(ms, const)}, dt={dt})(final_time={T}): {ds:.3e} away from exp(−iTH)ψ, proved bound {bound:.3e} (T16_trotter_evolution_error)",
                       src, expected=f"<= {bound:.3e}", observed=ds, broken=["C16_search_global_trotter"])
    ctx.ob("C16_search_global_trotter", ok, "search", "" if ok else "see failing inputs")


# ---------------------------------------------------------------------------
# global Runge–Kutta bounds


def global_rk_search(ctx):
    rng = ctx.rng
    ok = True
    M = C.Q["models"]
    for rep in range(6 if ctx.thorough else 3):
        n = rng.randint(1, 3)
        ms, const = C.rand_poly(rng, n, rng.randint(2, 5), commuting=None, integer=False)
        Hm = C.poly_matrix(ms, const, n)
        nh = spec_norm(Hm)
        if nh == 0:
            continue
        psi = C.rstate(rng, n)
        for solver, loc in (("rk4", lambda x: exp_rem(5, x)), ("rk45", rk45_loc)):
            for x, k in ((0.1, 10), (0.3, 10), (0.05, 60), (0.5, 4), (0.2, 50)):
                dt = x / nh
                T = k * dt
                e = loc(dt * nh)
                gb = (1 + e) ** k - 1
                ctx.case(("global-rk", solver, n, dt, k))
                ctx.stat(f"global:{solver}")
                locsrc = "exp_rem(5, dt * nh)" if solver == "rk4" else "rk45_loc(dt * nh)"
                src = C.PRE + BOUND_SRC + (
                    f"H = {C.arr_src(Hm)}\npsi = {C.arr_src(psi)}\ndt = {dt!r}; k = {k}; solver = {solver!r}\n"
                    f"nh = spec(H); e = {locsrc}; gb = (1 + e) ** k - 1\n"
                    f"ham = Hamiltonian({n}, H)\nEk = sla.expm(-1j * k * dt * H)\n"
                    "s = solvers.get_solver(solver, dt, ham)\ncols = []\n"
                    "for j in range(H.shape[0]):\n"
                    "    v = np.zeros(H.shape[0], dtype=complex); v[j] = 1\n"
                    "    for _ in range(k): v = s(v)\n"
                    "    cols.append(v)\n"
                    "d = spec(np.array(cols).T - Ek)\n"
                    "o1 = models.StateEvolution(ham, dt, solver=solver)(final_time=k * dt, initial_state=psi.copy())\n"
                    "o2 = models.StateEvolution(ham, dt, solver=solver, callbacks=[callbacks.Norm()])(final_time=k * dt, initial_state=psi.copy())\n"
                    "ds = max(np.linalg.norm(o1 - Ek @ psi), np.linalg.norm(o2 - Ek @ psi))\n"
                    "print('k unnormalised steps vs exp', d, 'bound', gb, '; StateEvolution state error', ds, 'bound', 2 * gb)\n"
                    "sys.exit(0 if d <= gb + 1e-9 and ds <= 2 * gb + 1e-9 else 1)\n")
                try:
                    ham = C.Q["Hamiltonian"](n, Hm.copy())
                    Ek = sla.expm(-1j * k * dt * Hm)
                    s = C.Q["solvers"].get_solver(solver, dt, ham)
                    cols = []
                    for j in range(2**n):
                        v = np.zeros(2**n, dtype=complex)
                        v[j] = 1
                        for _ in range(k):
                            v = s(v)
                        cols.append(v)
                    d = spec_norm(np.array(cols).T - Ek)
                    o1 = M.StateEvolution(ham, dt, solver=solver)(final_time=T, initial_state=psi.copy())
                    o2 = M.StateEvolution(ham, dt, solver=solver, callbacks=[C.Q["callbacks"].Norm()])(final_time=T, initial_state=psi.copy())
                    ref = Ek @ psi
                    ds = max(float(np.linalg.norm(o1 - ref)), float(np.linalg.norm(o2 - ref)))
                except Exception as ex:  # noqa: BLE001
                    ok = False
                    C.fail(ctx, f"global:raises:{solver}", f"{type(ex).__name__}: {ex}", src, broken=["C16_search_global_rk"])
                    continue
                _ratio(ctx, f"{solver}-operator", d, gb)
                _ratio(ctx, f"{solver}-state", ds, 2 * gb)
                if not d <= gb + 1e-9:
                    ok = False
                    C.fail(ctx, f"global:{solver}-bound",
                           f"{k} steps of the real {solver} solver (dt={dt}, dense H on {n} qubits, ‖H‖₂={nh:.4f}) on every basis vector: ‖P^k − exp(−i k dt H)‖₂ = {d:.3e} exceeds the proved (1+ε)^k − 1 = {gb:.3e} "
                           f"(T16_{solver}_global)", src, expected=f"<= {gb:.3e}", observed=d, broken=["C16_search_global_rk"])
                if not ds <= 2 * gb + 1e-9:
                    ok = False
                    C.fail(ctx, f"global:{solver}-evolution",
                           f"StateEvolution(dense H on {n} qubits, dt={dt}, {solver!r})(final_time={T}) with / without callbacks: state error {ds:.3e} exceeds the proved 2((1+ε)^k − 1) = {2 * gb:.3e} "
                           f"(T16_{solver}_evolution_error)", src, expected=f"<= {2 * gb:.3e}", observed=ds, broken=["C16_search_global_rk"])
    ctx.ob("C16_search_global_rk", ok, "search", "" if ok else "see failing inputs")


# ---------------------------------------------------------------------------
# time-dependent Trotter (adiabatic) against the frozen exponentials


def global_adiabatic_search(ctx):
    rng = ctx.rng
    ok = True
    M = C.Q["models"]
    scheds = [("lambda x: x", lambda x: x), ("lambda x: x ** 2", lambda x: x**2), ("lambda x: np.sin(np.pi * x / 2) ** 2", lambda x: math.sin(math.pi * x / 2) ** 2)]
    for rep in range(4 if ctx.thorough else 2):
        n = 3
        # easy Hamiltonian: transverse fields; problem Hamiltonian: a chain (several non-commuting groups)
        ms0 = [(round(-rng.uniform(0.5, 1.0), 3), ((i, "X"),)) for i in range(n)]
        ms1 = _chain_poly(rng, n) if rep % 2 else [(round(rng.uniform(0.3, 1.0), 3), ((i, "Z"), (i + 1, "Z"))) for i in range(n - 1)] + [(0.4, ((1, "Z"),))]
        L0, L1 = sum(abs(c) for c, _ in ms0), sum(abs(c) for c, _ in ms1)
        if L0 == 0 or L1 == 0:
            continue
        H0, H1 = C.poly_matrix(ms0, 0.0, n), C.poly_matrix(ms1, 0.0, n)
        ssrc, sfun = scheds[rep % len(scheds)]
        psi = C.rstate(rng, n)
        for x, k in ((0.05, 8), (0.2, 5), (0.02, 40)):
            dt = x / max(L0, L1)
            Ttot = k * dt
            ctx.case(("global-adiabatic", rep, dt, k))
            ctx.stat("global:adiabatic")
            hs = f"h0 = SymbolicHamiltonian({C.poly_src(ms0, 0.0)}, nqubits={n})\nh1 = SymbolicHamiltonian({C.poly_src(ms1, 0.0)}, nqubits={n})\n"
            src = C.PRE + BOUND_SRC + hs + (
                f"s = {ssrc}\ndt = {dt!r}; k = {k}; Ttot = {Ttot!r}; L0 = {L0!r}; L1 = {L1!r}\nH0 = {C.arr_src(H0)}; H1 = {C.arr_src(H1)}\npsi = {C.arr_src(psi)}\n"
                "ev = models.AdiabaticEvolution(h0, h1, s, dt)\nout = ev(final_time=Ttot, initial_state=psi.copy())\nah = ev.hamiltonian\n"
                "S = np.eye(len(psi), dtype=complex); F = S.copy(); bound = 0.0; t = 0.0\n"
                "for j in range(k):\n"
                "    sj = s(t / Ttot) if t != 0 else 0\n"
                "    S = np.asarray(ah.circuit(dt, t=t).unitary()) @ S\n"
                "    F = sla.expm(-1j * dt * ((1 - sj) * H0 + sj * H1)) @ F\n"
                "    bound += 2 * exp_rem(3, dt * (abs(1 - sj) * L0 + abs(sj) * L1)); t = t + dt\n"
                "d = spec(S - F); ds = float(np.linalg.norm(out - F @ psi))\n"
                "print('product of circuits vs product of frozen exponentials', d, 'state', ds, 'proved bound', bound)\n"
                "sys.exit(0 if d <= bound + 1e-9 and ds <= bound + 1e-9 else 1)\n")
            try:
                env = dict(C.Q)
                exec(hs, env)  # noqa: S102
                ev = M.AdiabaticEvolution(env["h0"], env["h1"], sfun, dt)
                out = ev(final_time=Ttot, initial_state=psi.copy())
                ah = ev.hamiltonian
                S = np.eye(2**n, dtype=complex)
                F = S.copy()
                bound, t = 0.0, 0.0
                for _ in range(k):
                    sj = sfun(t / Ttot) if t != 0 else 0
                    S = np.asarray(ah.circuit(dt, t=t).unitary()) @ S
                    F = sla.expm(-1j * dt * ((1 - sj) * H0 + sj * H1)) @ F
                    bound += 2 * C.rem3(dt * (abs(1 - sj) * L0 + abs(sj) * L1))
                    t = t + dt
                d = spec_norm(S - F)
                ds = float(np.linalg.norm(out - F @ psi))
            except Exception as ex:  # noqa: BLE001
                ok = False
                C.fail(ctx, "global:raises:adiabatic", f"{type(ex).__name__}: {ex}", src, broken=["C16_search_global_adiabatic"])
                continue
            _ratio(ctx, "adiabatic-operator", d, bound)
            _ratio(ctx, "adiabatic-state", ds, bound)
            if not (d <= bound + 1e-9 and ds <= bound + 1e-9):
                ok = False
                C.fail(ctx, "global:adiabatic-bound",
                       f"AdiabaticEvolution(schedule {ssrc}, dt={dt}, {k} steps, n={n}): product of circuit(dt, t_j).unitary() is {d:.3e} (state: {ds:.3e}) away from the product of exp(−i dt H(t_j)); "
                       f"proved bound Σ_j 2·r3(dt·L_j) = {bound:.3e} (T16_timed_trotter_vs_frozen_of_le)",
                       src, expected=f"<= {bound:.3e}", observed=[d, ds], broken=["C16_search_global_adiabatic"])
    ctx.ob("C16_search_global_adiabatic", ok, "search", "" if ok else "see failing inputs")


def run_suites(ctx, c16):
    global C
    C = c16
    times_suite(ctx)
    global_trotter_search(ctx)
    global_rk_search(ctx)
    global_adiabatic_search(ctx)
