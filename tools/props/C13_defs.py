"""C13 (deepening) — the custom-gate machinery of the QASM reader inside the Lean model.

`lean/QV/Model/QasmDef.lean` models `QASMParser._get_gate` / `_def_gate`,
`CustomQASMGate.get_gate` / `_construct_fused_gate` / `_compile_gate_qubits_and_args` and
`FusedGate.append`.  Here the model (driver command `XPD`) is compared with the real
`QASMParser().to_circuit` on generated programs with (nested, redefined, shadowing)
custom gates: queue structure (plain gate / fused gate with its joined qubits), the flat
gate list (class, qubits, parameters — values are compared exactly: the model moves the
argument texts, the harness evaluates the text that arrives), and acceptance/rejection.
The abstraction "a stored gate is `cls(*qubits, *args)`" is checked per class
(`C13_corr_def_storage`).
"""
from __future__ import annotations

import numpy as np

from vlib.driver import run_driver

DRIVER = "DriverC13.lean"
PRE = "import numpy as np, qibo, warnings\nwarnings.simplefilter('ignore')\nfrom qibo import gates, Circuit\nqibo.set_backend('numpy')\n"

# label -> (number of qubits, number of parameters); the labels the generator uses
LABELS = {"h": (1, 0), "x": (1, 0), "s": (1, 0), "tdg": (1, 0), "sx": (1, 0), "id": (1, 0),
          "rx": (1, 1), "ry": (1, 1), "rz": (1, 1), "u1": (1, 1), "u2": (1, 2), "u3": (1, 3), "u": (1, 3),
          "cx": (2, 0), "cz": (2, 0), "swap": (2, 0), "iswap": (2, 0), "crx": (2, 1), "crz": (2, 1),
          "cu1": (2, 1), "cu3": (2, 3), "rxx": (2, 1), "rzz": (2, 1), "ccx": (3, 0), "ccz": (3, 0)}
CLOSED = ["0.5", "1.25", "3", "0.001", "pi", "-pi", "pi/2", "3*pi/4", "-pi/4", "2*pi", "pi/8", "-0.75", "1e-3", "7*pi/2", "2.5e-1", "0"]
FORMALS = ["theta", "phi", "lam", "alpha", "x", "t", "gamma", "w", "pie", "e"]
QFORMALS = ["a", "b", "c", "d"]
DEFNAMES = ["my0", "my1", "blk", "g2", "rot", "ent"]
HIJACK = ["h", "s", "ecr", "cx", "rx"]


def dir_gates():
    """every attribute of qibo.gates with the numbers of positional arguments it accepts
    (lo > hi: not constructible that way)."""
    import inspect

    import qibo

    out = []
    for name in sorted(dir(qibo.gates)):
        obj = getattr(qibo.gates, name)
        lo, hi = 1, 0
        if inspect.isclass(obj):
            try:
                ps = list(inspect.signature(obj.__init__).parameters.values())[1:]
                pos = [p for p in ps if p.kind in (p.POSITIONAL_ONLY, p.POSITIONAL_OR_KEYWORD)]
                lo = sum(1 for p in pos if p.default is p.empty)
                hi = 99 if any(p.kind == p.VAR_POSITIONAL for p in ps) else len(pos)
            except (TypeError, ValueError):
                pass
        out.append((name, lo, hi))
    return out


def flat_real(c):
    """queue of the imported circuit: [("P", prim) | ("F", qubits, [prim])], prim =
    (class name, qubits, parameters)."""
    from qibo import gates

    def prim(g):
        ps = tuple(g.parameters) if isinstance(g, gates.ParametrizedGate) else ()
        return (type(g).__name__, tuple(g.qubits), ps)

    out = []
    for g in c.queue:
        if isinstance(g, gates.FusedGate):
            out.append(("F", tuple(g.qubits), [prim(x) for x in g.gates]))
        else:
            out.append(("P", prim(g)))
    return out


def parse_prim(txt):
    """'CLS q q ( a a )' -> (cls, [q], [arg texts])"""
    head, _, tail = txt.partition("(")
    hs = head.split()
    return hs[0], [int(q) if q.isdigit() else q for q in hs[1:]], tail.rsplit(")", 1)[0].split()


def value_of(tok):
    if tok.startswith("'"):
        return tok.strip("'")
    return eval(tok.replace("pi", "np.pi"))  # the same text the reader evaluates


def ref_prim(cls, qs, args):
    """what the model's `cls(*qs, *args)` is, through the real constructor."""
    from qibo import gates

    g = getattr(gates, cls)(*qs, *[value_of(a) for a in args])
    ps = tuple(g.parameters) if isinstance(g, gates.ParametrizedGate) else ()
    return (type(g).__name__, tuple(g.qubits), ps)


def parse_model(ans):
    """driver answer -> (queue structure | None, flat | None, spec | None)"""
    tree, flat, spec = [x.strip() for x in ans.split("||")]

    def prims(s):
        s = s.strip()
        return [ref_prim(*parse_prim(p)) for p in s.split(" ; ")] if s else []

    if tree == "NONE":
        return None, None, (None if spec == "NONE" else prims(spec))
    q = []
    for ent in tree.split(" | "):
        ent = ent.strip()
        if ent.startswith("P "):
            q.append(("P", ref_prim(*parse_prim(ent[2:]))))
        else:
            cont, _, rest = ent[2:].partition("]")
            q.append(("F", tuple(int(x) for x in cont.strip("[ ").split()), prims(rest)))
    return q, prims(flat), (None if spec == "NONE" else prims(spec))


def same_prim(a, b):
    return a[0] == b[0] and a[1] == b[1] and len(a[2]) == len(b[2]) and all(
        (type(x) is str or type(y) is str) and x == y or (type(x) is not str and type(y) is not str and float(x) == float(y))
        for x, y in zip(a[2], b[2]))


def same_queue(a, b):
    if a is None or b is None:
        return a is None and b is None
    if len(a) != len(b):
        return False
    for x, y in zip(a, b):
        if x[0] != y[0]:
            return False
        if x[0] == "P":
            if not same_prim(x[1], y[1]):
                return False
        else:
            if x[1] != y[1] or len(x[2]) != len(y[2]) or not all(same_prim(p, q) for p, q in zip(x[2], y[2])):
                return False
    return True


def gen_program(rng, kind):
    """(qasm text, driver statements, nqubits, all definitions well scoped?)

    kind: "nested" (valid, nesting depth up to 4), "redefine" (a name defined twice, early
    binding), "hijack" (a definition named like a built-in gate), "unused" (unused formal
    qubits / parameters, duplicate uses), "errors" (arity slips, undefined names, unbound
    body qubits), "plain" (no definitions)."""
    n = rng.randint(2, 5)
    text = ['OPENQASM 2.0;', 'include "qelib1.inc";', f"qreg q[{n}];"]
    stm = []
    defs = []  # visible definitions: name -> (nformals, nqformals); list keeps history
    visible = {}
    err = kind == "errors"

    def closed():
        return rng.choice(CLOSED)

    def call(names_q, names_f, top):
        """one gate statement; names_q: usable qubit operands; names_f: formals"""
        use_def = visible and rng.random() < (0.55 if not top else 0.6)
        usable = [k for k, (nf, nq) in visible.items() if nq <= len(names_q)]
        if use_def and usable:
            name = rng.choice(usable)
            nf, nq = visible[name]
        else:
            name = rng.choice([l for l, (q, _) in LABELS.items() if q <= len(names_q)])
            nq, nf = LABELS[name]
        if err and rng.random() < 0.05 and name != "id":
            nf = max(0, nf + rng.choice([-1, 1]))
        # a surplus qubit operand is generated for user-defined names only (definite arity
        # error): a built-in constructor would take it for a parameter (`rx a,b` =
        # RX(a, theta=b)), which no reading of the program as QASM describes
        if err and rng.random() < 0.05 and nq + 1 <= len(names_q) and name in visible and name not in HIJACK:
            nq += 1
        if err and rng.random() < 0.03:
            name = "nodef"
        qs = rng.sample(names_q, nq)
        if err and not top and rng.random() < 0.04:
            qs[0] = "zz"  # unbound identifier in a body
        args = []
        for _ in range(nf):
            if names_f and rng.random() < 0.65:
                args.append(("S", rng.choice(names_f)))
            else:
                args.append(("V", closed()))
        return name, args, qs

    def call_text(name, args, qs, top):
        a = "(" + ",".join(t for _, t in args) + ")" if args else ""
        q = ",".join(f"q[{x}]" if top else x for x in qs)
        return f"{name}{a} {q};"

    def call_drv(name, args, qs, top):
        t = [name, str(len(args))]
        for k, v in args:
            t += [k, v]
        t.append(str(len(qs)))
        for x in qs:
            t += (["I", str(x)] if top else ["N", x])
        return " ".join(t)

    ndefs = {"plain": 0, "nested": rng.randint(2, 4), "redefine": rng.randint(3, 4), "hijack": 2,
             "unused": rng.randint(2, 3), "errors": rng.randint(1, 3)}[kind]
    pool = list(DEFNAMES)
    rng.shuffle(pool)
    body_top = []
    for d in range(ndefs):
        name = pool[d]
        if kind == "redefine" and d >= 2 and rng.random() < 0.7:
            name = rng.choice(pool[:d])  # a second definition of an earlier name
        if kind == "hijack" and d == 0:
            name = rng.choice([h for h in HIJACK if {"ecr": 2, "cx": 2}.get(h, 1) <= n])
        nf = rng.randint(0, 3)
        formals = rng.sample(FORMALS, nf)
        nqf = rng.randint(1, min(3, n))
        if kind == "unused":
            nqf = min(n, nqf + 1)
        if kind == "hijack" and d == 0:
            # same arity as the built-in gate: the program is accepted and the class wins
            hq, hp = {"ecr": (2, 0)}.get(name, LABELS.get(name, (1, 0)))
            nqf, formals = hq, rng.sample(FORMALS, hp)
        qf = QFORMALS[:nqf]
        rng.shuffle(qf)
        body = [call(qf, formals, False) for _ in range(rng.randint(1, 3 if kind != "unused" else 2))]
        text.append(f"gate {name}{'(' + ','.join(formals) + ')' if formals else ''} {','.join(qf)} {{ "
                    + " ".join(call_text(*b, False) for b in body) + " }")
        stm.append(" ".join(["D", name, str(len(formals)), *formals, str(len(qf)), *qf, str(len(body)),
                             *[call_drv(*b, False) for b in body]]))
        visible[name] = (len(formals), len(qf))
        # interleave top-level statements between definitions (a call sees only what precedes it)
        if rng.random() < 0.4:
            b = call(list(range(n)), [], True)
            text.append(call_text(*b, True))
            stm.append("C " + call_drv(*b, True))
    for _ in range(rng.randint(2, 5)):
        b = call(list(range(n)), [], True)
        text.append(call_text(*b, True))
        stm.append("C " + call_drv(*b, True))
    return "\n".join(text), stm, n


KINDS = ["plain", "nested", "nested", "redefine", "hijack", "unused", "errors"]


def corr_expansion(ctx):
    """model of definition expansion vs the real reader."""
    from qibo.models._openqasm import QASMParser

    rng = ctx.rng
    per = 60 if ctx.thorough else 22
    dirl = dir_gates()
    head = f"XPD {len(dirl)} " + " ".join(f"{nm} {lo} {hi}" for nm, lo, hi in dirl)
    lines, reals = [], []
    for kind in KINDS:
        for _ in range(per):
            text, stm, n = gen_program(rng, kind)
            try:
                c = QASMParser().to_circuit(text)
                real = flat_real(c)
            except Exception as e:  # any exception: the reader refuses the program
                real = None
            lines.append(f"{head} {len(stm)} " + " ".join(stm))
            reals.append((kind, text, real))
            ctx.case(("expansion", text))
            ctx.stat(f"expansion_{kind}_{'rejected' if real is None else 'read'}")
            if real is not None:
                ctx.stat("expansion_depth_fused", sum(1 for e in real if e[0] == "F"))
    ans = run_driver(lines, driver=DRIVER)
    bad, bad_spec = [], []
    for a, (kind, text, real) in zip(ans, reals):
        try:
            mq, mflat, mspec = parse_model(a)
        except (TypeError, ValueError) as e:
            # the class constructor (an oracle of the model) refuses the operands: the
            # reader must refuse the program
            ctx.stat("expansion_constructor_refuses")
            if real is not None:
                bad.append((kind, text, f"model output not constructible: {type(e).__name__}: {e}", real))
            continue
        if not same_queue(mq, real):
            bad.append((kind, text, mq, real))
        # inside the model: the flat list is what the inlining specification gives (theorem
        # T13_expand_is_inlining); evaluated here on the same inputs as a cross-check
        if mflat is not None and kind != "errors" and (mspec is None or len(mspec) != len(mflat)
                                                       or not all(same_prim(p, q) for p, q in zip(mspec, mflat))):
            bad_spec.append((kind, text, mflat, mspec))
    ctx.ob("C13_corr_def_expansion", not bad, "correspondence",
           f"{len(bad)} programs: model queue differs from QASMParser.to_circuit, e.g. {bad[:1]}")
    ctx.ob("C13_corr_def_inlining", not bad_spec, "correspondence",
           f"{len(bad_spec)} programs: expansion differs from inlining by substitution, e.g. {bad_spec[:1]}")
    for kind, text, mq, real in bad[:3]:
        # the failing input on the real code: the reader against the program's meaning
        # (inlining by substitution, evaluated by the model's specification)
        py = (PRE + "from qibo.models._openqasm import QASMParser\n"
              f"text = {text!r}\nexpected = {mq!r}\n"
              "def prim(g):\n    return (type(g).__name__, tuple(g.qubits), tuple(g.parameters) if isinstance(g, gates.ParametrizedGate) else ())\n"
              "try:\n    c = QASMParser().to_circuit(text)\n"
              "    got = [('F', tuple(g.qubits), [prim(x) for x in g.gates]) if isinstance(g, gates.FusedGate) else ('P', prim(g)) for g in c.queue]\n"
              "except Exception as e:\n    got = None\n"
              "def flat(q):\n    return None if q is None else [p for e in q for p in (e[2] if e[0] == 'F' else [e[1]])]\n"
              "def cmp(a, b):\n    return (a is None and b is None) or (a is not None and b is not None and len(a) == len(b) and all(x[0] == y[0] and tuple(x[1]) == tuple(y[1]) and [float(u) for u in x[2]] == [float(v) for v in y[2]] for x, y in zip(a, b)))\n"
              "print(got)\nassert cmp(flat(got), flat(expected)), (flat(got), flat(expected))\n")
        ctx.fail(f"qasm-import:expansion:{kind}",
                 "custom gate expansion of the reader differs from inlining the definitions by substitution",
                 py, expected=str(mq)[:400], observed=str(real)[:400], broken=["C13_corr_def_expansion"])


def corr_storage(ctx):
    """the abstraction of the model: a gate stored in a definition is `cls(*qubits, *args)`
    — its `qubits` are the constructor's qubit operands in order and the values of
    `init_kwargs` are the arguments in order followed by `trainable` — for every class the
    reader can reach (upper-case attribute of qibo.gates with a generic constructor)."""
    import qibo
    from qibo import gates
    from qibo.models._openqasm import _qibo_gate_name
    from vlib import qgates

    bad = []
    count = 0
    for name, info in sorted(qgates.gate_infos().items()):
        if not info.generic or _qibo_gate_name(name.lower()) != name or not hasattr(gates, name):
            continue
        qs = QFORMALS[: info.nq] if info.nq <= 4 else None
        if qs is None:
            continue
        ps = FORMALS[: info.np]
        try:
            g = getattr(gates, name)(*qs, *ps)
        except Exception as e:
            continue  # the class does not accept placeholders: a definition using it is refused
        count += 1
        vals = list(g.init_kwargs.values())
        if tuple(g.qubits) != tuple(qs) or vals[: len(ps)] != ps or any(type(v) is str for v in vals[len(ps):]):
            bad.append((name, tuple(g.qubits), vals))
            continue
        # rebuilt from the stored form on actual operands
        try:
            h = type(g)(*range(info.nq), *[0.25 * (i + 1) for i in range(info.np)], *vals[len(ps):])
            if tuple(h.qubits) != tuple(range(info.nq)) or [float(x) for x in h.parameters[: info.np]] != [0.25 * (i + 1) for i in range(info.np)]:
                bad.append((name, "rebuilt", tuple(h.qubits), list(h.parameters)))
        except Exception as e:
            bad.append((name, "rebuild raises", str(e)[:80]))
    ctx.stat("def_storage_classes", count)
    ctx.ob("C13_corr_def_storage", not bad, "correspondence",
           f"stored form of a gate in a definition is not cls(*qubits, *args, trainable) for {bad[:3]}")
    for b in bad[:2]:
        name = b[0]
        info = qgates.gate_infos()[name]
        qf = QFORMALS[: info.nq]
        ps = FORMALS[: info.np]
        vals = [0.25 * (i + 1) for i in range(info.np)]
        text = ('OPENQASM 2.0;\ninclude "qelib1.inc";\n' + f"qreg q[{info.nq}];\n"
                + f"gate my0{'(' + ','.join(ps) + ')' if ps else ''} {','.join(qf)} {{ {name.lower()}{'(' + ','.join(ps) + ')' if ps else ''} {','.join(qf)}; }}\n"
                + f"my0{'(' + ','.join(map(str, vals)) + ')' if ps else ''} {','.join(f'q[{i}]' for i in range(info.nq))};")
        py = (PRE + f"c = Circuit.from_qasm({text!r})\nref = Circuit({info.nq}); ref.add(gates.{name}(*range({info.nq}), *{vals}))\n"
              "assert np.allclose(c.unitary(), ref.unitary(), atol=1e-9), 'custom gate with one statement differs from the statement'\n")
        ctx.fail(f"qasm-import:expansion:storage:{name}", "a gate inside a definition is not rebuilt as written", py,
                 expected="cls(*qubits, *args)", observed=str(b)[:300], broken=["C13_corr_def_storage"])


# ---------------------------------------------------------------------------
# argument evaluation: QV.Model.QasmExpr vs the real reader, bit for bit

NUMS = ["2", "3", "0.5", "1.25", "7", "0.001", "1e-3", "4", "1.5", "0.125", "10", "2.5e-1", "123456789", "1e-9", "3.3"]


def bits(x):
    import struct

    return struct.unpack("<Q", struct.pack("<d", float(x)))[0]


def gen_factor(rng, negs_ok=True):
    """(text, prefix tokens, python value)"""
    if rng.random() < 0.3:
        t, pre, v = "pi", ["P"], np.pi
    else:
        t = rng.choice(NUMS)
        v = int(t) if t.isdigit() else float(t)
        pre = ["N", str(bits(v))]
    if negs_ok and rng.random() < 0.3:
        t, pre, v = "-" + t, ["NEG"] + pre, -v
    return t, pre, v


def gen_term(rng, first_neg=True):
    t, pre, v = gen_factor(rng, first_neg)
    for _ in range(rng.choice([0, 0, 1, 1, 2, 3])):
        op = rng.choice("*/")
        t2, p2, v2 = gen_factor(rng)
        t, pre, v = t + op + t2, ["B", op] + pre + p2, (v * v2 if op == "*" else v / v2)
    return t, pre, v


def gen_sum(rng):
    t, pre, v = gen_term(rng)
    for _ in range(rng.choice([0, 0, 1, 1, 2, 3])):
        op = rng.choice("+-")
        t2, p2, v2 = gen_term(rng, first_neg=False)  # no `--` / `+-` in the text
        t, pre, v = t + op + t2, ["B", op] + pre + p2, (v + v2 if op == "+" else v - v2)
    return t, pre, v


def gen_paren(rng):
    """an expression with one parenthesised sum: (text, prefix tokens, value)"""
    a, pa, va = gen_sum(rng)
    while "+" not in a and "-" not in a[1:]:
        a, pa, va = gen_sum(rng)
    f, pf, vf = gen_factor(rng, False)
    k = rng.randrange(3)
    if k == 0:
        return f"{f}*({a})", ["B", "*"] + pf + pa, vf * va
    if k == 1:
        return f"-({a})", ["NEG"] + pa, -va
    return f"{f}-({a})", ["B", "-"] + pf + pa, vf - va


def real_arg(text):
    from qibo.models._openqasm import QASMParser

    prog = 'OPENQASM 2.0;\ninclude "qelib1.inc";\nqreg q[1];\n' + f"rx({text}) q[0];"
    c = QASMParser().to_circuit(prog)
    return c.queue[0].parameters[0]


def corr_arg_eval(ctx):
    rng = ctx.rng
    count = 400 if ctx.thorough else 150
    cases = []
    for _ in range(count):
        text, pre, v = gen_sum(rng)
        cases.append(("flat", text, pre, v))
    for _ in range(count // 5):
        text, pre, v = gen_paren(rng)
        cases.append(("paren", text, pre, v))
    ans = run_driver(["EXPR " + " ".join(pre) for _, _, pre, _ in cases], driver=DRIVER)
    bad, bad_model = [], []
    for a, (kind, text, pre, v) in zip(ans, cases):
        ctx.case(("arg", text))
        arg, ev, is_sum = a.split()
        try:
            r = real_arg(text)
            rb = None if isinstance(r, str) else bits(r)
        except Exception as e:
            rb = None
        if kind == "flat":
            # inside the model: parenthesis-free => value of the tree (T13_arg_paren_free);
            # the tree's value is python's value of the text (independent evaluation)
            if is_sum != "true" or arg != ev or int(ev) != bits(v):
                bad_model.append((text, a, bits(v)))
            if rb is None or str(rb) != arg:
                bad.append((text, arg, rb))
            ctx.stat("arg_eval_flat")
        else:
            # the tree keeps no parentheses: the model predicts the reader's value of the
            # re-read text; the reader agreeing with the model here is the known observation
            # `expr-paren`, the reader agreeing with the program is the repaired behaviour
            if rb is not None and str(rb) == arg and arg != ev:
                ctx.stat("observation:qasm-import:expr-paren:model-predicts-reader")
            elif rb is not None and str(rb) == ev:
                ctx.stat("arg_eval_paren_read_as_written")
            else:
                ctx.stat("observation:qasm-import:expr-paren:other")
    ctx.ob("C13_corr_arg_eval", not bad, "correspondence",
           f"{len(bad)} parenthesis-free arguments: reader's value differs from the model's (bits), e.g. {bad[:2]}")
    ctx.ob("C13_corr_arg_eval_spec", not bad_model, "correspondence",
           f"{len(bad_model)} parenthesis-free arguments: model value differs from python's value of the text, e.g. {bad_model[:2]}")
    for text, arg, rb in bad[:3]:
        py = (PRE + f"text = {text!r}\n"
              "c = Circuit.from_qasm('OPENQASM 2.0;\\ninclude \"qelib1.inc\";\\nqreg q[1];\\nrx(' + text + ') q[0];')\n"
              "got = c.queue[0].parameters[0]\nwant = eval(text.replace('pi', 'np.pi'))\nprint(got, want)\n"
              "assert not isinstance(got, str) and float(got) == float(want), (got, want)\n")
        ctx.fail("qasm-import:expr-flat-eval", "a parenthesis-free argument expression is not read as its value",
                 py, expected=f"bits {arg}", observed=f"bits {rb}", broken=["C13_corr_arg_eval"])


LOCAL_NAMES = ["qubits", "init_args", "self", "np", "qibo", "repeat", "Union", "abs", "max", "id", "len", "sum", "type"]


def observe_shadow_locals(ctx):
    """formal parameters named like a variable visible to the reader's `eval` (reported to
    the lead, key qasm-import:custom-shadow-locals; an observation until answered)."""
    from qibo import Circuit, gates

    wrong = []
    for nm in LOCAL_NAMES:
        text = ('OPENQASM 2.0;\ninclude "qelib1.inc";\nqreg q[1];\n' + f"gate my0({nm}) a {{ rx({nm}) a; }}\nmy0(0.5) q[0];")
        try:
            c = Circuit.from_qasm(text)
            g = c.queue[0].gates[0] if isinstance(c.queue[0], gates.FusedGate) else c.queue[0]
            ok = type(g).__name__ == "RX" and g.parameters[0] == 0.5
        except Exception:
            ok = False
        if not ok:
            wrong.append(nm)
            ctx.stat("observation:qasm-import:custom-shadow-locals")
    if wrong:
        ctx.notes.append("observation (foreign QASM programs) qasm-import:custom-shadow-locals: a custom gate whose formal parameter "
                         f"is named {wrong} is rejected or misread (the reader's eval sees its own variables / builtins)")


# ---------------------------------------------------------------------------
# operand order per class: traced rows -> kernel obligation (QV/Gen/C13_Ob1.lean)


def trace_arg_row(name, info, label):
    """build cls on distinct operands, export, re-import; every list as indices."""
    import re

    from qibo import Circuit, gates

    nq, npar = info.nq, info.np
    n = nq + 2
    Q = [(2 * j + 1) % n if (2 * j + 1) < n else (2 * j + 1) % n for j in range(nq)]
    Q = []
    free = list(range(n))
    for j in range(nq):  # a fixed non-monotone choice of distinct qubits
        Q.append(free.pop((j * 2 + 1) % len(free)))
    P = [0.25 + 0.5 * j for j in range(npar)]
    g0 = info.cls(*Q, *P)
    c = Circuit(n)
    c.add(g0)
    text = c.to_qasm()
    line = [l for l in text.splitlines() if l and not l.startswith(("//", "OPENQASM", "include", "qreg", "creg"))][0]
    m = re.fullmatch(r"([A-Za-z0-9_]+)(?:\(([^)]*)\))?\s+(.*);", line.strip())
    tps = [float(x) for x in m.group(2).split(",")] if m.group(2) else []
    tqs = [int(x) for x in re.findall(r"\[(\d+)\]", m.group(3))]
    g1 = Circuit.from_qasm(text).queue[0]
    p0 = [float(x) for x in g0.parameters] if isinstance(g0, gates.ParametrizedGate) else []
    p1 = [float(x) for x in g1.parameters] if isinstance(g1, gates.ParametrizedGate) else []
    return dict(cls=name, label=m.group(1), nq=nq, np=npar,
                wq=[Q.index(q) for q in tqs], wp=[P.index(v) for v in tps],
                rq=[tqs.index(q) for q in g1.qubits], rp=[tps.index(v) for v in p1],
                gq=[Q.index(q) for q in g0.qubits], gp=[P.index(v) for v in p0],
                same_class=type(g1) is type(g0))


def row_ok(r):
    def at(l, k):
        return l[k] if 0 <= k < len(l) else None

    return (len(r["wq"]) == r["nq"] and len(r["wp"]) == r["np"]
            and [at(r["wq"], k) for k in r["rq"]] == r["gq"] and [at(r["wp"], k) for k in r["rp"]] == r["gp"]
            and all(k < r["nq"] for k in r["gq"]) and all(k < r["np"] for k in r["gp"]))


def args_table(ctx, lab):
    """regenerate lean/QV/Gen/C13_Ob1.lean; returns the classes whose row cannot pass."""
    import json

    from vlib import leanrun

    rows, bad = [], []
    for name, (info, label, pn, ct) in sorted(lab.items()):
        if not info.generic:
            continue
        try:
            r = trace_arg_row(name, info, label)
        except Exception as e:  # not exportable / not re-importable: found by the gate search
            ctx.stat("args_row_untraceable")
            bad.append(name)
            continue
        rows.append(r)
        if not row_ok(r) or not r["same_class"]:
            bad.append(name)

    def nl(xs):
        return "[" + ", ".join(map(str, xs)) + "]"

    body = ",\n  ".join(f"⟨{json.dumps(r['cls'])}, {json.dumps(r['label'])}, {r['nq']}, {r['np']}, {nl(r['wq'])}, {nl(r['wp'])}, "
                        f"{nl(r['rq'])}, {nl(r['rp'])}, {nl(r['gq'])}, {nl(r['gp'])}⟩" for r in rows)
    src = ("import QV.Props.C13e\nnamespace QV.Gen.C13\nopen QV.QasmArgs\n"
           "/-- traced from the gate classes, the writer and the reader of the checked source tree -/\n"
           "def argTable : List ArgRow := [\n  " + body + "]\n"
           "theorem C13_args_ok : argTableOk argTable = true := by decide +kernel\n"
           "/-- hence (T13_operands_roundtrip) every traced class re-imports with the qubits and parameters it was exported with -/\n"
           "theorem C13_args_roundtrip {α β : Type} (r : ArgRow) (hr : r ∈ argTable) (qs : List α) (ps : List β) :\n"
           "    reread r.rq (written r.wq qs) = reported r.gq qs ∧ reread r.rp (written r.wp ps) = reported r.gp ps :=\n"
           "  have h : r.ok = true := (List.all_eq_true.1 C13_args_ok) r hr\n"
           "  ⟨(QV.Props.C13.T13_operands_roundtrip r h qs ps).1, (QV.Props.C13.T13_operands_roundtrip r h qs ps).2.1⟩\n"
           "end QV.Gen.C13\n")
    leanrun.write_if_changed(leanrun.LEAN_DIR / "QV" / "Gen" / "C13_Ob1.lean", src)
    ctx.stat("args_rows", len(rows))
    return bad


def run_suites(ctx):
    corr_storage(ctx)
    corr_expansion(ctx)
    corr_arg_eval(ctx)
    observe_shadow_locals(ctx)
