"""C09 — label-type confusion between `circuit.wire_names` and the node labels of the
connectivity graph: ints, numpy ints, digit strings, mixed, in non-identity orders.

Every router starts with `assert_placement` and then relabels the graph with
`{wire name: wire index}`.  Two accepted outcomes for a layout whose names are the node labels
only up to type:
  (a) a refusal (PlacementError; ConnectivityError for the star router's own graph check);
  (b) an output that satisfies C09 with respect to the DEVICE graph's own labels: the physical
      qubit behind wire i is the node equal to `wire_names[i]` (Python equality: 1 == np.int64(1))
      or, failing that, the only node with the same `str()`; every two-qubit gate of the output
      sits on an edge between the nodes named by its wires, routed == P.U, layout a bijection.
A router that accepts the layout and then reads node labels as wire indices (SWAPs / gates on
non-edges) is reported with key `<router>:label-types`.  `assert_placement` itself is compared
with its specification on the same layouts (must accept exactly-equal label sets, must refuse
when the names do not resolve to a bijection onto the nodes).
"""
from __future__ import annotations

import networkx as nx

LABEL_SPEC_SRC = r'''
from qibo.transpiler._exceptions import PlacementError, ConnectivityError
from qibo.transpiler.asserts import assert_placement


def mk_label(l):
    kind, v = l
    return int(v) if kind == "i" else np.int64(v) if kind == "n" else str(v)


def resolve_names(wires, nodes):
    """wire name -> node of the device graph, or None when the names are not the node labels."""
    out = []
    for w in wires:
        cand = [v for v in nodes if type(v) is not str and type(w) is not str and v == w or (type(v) is str and type(w) is str and v == w)]
        if len(cand) != 1:
            cand = [v for v in nodes if str(v) == str(w)]
        if len(cand) != 1:
            return None
        out.append(cand[0])
    if len({id(v) for v in out}) != len(nodes):
        return None
    return out


def run_label_case(case):
    nodes = [mk_label(x) for x in case["nodes"]]
    wires = [mk_label(x) for x in case["wires"]]
    n = len(nodes)
    G = nx.Graph()
    G.add_nodes_from(nodes)
    G.add_edges_from((nodes[a], nodes[b]) for a, b in case["edges_idx"])
    c = build_circuit(n, wires, case["gates"])
    before = snapshot(c)
    res = resolve_names(wires, list(G.nodes))
    bad = []
    # assert_placement against its specification
    exact = len(set(wires)) == n and set(wires) == set(G.nodes)
    try:
        assert_placement(c, G)
        accepted = True
    except PlacementError:
        accepted = False
    if exact and not accepted:
        bad.append(("placement-label-types", f"assert_placement refuses wire names {wires!r} that are exactly the node labels {list(G.nodes)!r}"))
    if res is None and accepted:
        bad.append(("placement-label-types", f"assert_placement accepts wire names {wires!r} that do not name the nodes {list(G.nodes)!r} one to one"))
    try:
        with time_limit(20):
            routed, layout = make_router(case["router"], G.copy(), case.get("opts", {}))(c)
    except (PlacementError, ConnectivityError):
        if exact:
            bad.append(("label-types", f"{case['router']} refuses wire names {wires!r} that are exactly the node labels"))
        return bad
    except Exception as e:
        return bad + [("label-types", f"{case['router']} on wires {wires!r}, nodes {list(G.nodes)!r}: {type(e).__name__}: {e}")]
    if res is None:
        return bad + [("label-types", f"{case['router']} accepts wire names {wires!r} that do not name the nodes {list(G.nodes)!r}")]
    # the device graph with every node renamed to the wire name that denotes it
    H = nx.relabel_nodes(G, {v: w for v, w in zip(res, wires)})
    r = check_routing(c, H, routed, layout, case.get("exact", True), before)
    return bad + [("label-types", f"{case['router']} accepted wires {wires!r} on a graph with nodes {list(G.nodes)!r} "
                                  f"(wire -> node {list(zip(wires, res))!r}): {kind}: {d}") for kind, d in r]
'''


def run_suites(ctx, base):
    SPEC = dict(base.SPEC)
    exec(compile(LABEL_SPEC_SRC, "<C09 label spec>", "exec"), SPEC)
    rng = ctx.rng
    th = ctx.thorough
    nbad = 0
    reported = set()

    def replay(case, kinds):
        return (base.SPEC_SRC + LABEL_SPEC_SRC + "\ncase = " + repr(case) + "\nbad = run_label_case(case)\nprint(bad)\n"
                + f"assert not [b for b in bad if b[0] in {sorted(kinds)!r}], bad\n")

    def go(case, what):
        nonlocal nbad
        ctx.case(("labels", case["router"], what, repr(case["nodes"]), repr(case["wires"]), tuple(case["gates"])))
        ctx.stat("label_type_cases")
        ctx.stat("label_types_" + what)
        try:
            bad = SPEC["run_label_case"](case)
        except Exception as e:   # e.g. Circuit refuses the wire names: not a routing case
            ctx.stat("label_types_not_constructible")
            return
        if not bad:
            return
        nbad += 1
        for kind in sorted({k for k, _ in bad}):
            key = "asserts:placement-label-types" if kind == "placement-label-types" else f"{case['router']}:label-types"
            if key in reported:
                continue
            reported.add(key)
            cur = dict(case)
            gl = list(case["gates"])
            for i in range(len(gl) - 1, -1, -1):      # shrink the gate list
                trial = gl[:i] + gl[i + 1:]
                try:
                    if kind in {k for k, _ in SPEC["run_label_case"](dict(cur, gates=trial))}:
                        gl = trial
                except Exception:
                    pass
            cur["gates"] = gl
            try:
                b2 = SPEC["run_label_case"](cur) or bad
            except Exception:
                cur, b2 = case, bad
            det = next((d for k, d in b2 if k == kind), "")
            ctx.fail(key, det, replay(cur, {kind}),
                     expected="PlacementError, or a routed circuit executable on the device graph's own labels with routed == P.U",
                     observed=[list(b) for b in b2][:3], broken=["C09_search_label_types"])

    def labels(kind_of, perm):
        return [(kind_of(i), v) for i, v in enumerate(perm)]

    styles = {
        "int_vs_str": (lambda i: "i", lambda i: "s"),        # nodes int, wires digit strings
        "str_vs_int": (lambda i: "s", lambda i: "i"),
        "int_vs_numpy": (lambda i: "i", lambda i: "n"),      # equal under ==: must be routed correctly
        "numpy_vs_int": (lambda i: "n", lambda i: "i"),
        "mixed_same": (lambda i: "s" if i % 2 else "i", None),   # mixed labels, wires the same objects' values
        "mixed_vs_int": (lambda i: "i", lambda i: "s" if i % 2 else "i"),
        "mixed_vs_str": (lambda i: "s", lambda i: "n" if i % 3 == 0 else "s"),
        "same_int": (lambda i: "i", lambda i: "i"),
        "same_str": (lambda i: "s", lambda i: "s"),
    }
    graphs = [nx.path_graph(3), nx.path_graph(4), nx.path_graph(5), nx.cycle_graph(5), nx.star_graph(3),
              nx.star_graph(4), nx.convert_node_labels_to_integers(nx.grid_2d_graph(2, 3))]
    reps = 6 if th else 2
    for sname, (nk, wk) in styles.items():
        for G in graphs:
            n = G.number_of_nodes()
            for rep in range(reps):
                for router in ("ShortestPaths", "Sabre") + (("StarConnectivityRouter",) if n == 5 and max(dict(G.degree).values()) == 4 else ()):
                    vals = list(range(n))
                    if rng.random() < 0.3:
                        vals = [v + 1 for v in vals]        # labels that are not wire indices at all
                    node_vals = list(vals)
                    rng.shuffle(node_vals)
                    order = list(range(n))
                    while order == list(range(n)) or [node_vals[i] for i in order] == sorted(node_vals):
                        rng.shuffle(order)                  # non-identity placement
                    nodes = [(nk(i), v) for i, v in enumerate(node_vals)]
                    if wk is None:
                        wires = [nodes[i] for i in order]
                    else:
                        wires = [(wk(j), node_vals[i]) for j, i in enumerate(order)]
                    # a two-qubit gate between wires that sit on a non-edge of the device, so that SWAPs are needed
                    pos = {i: j for j, i in enumerate(order)}   # node index -> wire
                    non = [(a, b) for a in range(n) for b in range(n) if a != b and not G.has_edge(a, b)]
                    gl = base.random_recipe(rng, n, rng.randint(2, 8), "int", rng.choice(["none", "trailing"]))
                    if non:
                        a, b = rng.choice(non)
                        gl.insert(rng.randint(0, 1), f"gates.CNOT({pos[a]},{pos[b]})")
                    opts = base.sabre_opts(rng) if router == "Sabre" else ({"seed": rng.randrange(1000)} if router == "ShortestPaths" else {})
                    go({"router": router, "nodes": nodes, "wires": wires, "edges_idx": list(G.edges), "opts": opts,
                        "gates": gl, "exact": True}, sname)
    ctx.ob("C09_search_label_types", nbad == 0, "search", f"{nbad} failing cases" if nbad else "")
    ctx.sample({"suite": "label types", "meaning": "wire names vs node labels as ints / numpy ints / digit strings / mixed, non-identity placement, a two-qubit gate on a non-edge: the router refuses (PlacementError) or its output is executable on the device graph's own labels with routed == P.U; assert_placement compared with its specification"})
