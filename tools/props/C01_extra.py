"""C01/C02: direct searches on the real code added after the third round of seeded changes.

* `qulacs_suite`   – the other shipped simulation backend (`backends/qulacs.py`, through the QASM
                     converter): final state / density matrix against an explicit reference built
                     from the documented gate matrices, for every register size 1..7(8) – the
                     endianness conversion at the end of `execute_circuit` is only visible from
                     4 qubits on;
* `wide_suite`     – gates acting on 4..7 qubits (dense `Unitary`, with and without controls, on
                     scattered and non-ascending targets) and circuits of them: the exact
                     correspondence stops at 3-qubit gates, a size-dependent fast path does not;
* `same_parameter_suite` – gates of every parametrised class built one after the other on ONE
                     backend object with IDENTICAL parameter values but different layouts
                     (`GeneralizedRBS` splits, qubit orders, classes sharing a parameter tuple):
                     a matrix memoised on (class, parameters) shows here and nowhere else.

Everything is compared with `ref_apply`, an independent 12-line tensor contraction, never with
another qibo function.  `density=True` runs the density-matrix versions (property C02).
"""
from __future__ import annotations

import itertools

import numpy as np

PRE = r'''import sys, numpy as np
from qibo import Circuit, gates
from qibo.backends import NumpyBackend, MetaBackend
nb = NumpyBackend()
def ref_apply(psi, m, qs, n):
    """apply the matrix m (qubit qs[0] most significant) to the qubits qs of an n-qubit state"""
    k = len(qs)
    t = np.asarray(psi, dtype=complex).reshape((2,) * n)
    t = np.tensordot(np.asarray(m, dtype=complex).reshape((2,) * (2 * k)), t, axes=(list(range(k, 2 * k)), list(qs)))
    return np.moveaxis(t, list(range(k)), list(qs)).reshape(-1)
def ctrl(m, nc):
    """matrix with nc controls in front"""
    d = m.shape[0]; D = d * 2 ** nc
    out = np.eye(D, dtype=complex); out[D - d:, D - d:] = m
    return out
def ref_run(n, ops, psi=None):
    psi = np.eye(2 ** n, dtype=complex)[0] if psi is None else np.asarray(psi, dtype=complex)
    for m, qs in ops:
        psi = ref_apply(psi, m, qs, n)
    return psi
def dm_of(psi):
    return np.outer(psi, np.conj(psi))
'''

_NS = None


def ns():
    global _NS
    if _NS is None:
        _NS = {}
        exec(PRE, _NS)  # noqa: S102
    return _NS


def arr(a):
    a = np.asarray(a)
    return "np.array(" + repr(np.round(a, 14).tolist()) + (", dtype=complex)" if np.iscomplexobj(a) else ")")


def _fail(ctx, key, what, body, ob):
    ctx.fail(key, what, PRE + body, broken=[ob])


def _haar(rng, d):
    r = np.random.default_rng(rng.randint(0, 2**31))
    z = r.normal(size=(d, d)) + 1j * r.normal(size=(d, d))
    q, rr = np.linalg.qr(z)
    return q * (np.diag(rr) / np.abs(np.diag(rr)))


# ---------------------------------------------------------------------------------------------
# qulacs backend

# gate text (python expression on `gates`), documented matrix as python source, arity
_H = "np.array([[1, 1], [1, -1]]) / np.sqrt(2)"
QGATES = [
    ("H({q0})", _H, 1), ("X({q0})", "np.array([[0, 1], [1, 0]])", 1), ("Y({q0})", "np.array([[0, -1j], [1j, 0]])", 1),
    ("Z({q0})", "np.diag([1, -1])", 1), ("S({q0})", "np.diag([1, 1j])", 1), ("SDG({q0})", "np.diag([1, -1j])", 1),
    ("T({q0})", "np.diag([1, np.exp(1j * np.pi / 4)])", 1), ("TDG({q0})", "np.diag([1, np.exp(-1j * np.pi / 4)])", 1),
    ("SX({q0})", "np.array([[1 + 1j, 1 - 1j], [1 - 1j, 1 + 1j]]) / 2", 1), ("SXDG({q0})", "np.array([[1 - 1j, 1 + 1j], [1 + 1j, 1 - 1j]]) / 2", 1),
    ("RX({q0}, {a})", "np.array([[np.cos({a} / 2), -1j * np.sin({a} / 2)], [-1j * np.sin({a} / 2), np.cos({a} / 2)]])", 1),
    ("RY({q0}, {a})", "np.array([[np.cos({a} / 2), -np.sin({a} / 2)], [np.sin({a} / 2), np.cos({a} / 2)]])", 1),
    ("RZ({q0}, {a})", "np.diag([np.exp(-0.5j * {a}), np.exp(0.5j * {a})])", 1),
    ("CNOT({q0}, {q1})", "np.array([[1, 0, 0, 0], [0, 1, 0, 0], [0, 0, 0, 1], [0, 0, 1, 0]])", 2),
    ("CZ({q0}, {q1})", "np.diag([1, 1, 1, -1])", 2),
    ("SWAP({q0}, {q1})", "np.array([[1, 0, 0, 0], [0, 0, 1, 0], [0, 1, 0, 0], [0, 0, 0, 1]])", 2),
]


def _qulacs_circuit_src(rng, n, depth):
    lines, ops = [f"c = Circuit({n}, density_matrix=DENSITY)", "ops = []"], 0
    for _ in range(depth):
        txt, mat, k = rng.choice(QGATES)
        if k > n:
            continue
        qs = rng.sample(range(n), k)
        a = round(rng.choice([rng.uniform(-3.2, 3.2), 0.3, np.pi / 2, -np.pi]), 6)
        f = {"q0": qs[0], "q1": qs[-1], "a": repr(a)}
        lines.append(f"c.add(gates.{txt.format(**f)}); ops.append(({mat.format(**f)}, {qs}))")
        ops += 1
    return "\n".join(lines) + "\n", ops


def qulacs_suite(ctx, density=False):
    prop = "C02" if density else "C01"
    ob = f"{prop}_search_qulacs"
    try:
        import qulacs  # noqa: F401
        from qibo.backends import MetaBackend

        MetaBackend.load("qulacs")
    except Exception as e:  # noqa: BLE001 - backend not installed: nothing to examine
        ctx.stat(f"qulacs_unavailable:{type(e).__name__}")
        return
    rng = ctx.rng
    ok = True
    nmax = (6 if density else 8) if ctx.thorough else (5 if density else 7)
    cases = []
    # (a) every convertible gate class alone, on every register size, after a product-state layer
    for n in range(1, nmax + 1):
        for txt, mat, k in QGATES:
            if k > n:
                continue
            if n > 4 and rng.random() < 0.5:
                continue
            qs = rng.sample(range(n), k)
            a = round(rng.uniform(-3.2, 3.2), 6)
            f = {"q0": qs[0], "q1": qs[-1], "a": repr(a)}
            src = f"c = Circuit({n}, density_matrix=DENSITY)\nops = []\n"
            for q in range(n):
                t = round(0.3 + 0.37 * q, 4)
                src += (f"c.add(gates.RY({q}, {t})); ops.append((np.array([[np.cos({t} / 2), -np.sin({t} / 2)], [np.sin({t} / 2), np.cos({t} / 2)]]), [{q}]))\n"
                        f"c.add(gates.RZ({q}, {t})); ops.append((np.diag([np.exp(-0.5j * {t}), np.exp(0.5j * {t})]), [{q}]))\n")
            src += f"c.add(gates.{txt.format(**f)}); ops.append(({mat.format(**f)}, {qs}))\n"
            cases.append((f"qulacs:gate:{txt.split('(')[0]}", n, src))
    # (b) random circuits over the convertible gates
    for n in range(2, nmax + 1):
        for _ in range(3 if ctx.thorough else 2):
            src, _ = _qulacs_circuit_src(rng, n, rng.randint(6, 18))
            cases.append(("qulacs:random-circuit", n, src))
    tail = ("qb = MetaBackend.load('qulacs')\nout = np.asarray(qb.execute_circuit(c).state())\nref = ref_run(c.nqubits, ops)\n"
            "ref = dm_of(ref) if DENSITY else ref\n")
    for key, n, src in cases:
        body = f"DENSITY = {density}\n" + src + tail
        ctx.case((key, n, src))
        ctx.stat(f"qulacs:{'dm' if density else 'sv'}:n={n}")
        env = dict(ns())
        try:
            exec(body, env)  # noqa: S102 - own generated text, identical to the replay
        except Exception as e:  # noqa: BLE001
            ok = False
            _fail(ctx, key + ":raises", f"qulacs backend raises {type(e).__name__}: {e} on a circuit of convertible gates ({n} qubits)",
                  body + "print('no exception'); sys.exit(0)\n", ob)
            continue
        out, ref = env["out"], env["ref"]
        if out.shape != ref.shape or not np.allclose(out, ref, atol=1e-9):
            ok = False
            dev = float(np.abs(out - ref).max()) if out.shape == ref.shape else -1.0
            _fail(ctx, key, f"qulacs backend, {n} qubits{', density matrix' if density else ''}: final state differs from the product of the documented gate matrices by {dev:.3e}",
                  body + "d = np.abs(out - ref).max() if out.shape == ref.shape else 1.0\nprint(d)\nsys.exit(0 if d < 1e-9 else 1)\n", ob)
    # (c) U3 goes through the converter's own `u3`, which drops the documented global phase
    #     e^{-i(phi+lam)/2} (known finding K01-1): exact up to that phase, relative phases checked
    if not density:
        th, ph, lm = (round(rng.uniform(-3, 3), 5) for _ in range(3))
        body = (f"th, ph, lm = {th}, {ph}, {lm}\nc = Circuit(2)\nc.add(gates.H(0)); c.add(gates.RY(1, 0.4)); c.add(gates.U3(1, th, ph, lm)); c.add(gates.CNOT(1, 0))\n"
                "u3 = np.array([[np.exp(-0.5j * (ph + lm)) * np.cos(th / 2), -np.exp(-0.5j * (ph - lm)) * np.sin(th / 2)],\n"
                "               [np.exp(0.5j * (ph - lm)) * np.sin(th / 2), np.exp(0.5j * (ph + lm)) * np.cos(th / 2)]])\n"
                f"ops = [({_H}, [0]), (np.array([[np.cos(0.2), -np.sin(0.2)], [np.sin(0.2), np.cos(0.2)]]), [1]), (u3, [1]),\n"
                "       (np.array([[1, 0, 0, 0], [0, 1, 0, 0], [0, 0, 0, 1], [0, 0, 1, 0]]), [1, 0])]\n"
                "qb = MetaBackend.load('qulacs')\nout = np.asarray(qb.execute_circuit(c).state())\nref = ref_run(2, ops)\n")
        env = dict(ns())
        ctx.case(("qulacs:U3", th, ph, lm))
        try:
            exec(body, env)  # noqa: S102
            out, ref = env["out"], env["ref"]
            k = np.vdot(ref, out)
            if not np.allclose(out, ref, atol=1e-9):
                if abs(abs(k) - 1) < 1e-9:
                    _fail(ctx, "qulacs:U3:global-phase", f"qulacs backend: a circuit containing U3(theta={th}, phi={ph}, lam={lm}) returns the documented state times the global phase {k:.6f} "
                          "(the QASM converter's u3 has no e^{-i(phi+lam)/2} prefactor)", body + "d = np.abs(out - ref).max()\nprint(d)\nsys.exit(0 if d < 1e-9 else 1)\n", ob)
                else:
                    ok = False
                    _fail(ctx, "qulacs:gate:U3", "qulacs backend: a circuit containing U3 differs from the documented matrices by more than a global phase",
                          body + "k = np.vdot(ref, out)\nprint(abs(k))\nsys.exit(0 if abs(abs(k) - 1) < 1e-9 else 1)\n", ob)
        except Exception as e:  # noqa: BLE001 - refusing the gate is fine
            ctx.stat(f"qulacs:U3:refused:{type(e).__name__}")
    ctx.ob(ob, ok, "search", "" if ok else "qulacs backend differs from the explicit reference")


# ---------------------------------------------------------------------------------------------
# wide gates


def wide_suite(ctx, density=False):
    prop = "C02" if density else "C01"
    ob = f"{prop}_search_wide_gates"
    rng = ctx.rng
    ok = True
    ks = [4, 5, 6] + ([7] if ctx.thorough and not density else [])
    for k in ks:
        for extra in (0, 1, 2):
            n = k + extra
            if density and n > 6:
                continue
            if n > (9 if ctx.thorough else 8):
                continue
            for variant in ("ascending-offset", "scattered", "shuffled", "controlled"):
                if variant == "ascending-offset":
                    qs = list(range(extra, extra + k))
                elif variant == "scattered":
                    qs = sorted(rng.sample(range(n), k))
                else:
                    qs = rng.sample(range(n), k)
                nc = 0
                if variant == "controlled":
                    if extra == 0:
                        continue
                    nc = rng.randint(1, extra)
                kk = k - 0
                seed = rng.randint(0, 2**31)
                rest = [q for q in range(n) if q not in qs]
                cs = rng.sample(rest, nc) if nc else []
                # a second, smaller gate before and after, so that the wide gate sees a generic state
                body = (f"DENSITY = {density}\nr = np.random.default_rng({seed})\n"
                        f"z = r.normal(size=({2**kk}, {2**kk})) + 1j * r.normal(size=({2**kk}, {2**kk}))\nU, R = np.linalg.qr(z)\n"
                        f"psi = r.normal(size={2**n}) + 1j * r.normal(size={2**n}); psi /= np.linalg.norm(psi)\n"
                        f"c = Circuit({n}, density_matrix=DENSITY)\n"
                        f"g = gates.Unitary(U.copy(), *{qs})" + (f".controlled_by(*{cs})" if cs else "") + "\nc.add(g)\n"
                        f"c.add(gates.RY({qs[-1]}, 0.4))\nc.add(gates.Unitary(U.copy(), *{qs[::-1]}))\n"
                        "ry = np.array([[np.cos(0.2), -np.sin(0.2)], [np.sin(0.2), np.cos(0.2)]])\n"
                        f"ops = [(ctrl(U, {nc}), {cs + qs}), (ry, [{qs[-1]}]), (U, {qs[::-1]})]\n"
                        "init = dm_of(psi) if DENSITY else psi\n"
                        "out = np.asarray(nb.execute_circuit(c, initial_state=init.copy()).state())\n"
                        f"ref = ref_run({n}, ops, psi); ref = dm_of(ref) if DENSITY else ref\n"
                        "uni = None if DENSITY else np.asarray(c.unitary(nb)) @ psi\n")
                key = f"wide:{variant}:k={k}"
                ctx.case((key, n, tuple(qs), tuple(cs)))
                ctx.stat(f"wide:{'dm' if density else 'sv'}:k={k}")
                env = dict(ns())
                try:
                    exec(body, env)  # noqa: S102
                except Exception as e:  # noqa: BLE001
                    ok = False
                    _fail(ctx, key + ":raises", f"{k}-qubit Unitary on {qs} (controls {cs}) in {n} qubits raises {type(e).__name__}: {e}", body + "sys.exit(0)\n", ob)
                    continue
                out, ref, uni = env["out"], env["ref"], env["uni"]
                bad = not np.allclose(out, ref, atol=1e-9) or (uni is not None and not np.allclose(uni, ref, atol=1e-9))
                if bad:
                    ok = False
                    _fail(ctx, key, f"{k}-qubit Unitary on qubits {qs} (controls {cs}) of a {n}-qubit register, then RY and the same matrix on the reversed qubits: "
                          f"execution{'' if density else ' or Circuit.unitary'} differs from the explicit contraction by {float(np.abs(out - ref).max()):.3e}",
                          body + "d = np.abs(out - ref).max()\nd = d if uni is None else max(d, np.abs(uni - ref).max())\nprint(d)\nsys.exit(0 if d < 1e-9 else 1)\n", ob)
    ctx.ob(ob, ok, "search", "" if ok else "a gate on four or more qubits is applied wrongly")


# ---------------------------------------------------------------------------------------------
# same parameter values, different objects


def same_parameter_suite(ctx, density=False):
    """gates built one after the other on one backend with identical parameter tuples"""
    from spec.gatedocs import generalized_rbs
    from vlib import qgates
    from vlib.symtrace import S, matrix_trees

    prop = "C02" if density else "C01"
    ob = f"{prop}_search_same_parameters"
    rng = ctx.rng
    ok = True
    # (a) GeneralizedRBS: all splits of 3 and 4 qubits with one (theta, phi), in both visiting orders
    for total in (3, 4):
        th, ph = round(rng.uniform(-3, 3), 5), round(rng.choice([0.0, rng.uniform(-3, 3)]), 5)
        splits = [(list(range(a)), list(range(a, total))) for a in range(1, total)]
        splits += [(qo, qi) for qi, qo in splits]
        rng.shuffle(splits)
        body = f"DENSITY = {density}\nth, ph = {th}, {ph}\nbad = []\nr = np.random.default_rng(7)\n"
        body += f"psi = r.normal(size={2**total}) + 1j * r.normal(size={2**total}); psi /= np.linalg.norm(psi)\n"
        for qi, qo in splits:
            doc = qgates.numeric_matrix(matrix_trees(np.array(generalized_rbs(len(qi), len(qo), S.par(0), S.par(1)), dtype=object)), [th, ph])
            body += (f"g = gates.GeneralizedRBS({qi}, {qo}, th, ph)\ndoc = {arr(doc)}\n"
                     f"c = Circuit({total}, density_matrix=DENSITY); c.add(g)\n"
                     "init = dm_of(psi) if DENSITY else psi\nout = np.asarray(nb.execute_circuit(c, initial_state=init.copy()).state())\n"
                     f"ref = ref_apply(psi, doc, {qi + qo}, {total}); ref = dm_of(ref) if DENSITY else ref\n"
                     f"if not (np.allclose(np.asarray(g.matrix(nb)), doc, atol=1e-9) and np.allclose(out, ref, atol=1e-9)): bad.append(({qi}, {qo}))\n")
        ctx.case(("same-params-grbs", total, th, ph))
        ctx.stat("same_parameters:GeneralizedRBS")
        env = dict(ns())
        try:
            exec(body, env)  # noqa: S102
            if env["bad"]:
                ok = False
                _fail(ctx, "same-parameters:GeneralizedRBS", f"GeneralizedRBS gates with the same (theta, phi) = ({th}, {ph}) and different splits {env['bad']} built one after the other: "
                      "matrix or execution differs from the documented Givens rotation of that split", body + "print(bad)\nsys.exit(1 if bad else 0)\n", ob)
        except Exception as e:  # noqa: BLE001
            ok = False
            _fail(ctx, "same-parameters:raises", f"{type(e).__name__}: {e}", body + "sys.exit(0)\n", ob)
    # (b) every parametrised class with the parameter tuple (t, t, ...): different classes, different
    #     placements and repeated construction share parameter values; each gate's matrix must be
    #     the one a fresh backend gives (class identity, arity and qubit order must not leak)
    infos = qgates.gate_infos()
    names = [nm for nm, inf in sorted(infos.items()) if inf.generic and inf.np and 1 <= inf.nq <= 3]
    t = round(rng.choice([0.3, 1.1, 0.7, np.pi / 2]), 6)  # inside every class's admissible range
    seq = []
    for nm in names:
        inf = infos[nm]
        for _ in range(2):
            qs = rng.sample(range(4), inf.nq)
            seq.append((nm, qs, [t] * inf.np))
    rng.shuffle(seq)
    body = f"DENSITY = {density}\nfrom qibo.backends import NumpyBackend\nbad = []\nr = np.random.default_rng(11)\n"
    body += "psi = r.normal(size=16) + 1j * r.normal(size=16); psi /= np.linalg.norm(psi)\n"
    for nm, qs, ps in seq:
        body += (f"g = gates.{nm}(*{qs}, *{ps})\nm0 = np.asarray(gates.{nm}(*{list(range(len(qs)))}, *{ps}).matrix(NumpyBackend()))\n"
                 "c = Circuit(4, density_matrix=DENSITY); c.add(g)\ninit = dm_of(psi) if DENSITY else psi\n"
                 "out = np.asarray(nb.execute_circuit(c, initial_state=init.copy()).state())\n"
                 f"ref = ref_apply(psi, m0, {qs}, 4); ref = dm_of(ref) if DENSITY else ref\n"
                 f"if not (np.allclose(np.asarray(g.matrix(nb)), m0, atol=1e-9) and np.allclose(out, ref, atol=1e-9)): bad.append(('{nm}', {qs}))\n")
    ctx.case(("same-params-classes", t, len(seq)))
    ctx.stat("same_parameters:classes", len(seq))
    env = dict(ns())
    try:
        exec(body, env)  # noqa: S102
        if env["bad"]:
            ok = False
            _fail(ctx, "same-parameters:classes", f"gates of different classes / placements built one after the other with every parameter = {t}: {env['bad'][:6]} differ from the matrix a fresh backend gives",
                  body + "print(bad)\nsys.exit(1 if bad else 0)\n", ob)
    except Exception as e:  # noqa: BLE001
        ok = False
        _fail(ctx, "same-parameters:raises", f"{type(e).__name__}: {e}", body + "sys.exit(0)\n", ob)
    ctx.ob(ob, ok, "search", "" if ok else "a gate's matrix depends on gates built before it")


# ---------------------------------------------------------------------------------------------
# the caller's array, deep circuits, tiny control amplitudes


def _gate_pool():
    """(python source of a gate on a 3-qubit register, ops entry source)"""
    return [
        ("gates.H({a})", f"({_H}, [{{a}}])"),
        ("gates.RY({a}, {t})", "(np.array([[np.cos({t} / 2), -np.sin({t} / 2)], [np.sin({t} / 2), np.cos({t} / 2)]]), [{a}])"),
        ("gates.RZ({a}, {t})", "(np.diag([np.exp(-0.5j * {t}), np.exp(0.5j * {t})]), [{a}])"),
        ("gates.S({a})", "(np.diag([1, 1j]), [{a}])"),
        ("gates.CNOT({a}, {b})", "(np.array([[1, 0, 0, 0], [0, 1, 0, 0], [0, 0, 0, 1], [0, 0, 1, 0]]), [{a}, {b}])"),
        ("gates.RX({a}, {t}).controlled_by({b})", "(ctrl(np.array([[np.cos({t} / 2), -1j * np.sin({t} / 2)], [-1j * np.sin({t} / 2), np.cos({t} / 2)]]), 1), [{b}, {a}])"),
        ("gates.CU1({a}, {b}, {t})", "(np.diag([1, 1, 1, np.exp(1j * {t})]), [{a}, {b}])"),
        ("gates.Y({a}).controlled_by({b}, {c})", "(ctrl(np.array([[0, -1j], [1j, 0]]), 2), [{b}, {c}, {a}])"),
    ]


def caller_array_suite(ctx, density=False):
    """the initial state the caller hands in is the caller's: whatever the first gate is
    (controlled_by with one / adjacent / scattered controls, plain, wide), the array is unchanged
    afterwards and a second execution from it gives the same result"""
    prop = "C02" if density else "C01"
    ob = f"{prop}_search_caller_array"
    rng = ctx.rng
    ok = True
    firsts = [
        ("gates.RX(1, 0.7).controlled_by(0)", "(ctrl(RX, 1), [0, 1])"),
        ("gates.RX(2, 0.7).controlled_by(0, 1)", "(ctrl(RX, 2), [0, 1, 2])"),
        ("gates.RX(0, 0.7).controlled_by(2)", "(ctrl(RX, 1), [2, 0])"),
        ("gates.RX(1, 0.7).controlled_by(3, 0)", "(ctrl(RX, 2), [3, 0, 1])"),
        ("gates.RX(3, 0.7).controlled_by(0, 1, 2)", "(ctrl(RX, 3), [0, 1, 2, 3])"),
        ("gates.CNOT(0, 1)", "(np.array([[1, 0, 0, 0], [0, 1, 0, 0], [0, 0, 0, 1], [0, 0, 1, 0]]), [0, 1])"),
        ("gates.RX(2, 0.7)", "(RX, [2])"),
        ("gates.Unitary(np.kron(RX, RX), 3, 1)", "(np.kron(RX, RX), [3, 1])"),
        ("gates.fSim(1, 2, 0.4, 0.9).controlled_by(0)", "(ctrl(np.array([[1, 0, 0, 0], [0, np.cos(0.4), -1j * np.sin(0.4), 0], [0, -1j * np.sin(0.4), np.cos(0.4), 0], [0, 0, 0, np.exp(-0.9j)]]), 1), [0, 1, 2])"),
    ]
    for dtype in ("complex128", "complex64", "float64"):
        for gsrc, osrc in firsts:
            seed = rng.randint(0, 2**31)
            body = (f"DENSITY = {density}\nRX = np.array([[np.cos(0.35), -1j * np.sin(0.35)], [-1j * np.sin(0.35), np.cos(0.35)]])\n"
                    f"r = np.random.default_rng({seed})\npsi = r.normal(size=16) + (0 if '{dtype}' == 'float64' else 1j) * r.normal(size=16); psi = psi / np.linalg.norm(psi)\n"
                    f"init = (dm_of(psi) if DENSITY else psi).astype('{dtype}')\nkeep = init.copy()\n"
                    f"c = Circuit(4, density_matrix=DENSITY)\nc.add({gsrc})\nc.add(gates.H(3))\n"
                    f"ops = [{osrc}, ({_H}, [3])]\n"
                    "out1 = np.asarray(nb.execute_circuit(c, initial_state=init).state()).copy()\n"
                    "same = np.array_equal(init, keep)\n"
                    "out2 = np.asarray(nb.execute_circuit(c, initial_state=init).state()).copy()\n"
                    "ref = ref_run(4, ops, keep.astype(complex) if not DENSITY else psi.astype(complex))\n"
                    "ref = dm_of(ref_run(4, ops, psi.astype(complex))) if DENSITY else ref\n"
                    f"tol = 1e-5 if '{dtype}' == 'complex64' else 1e-9\n"
                    "d = max(np.abs(out1 - ref).max(), np.abs(out2 - ref).max())\n")
            key = "caller-array:" + ("controlled" if "controlled_by" in gsrc else "plain")
            ctx.case((key, gsrc, dtype))
            ctx.stat(f"caller_array:{dtype}")
            env = dict(ns())
            try:
                exec(body, env)  # noqa: S102
            except Exception as e:  # noqa: BLE001
                ok = False
                _fail(ctx, key + ":raises", f"{type(e).__name__}: {e} ({gsrc}, {dtype})", body + "sys.exit(0)\n", ob)
                continue
            if not env["same"] or not env["d"] < env["tol"]:
                ok = False
                _fail(ctx, key, f"execution of [{gsrc}, H(3)] from the caller's {dtype} {'density matrix' if density else 'state vector'}: "
                      f"caller's array unchanged = {env['same']}; deviation of the first / second result from the explicit contraction {env['d']:.3e}",
                      body + "print(same, d)\nsys.exit(0 if same and d < tol else 1)\n", ob)
    ctx.ob(ob, ok, "search", "" if ok else "the caller's initial state is modified or a second execution differs")


def deep_suite(ctx, density=False):
    """circuits of 70..300 queue entries on 3 qubits with generic complex coherences: the result is
    the product of the documented matrices whatever the depth (a periodic clean-up step, a cache
    flushed every so many gates … only shows beyond the depth of every test)"""
    prop = "C02" if density else "C01"
    ob = f"{prop}_search_deep"
    rng = ctx.rng
    ok = True
    pool = _gate_pool()
    for depth in ([70, 130, 200, 300] if ctx.thorough else [70, 130, 260]):
        lines = [f"DENSITY = {density}", f"c = Circuit(3, density_matrix=DENSITY)", "ops = []"]
        for _ in range(depth):
            g, o = rng.choice(pool)
            a, b, c_ = rng.sample(range(3), 3)
            f = {"a": a, "b": b, "c": c_, "t": repr(round(rng.uniform(-3, 3), 5))}
            lines.append(f"c.add({g.format(**f)}); ops.append({o.format(**f)})")
        seed = rng.randint(0, 2**31)
        body = "\n".join(lines) + (f"\nr = np.random.default_rng({seed})\npsi = r.normal(size=8) + 1j * r.normal(size=8); psi /= np.linalg.norm(psi)\n"
                                   "init = dm_of(psi) if DENSITY else psi\n"
                                   "out = np.asarray(nb.execute_circuit(c, initial_state=init.copy()).state())\n"
                                   "ref = ref_run(3, ops, psi); ref = dm_of(ref) if DENSITY else ref\nd = np.abs(out - ref).max()\n")
        ctx.case(("deep", depth, seed))
        ctx.stat(f"deep:{depth}")
        env = dict(ns())
        try:
            exec(body, env)  # noqa: S102
        except Exception as e:  # noqa: BLE001
            ok = False
            _fail(ctx, "deep:raises", f"{type(e).__name__}: {e} (depth {depth})", body + "sys.exit(0)\n", ob)
            continue
        if not env["d"] < 1e-9:
            ok = False
            _fail(ctx, "deep:state", f"a 3-qubit circuit of {depth} gates executed from a generic complex state: deviation {env['d']:.3e} from the product of the documented matrices",
                  body + "print(d)\nsys.exit(0 if d < 1e-9 else 1)\n", ob)
    ctx.ob(ob, ok, "search", "" if ok else "deep circuits deviate")


def tiny_control_suite(ctx, density=False):
    """controlled gates on states whose 'all controls set' weight is tiny but not zero
    (1e-6 … 1e-24): coherences scale like the square root of that weight, so skipping the gate
    below a probability threshold is visible at 1e-12"""
    prop = "C02" if density else "C01"
    ob = f"{prop}_search_tiny_control"
    rng = ctx.rng
    ok = True
    for eps in (1e-3, 2e-4, 1e-5, 1e-7, 1e-12):
        for gsrc, osrc in (("gates.RX(1, 1.1).controlled_by(0)", "(ctrl(RX, 1), [0, 1])"), ("gates.CNOT(0, 2)", "(np.array([[1, 0, 0, 0], [0, 1, 0, 0], [0, 0, 0, 1], [0, 0, 1, 0]]), [0, 2])"),
                           ("gates.Y(2).controlled_by(0, 1)", "(ctrl(np.array([[0, -1j], [1j, 0]]), 2), [0, 1, 2])"), ("gates.CU3(0, 1, 0.3, 0.8, -0.4)", "(ctrl(U3, 1), [0, 1])")):
            body = (f"DENSITY = {density}\neps = {eps!r}\nRX = np.array([[np.cos(0.55), -1j * np.sin(0.55)], [-1j * np.sin(0.55), np.cos(0.55)]])\n"
                    "U3 = np.array([[np.exp(-0.2j) * np.cos(0.15), -np.exp(-0.6j) * np.sin(0.15)], [np.exp(0.6j) * np.sin(0.15), np.exp(0.2j) * np.cos(0.15)]])\n"
                    "ry = lambda t: np.array([[np.cos(t / 2), -np.sin(t / 2)], [np.sin(t / 2), np.cos(t / 2)]])\n"
                    "c = Circuit(3, density_matrix=DENSITY)\nc.add(gates.RY(0, eps)); c.add(gates.RY(1, 0.9)); c.add(gates.RY(2, 1.3)); c.add(gates.RZ(1, 0.4))\n"
                    f"c.add({gsrc})\nc.add(gates.H(0))\n"
                    f"ops = [(ry(eps), [0]), (ry(0.9), [1]), (ry(1.3), [2]), (np.diag([np.exp(-0.2j), np.exp(0.2j)]), [1]), {osrc}, ({_H}, [0])]\n"
                    "out = np.asarray(nb.execute_circuit(c).state())\nref = ref_run(3, ops); ref = dm_of(ref) if DENSITY else ref\nd = np.abs(out - ref).max()\n")
            ctx.case(("tiny-control", eps, gsrc))
            ctx.stat("tiny_control")
            env = dict(ns())
            try:
                exec(body, env)  # noqa: S102
            except Exception as e:  # noqa: BLE001
                ok = False
                _fail(ctx, "tiny-control:raises", f"{type(e).__name__}: {e}", body + "sys.exit(0)\n", ob)
                continue
            if not env["d"] < 1e-12:
                ok = False
                _fail(ctx, "tiny-control:state", f"[RY(0, {eps}), …, {gsrc}, H(0)]: the control is set with weight ≈ {(eps / 2) ** 2:.1e}; deviation {env['d']:.3e} from the product of the documented matrices",
                      body + "print(d)\nsys.exit(0 if d < 1e-12 else 1)\n", ob)
    ctx.ob(ob, ok, "search", "" if ok else "controlled gates are mis-applied when the control weight is tiny")


# ---------------------------------------------------------------------------------------------
# other public entry points: per-gate hooks, fused unitary, circuit as initial state, zero parameters


def hooks_suite(ctx, density=False):
    """`Gate.apply` / `Gate.apply_density_matrix` and `backend.apply_gate(_density_matrix)` called
    directly (as user code, callbacks and other backends do) on states of every numeric kind"""
    prop = "C02" if density else "C01"
    ob = f"{prop}_search_gate_hooks"
    rng = ctx.rng
    ok = True
    gates_src = [
        ("gates.RX(1, 0.7).controlled_by(0)", "ctrl(RXm, 1)", [0, 1]), ("gates.RX(0, 0.7).controlled_by(2, 1)", "ctrl(RXm, 2)", [2, 1, 0]),
        ("gates.RX(2, 0.7)", "RXm", [2]), ("gates.CNOT(2, 0)", "np.array([[1, 0, 0, 0], [0, 1, 0, 0], [0, 0, 0, 1], [0, 0, 1, 0]])", [2, 0]),
        ("gates.Y(1).controlled_by(2)", "ctrl(np.array([[0, -1j], [1j, 0]]), 1)", [2, 1]), ("gates.Unitary(np.kron(RXm, RXm), 2, 0)", "np.kron(RXm, RXm)", [2, 0]),
        ("gates.CU3(1, 2, 0.3, 0.8, -0.4)", "ctrl(np.array([[np.exp(-0.2j) * np.cos(0.15), -np.exp(-0.6j) * np.sin(0.15)], [np.exp(0.6j) * np.sin(0.15), np.exp(0.2j) * np.cos(0.15)]]), 1)", [1, 2]),
    ]
    for kind in ("float64", "complex128", "complex64", "int64"):
        for gsrc, msrc, qs in gates_src:
            seed = rng.randint(0, 2**31)
            body = (f"DENSITY = {density}\nRXm = np.array([[np.cos(0.35), -1j * np.sin(0.35)], [-1j * np.sin(0.35), np.cos(0.35)]])\nr = np.random.default_rng({seed})\n"
                    f"kind = '{kind}'\n"
                    "if kind == 'int64':\n    psi = r.integers(-3, 4, size=8).astype(float); psi[0] += 1\n"
                    "elif kind == 'float64':\n    psi = r.normal(size=8)\nelse:\n    psi = r.normal(size=8) + 1j * r.normal(size=8)\n"
                    "state = (np.outer(psi, np.conj(psi)) if DENSITY else psi).astype(kind)\nkeep = state.copy()\n"
                    f"g = {gsrc}\nm = {msrc}\n"
                    "ref = ref_apply(psi.astype(complex), m, " + repr(qs) + ", 3)\nref = dm_of(ref) if DENSITY else ref\n"
                    "a = np.asarray(g.apply_density_matrix(nb, state, 3) if DENSITY else g.apply(nb, state, 3))\n"
                    "same = np.array_equal(state, keep)\n"
                    f"g2 = {gsrc}\n"
                    "b = np.asarray(nb.apply_gate_density_matrix(g2, keep.copy(), 3) if DENSITY else nb.apply_gate(g2, keep.copy(), 3))\n"
                    "scale = max(1.0, float(np.abs(ref).max()))\ntol = (1e-4 if kind == 'complex64' else 1e-9) * scale\n"
                    "d = max(np.abs(a - ref).max(), np.abs(b - ref).max())\n")
            key = f"gate-hook:{kind}:" + ("controlled" if "controlled_by" in gsrc else "plain")
            ctx.case((key, gsrc))
            ctx.stat(f"gate_hooks:{kind}")
            env = dict(ns())
            try:
                exec(body, env)  # noqa: S102
            except Exception as e:  # noqa: BLE001
                if kind == "int64" and isinstance(e, (TypeError, ValueError)):
                    ctx.stat("gate_hooks:int64:refused")
                    continue
                ok = False
                _fail(ctx, key + ":raises", f"{type(e).__name__}: {e} ({gsrc}, {kind})", body + "sys.exit(0)\n", ob)
                continue
            if not env["d"] < env["tol"]:
                ok = False
                _fail(ctx, key, f"{gsrc} applied through Gate.apply{'_density_matrix' if density else ''} / backend.apply_gate{'_density_matrix' if density else ''} to a {kind} "
                      f"{'density matrix' if density else 'state'}: deviation {env['d']:.3e} from the explicit contraction (input unchanged: {env['same']})",
                      body + "print(d, same)\nsys.exit(0 if d < tol else 1)\n", ob)
    ctx.ob(ob, ok, "search", "" if ok else "a per-gate entry point mis-applies a gate")


def views_suite(ctx, density=False):
    """the same circuit through its other public views: `fuse().unitary()`, `unitary()` of a
    circuit holding fused gates, a circuit used as initial state after its own earlier execution
    from a custom state, a density-matrix circuit handed a state vector (refused or right), and
    every parametrised class with all parameters zero / equal"""
    prop = "C02" if density else "C01"
    ob = f"{prop}_search_views"
    rng = ctx.rng
    ok = True
    pool = _gate_pool()
    for it in range(6 if ctx.thorough else 3):
        lines = [f"DENSITY = {density}", "c = Circuit(3, density_matrix=DENSITY)", "prep = Circuit(3, density_matrix=DENSITY)", "ops = []", "pops = []"]
        for tgt, lst, cnt in (("c", "ops", rng.randint(6, 14)), ("prep", "pops", rng.randint(2, 5))):
            for _ in range(cnt):
                g, o = rng.choice(pool)
                a, b, c_ = rng.sample(range(3), 3)
                f = {"a": a, "b": b, "c": c_, "t": repr(round(rng.uniform(-3, 3), 5))}
                lines.append(f"{tgt}.add({g.format(**f)}); {lst}.append({o.format(**f)})")
        seed = rng.randint(0, 2**31)
        body = "\n".join(lines) + (f"\nr = np.random.default_rng({seed})\npsi = r.normal(size=8) + 1j * r.normal(size=8); psi /= np.linalg.norm(psi)\n"
                                   "U = np.eye(8, dtype=complex)\nfor m, qs in ops:\n    U = np.stack([ref_apply(U[:, j], m, qs, 3) for j in range(8)], axis=1)\n"
                                   "res = {}\n"
                                   "res['unitary'] = np.abs(np.asarray(c.unitary(nb)) - U).max()\n"
                                   "for mq in (1, 2, 3):\n"
                                   "    fc = c.fuse(max_qubits=mq)\n"
                                   "    res[f'fuse{mq}-unitary'] = np.abs(np.asarray(fc.unitary(nb)) - U).max()\n"
                                   "    out = np.asarray(nb.execute_circuit(fc, initial_state=(dm_of(psi) if DENSITY else psi).copy()).state())\n"
                                   "    ref = U @ psi; ref = dm_of(ref) if DENSITY else ref\n"
                                   "    res[f'fuse{mq}-execute'] = np.abs(out - ref).max()\n"
                                   "# the preparation circuit is first executed from a custom state, then used as initial state\n"
                                   "nb.execute_circuit(prep, initial_state=(dm_of(psi) if DENSITY else psi).copy())\n"
                                   "out = np.asarray(nb.execute_circuit(c, initial_state=prep).state())\n"
                                   "ref = ref_run(3, pops + ops); ref = dm_of(ref) if DENSITY else ref\n"
                                   "res['circuit-as-initial-state'] = np.abs(out - ref).max()\n"
                                   "out = np.asarray(nb.execute_circuit(c, initial_state=prep).state())\n"
                                   "res['circuit-as-initial-state-again'] = np.abs(out - ref).max()\n"
                                   "if DENSITY:\n"
                                   "    try:\n"
                                   "        out = np.asarray(nb.execute_circuit(c, initial_state=psi.copy()).state())\n"
                                   "        res['vector-for-density-matrix'] = np.abs(out - dm_of(U @ psi)).max()\n"
                                   "    except Exception:\n        pass\n"
                                   "worst = max(res, key=res.get)\n")
        ctx.case(("views", it, seed))
        ctx.stat("views")
        env = dict(ns())
        try:
            exec(body, env)  # noqa: S102
        except Exception as e:  # noqa: BLE001
            ok = False
            _fail(ctx, "views:raises", f"{type(e).__name__}: {e}", body + "sys.exit(0)\n", ob)
            continue
        res = env["res"]
        for k, v in res.items():
            if not v < 1e-9:
                ok = False
                _fail(ctx, f"views:{k.rstrip('123')}" if k.startswith("fuse") else f"views:{k}", f"{k} of a random 3-qubit circuit deviates by {v:.3e} from the product of the documented matrices",
                      body + f"print(res)\nsys.exit(0 if res[{k!r}] < 1e-9 else 1)\n", ob)
    # all parameters zero / all equal, every parametrised class, executed in a circuit
    from vlib import qgates

    infos = qgates.gate_infos()
    names = [nm for nm, inf in sorted(infos.items()) if inf.generic and inf.np and 1 <= inf.nq <= 3]
    for t in (0.0, 0, np.pi, 0.5):
        body = f"DENSITY = {density}\nfrom qibo.backends import NumpyBackend\nbad = []\nr = np.random.default_rng(5)\n"
        body += "psi = r.normal(size=16) + 1j * r.normal(size=16); psi /= np.linalg.norm(psi)\n"
        for nm in names:
            inf = infos[nm]
            qs = rng.sample(range(4), inf.nq)
            ps = [t] * inf.np
            body += ("try:\n"
                     f"    g = gates.{nm}(*{qs}, *{ps!r})\n    m0 = np.asarray(gates.{nm}(*{list(range(len(qs)))}, *{[float(x) + 0.0 for x in ps]!r}).matrix(NumpyBackend()))\n"
                     "    c = Circuit(4, density_matrix=DENSITY); c.add(gates.H(0)); c.add(g)\n"
                     "    out = np.asarray(nb.execute_circuit(c, initial_state=(dm_of(psi) if DENSITY else psi).copy()).state())\n"
                     f"    ref = ref_apply(ref_apply(psi, {_H}, [0], 4), m0, {qs}, 4); ref = dm_of(ref) if DENSITY else ref\n"
                     f"    if not np.allclose(out, ref, atol=1e-9): bad.append(('{nm}', {qs}))\n"
                     "except ValueError:\n    pass\n")
        ctx.case(("all-equal-parameters", repr(t)))
        ctx.stat("views:all-equal-parameters", len(names))
        env = dict(ns())
        try:
            exec(body, env)  # noqa: S102
            if env["bad"]:
                ok = False
                _fail(ctx, "views:all-equal-parameters", f"gates with every parameter = {t!r} executed after H(0): {env['bad'][:6]} are not applied as their own matrix",
                      body + "print(bad)\nsys.exit(1 if bad else 0)\n", ob)
        except Exception as e:  # noqa: BLE001
            ok = False
            _fail(ctx, "views:raises", f"{type(e).__name__}: {e}", body + "sys.exit(0)\n", ob)
    ctx.ob(ob, ok, "search", "" if ok else "another public view of the circuit deviates")


def special_layout_suite(ctx, density=False):
    """layouts and histories a shortcut inside the backend loop would get wrong: diagonal
    matrix-valued gates on non-ascending qubits, adjacent gates of one class that differ only in
    controls added by `controlled_by`, gates added after `compile()`"""
    prop = "C02" if density else "C01"
    ob = f"{prop}_search_special_layouts"
    rng = ctx.rng
    ok = True
    cases = []
    # diagonal unitaries with a diagonal that is not symmetric under qubit exchange
    for qs in ([2, 0], [1, 0], [3, 1], [2, 0, 1], [3, 0, 2], [0, 2], [1, 3, 2]):
        k = len(qs)
        ph = [round(rng.uniform(-3, 3), 4) for _ in range(2**k)]
        cases.append(("diagonal-unitary", f"c.add(gates.Unitary(np.diag(np.exp(1j * np.array({ph}))), *{qs}))\nops.append((np.diag(np.exp(1j * np.array({ph}))), {qs}))\n"))
    # adjacent pairs of one class differing only in controlled_by controls / placement
    X = "np.array([[0, 1], [1, 0]])"
    for a, b in (("gates.H(1)", "gates.H(1).controlled_by(0)"), ("gates.H(1).controlled_by(0)", "gates.H(1)"), ("gates.X(3).controlled_by(0, 1, 2)", "gates.X(3)"),
                 ("gates.Z(2)", "gates.Z(2).controlled_by(0, 3)"), ("gates.Y(0).controlled_by(2)", "gates.Y(0).controlled_by(3)"), ("gates.SWAP(0, 1)", "gates.SWAP(0, 1).controlled_by(3)"),
                 ("gates.H(2)", "gates.H(2)"), ("gates.CNOT(0, 1)", "gates.CNOT(0, 1)")):
        def op(src):
            base = src.split(".controlled_by")[0]
            cs = eval("[" + src.split(".controlled_by(")[1].rstrip(")") + "]") if ".controlled_by(" in src else []
            name = base.split("(")[0].split(".")[1]
            args = eval("[" + base.split("(")[1].rstrip(")") + "]")
            m = {"H": _H, "X": X, "Y": "np.array([[0, -1j], [1j, 0]])", "Z": "np.diag([1, -1])",
                 "SWAP": "np.array([[1, 0, 0, 0], [0, 0, 1, 0], [0, 1, 0, 0], [0, 0, 0, 1]])",
                 "CNOT": "np.array([[1, 0, 0, 0], [0, 1, 0, 0], [0, 0, 0, 1], [0, 0, 1, 0]])"}[name]
            return f"(ctrl({m}, {len(cs)}), {cs + args})"
        cases.append(("adjacent-same-class", f"c.add({a}); ops.append({op(a)})\nc.add({b}); ops.append({op(b)})\n"))
    for key, gsrc in cases:
        seed = rng.randint(0, 2**31)
        body = (f"DENSITY = {density}\nc = Circuit(4, density_matrix=DENSITY)\nops = []\nc.add(gates.RY(0, 0.4)); ops.append((np.array([[np.cos(0.2), -np.sin(0.2)], [np.sin(0.2), np.cos(0.2)]]), [0]))\n"
                + gsrc + f"c.add(gates.H(3)); ops.append(({_H}, [3]))\n"
                f"r = np.random.default_rng({seed})\npsi = r.normal(size=16) + 1j * r.normal(size=16); psi /= np.linalg.norm(psi)\n"
                "init = dm_of(psi) if DENSITY else psi\nout = np.asarray(nb.execute_circuit(c, initial_state=init.copy()).state())\n"
                "ref = ref_run(4, ops, psi); ref = dm_of(ref) if DENSITY else ref\nd = np.abs(out - ref).max()\n"
                "out2 = np.asarray(nb.execute_circuit(c.copy(deep=True), initial_state=init.copy()).state())\nd = max(d, np.abs(out2 - ref).max())\n")
        ctx.case(("special-layout", key, gsrc))
        ctx.stat(f"special_layouts:{key}")
        env = dict(ns())
        try:
            exec(body, env)  # noqa: S102
        except Exception as e:  # noqa: BLE001
            ok = False
            _fail(ctx, f"special-layout:{key}:raises", f"{type(e).__name__}: {e}", body + "sys.exit(0)\n", ob)
            continue
        if not env["d"] < 1e-9:
            ok = False
            _fail(ctx, f"special-layout:{key}", f"{key}: a 4-qubit circuit [RY(0), …, H(3)] with {gsrc.splitlines()[0][:120]} deviates by {env['d']:.3e} from the product of the documented matrices",
                  body + "print(d)\nsys.exit(0 if d < 1e-9 else 1)\n", ob)
    # compile(), then add, then execute (where the backend supports compile)
    body = (f"DENSITY = {density}\nc = Circuit(3, density_matrix=DENSITY)\nc.add(gates.H(0)); c.add(gates.CNOT(0, 1))\n"
            "try:\n    c.compile()\n    compiled = True\nexcept Exception:\n    compiled = False\n"
            "c.add(gates.RY(2, 0.9)); c.add(gates.CNOT(1, 2))\n"
            f"ops = [({_H}, [0]), (np.array([[1, 0, 0, 0], [0, 1, 0, 0], [0, 0, 0, 1], [0, 0, 1, 0]]), [0, 1]),\n"
            "       (np.array([[np.cos(0.45), -np.sin(0.45)], [np.sin(0.45), np.cos(0.45)]]), [2]), (np.array([[1, 0, 0, 0], [0, 1, 0, 0], [0, 0, 0, 1], [0, 0, 1, 0]]), [1, 2])]\n"
            "try:\n    out = np.asarray(c().state())\nexcept Exception:\n    out = None\n"
            "ref = ref_run(3, ops); ref = dm_of(ref) if DENSITY else ref\nd = 0.0 if out is None else np.abs(out - ref).max()\n")
    env = dict(ns())
    ctx.case(("compile-add",))
    try:
        exec(body, env)  # noqa: S102
        ctx.stat("special_layouts:compile-" + ("ok" if env["compiled"] else "unsupported"))
        if not env["d"] < 1e-9:
            ok = False
            _fail(ctx, "special-layout:compile-then-add", f"gates added after Circuit.compile() and before the first execution are not applied (deviation {env['d']:.3e})",
                  body + "print(d)\nsys.exit(0 if d < 1e-9 else 1)\n", ob)
    except Exception as e:  # noqa: BLE001
        ok = False
        _fail(ctx, "special-layout:compile:raises", f"{type(e).__name__}: {e}", body + "sys.exit(0)\n", ob)
    ctx.ob(ob, ok, "search", "" if ok else "a special layout or history is mis-executed")


# ---------------------------------------------------------------------------------------------
# one matrix, many memory layouts


LAYOUTS = {
    "c-order": "np.ascontiguousarray(u)",
    "fortran": "np.asfortranarray(u)",
    "transposed-view": "np.ascontiguousarray(u.T).T",
    "conj-of-transposed-view": "np.conj(np.ascontiguousarray(np.conj(u)).T).T",
    "strided-slice": "np.kron(u, np.ones((2, 2)))[::2, ::2]",
    "fortran-strided-slice": "np.asfortranarray(np.kron(u, np.ones((2, 2))))[::2, ::2]",
}
# how the gate is derived from `gates.Unitary(a, *ts)`; `m` is the matrix it must apply to ts
DERIVED = {
    "plain": ("gates.Unitary(a, *ts).controlled_by(*cs)", "u"),
    "dagger-of-controlled": ("gates.Unitary(a, *ts).controlled_by(*cs).dagger()", "np.conj(u.T)"),
    "controlled-of-dagger": ("gates.Unitary(a, *ts).dagger().controlled_by(*cs)", "np.conj(u.T)"),
    "dagger-twice": ("gates.Unitary(a, *ts).controlled_by(*cs).dagger().dagger()", "u"),
}


def unitary_layout_suite(ctx, density=False):
    """`gates.Unitary` built from the SAME matrix held in different memory layouts (C order,
    Fortran order, transposed / strided views), on 1-2 targets in any order with
    0-2 controls, also through `dagger()`: the operator applied is the matrix, whatever its
    strides are"""
    prop = "C02" if density else "C01"
    ob = f"{prop}_search_unitary_memory_layout"
    rng = ctx.rng
    ok = True
    combos = [(lay, der, nc) for lay in LAYOUTS for der in DERIVED for nc in (0, 1, 2)]
    if not ctx.thorough:
        combos = [c for c in combos if c[1] == "plain"] + rng.sample([c for c in combos if c[1] != "plain"], 16)
    for lay, der, nc in combos:
        k = rng.randint(1, 2)
        n = k + nc + rng.randint(0, 2)
        qs = rng.sample(range(n), k + nc)
        ts, cs = qs[:k], qs[k:]
        u = _haar(rng, 2**k)
        gsrc, msrc = DERIVED[der]
        if not cs:
            gsrc = gsrc.replace(".controlled_by(*cs)", "")
        seed = rng.randint(0, 2**31)
        body = (f"DENSITY = {density}\nn = {n}; ts = {ts}; cs = {cs}\nu = {arr(u)}\na = {LAYOUTS[lay]}\n"
                f"g = {gsrc}\nm = {msrc}\n"
                f"r = np.random.default_rng({seed}); psi = r.normal(size=2 ** n) + 1j * r.normal(size=2 ** n); psi /= np.linalg.norm(psi)\n"
                "c = Circuit(n, density_matrix=DENSITY)\nc.add(gates.H(0)); c.add(g)\n"
                f"ops = [({_H}, [0]), (ctrl(m, len(cs)), cs + ts)]\n"
                "out = np.asarray(nb.execute_circuit(c, initial_state=dm_of(psi) if DENSITY else psi.copy()).state())\n"
                "ref = ref_run(n, ops, psi); ref = dm_of(ref) if DENSITY else ref\nd = np.abs(out - ref).max()\n"
                "full = np.array([ref_run(n, ops, e) for e in np.eye(2 ** n)]).T\ndu = np.abs(np.asarray(c.unitary(nb)) - full).max()\n")
        ctx.case(("unitary-layout", lay, der, nc, k))
        ctx.stat("unitary_layout")
        env = dict(ns())
        try:
            exec(body, env)  # noqa: S102
        except Exception as e:  # noqa: BLE001
            ok = False
            _fail(ctx, f"unitary-layout:raises:{lay}", f"{type(e).__name__}: {e}", body + "sys.exit(0)\n", ob)
            continue
        if not env["d"] < 1e-9:
            ok = False
            ctx.fail(f"unitary-layout:{lay}:{nc}", f"{gsrc} with a = {LAYOUTS[lay]} (targets {ts}, controls {cs}, {n} qubits): the executed state differs by {env['d']:.3e} from the embedded controlled matrix",
                     PRE + body + "print(d)\nsys.exit(0 if d < 1e-9 else 1)\n", expected="max |out - ref| < 1e-9", observed=f"{env['d']:.3e}", broken=[ob])
        if not env["du"] < 1e-9:
            ok = False
            ctx.fail(f"unitary-layout:unitary:{lay}:{nc}", f"Circuit.unitary() of [H(0), {gsrc}] with a = {LAYOUTS[lay]} (targets {ts}, controls {cs}) differs by {env['du']:.3e} from the embedded controlled matrix",
                     PRE + body + "print(du)\nsys.exit(0 if du < 1e-9 else 1)\n", expected="max |unitary - ref| < 1e-9", observed=f"{env['du']:.3e}", broken=[ob])
    ctx.ob(ob, ok, "search", "" if ok else "a Unitary is applied wrongly depending on the memory layout of its array")


def run_suites(ctx, density=False):
    qulacs_suite(ctx, density)
    wide_suite(ctx, density)
    same_parameter_suite(ctx, density)
    caller_array_suite(ctx, density)
    deep_suite(ctx, density)
    tiny_control_suite(ctx, density)
    hooks_suite(ctx, density)
    views_suite(ctx, density)
    special_layout_suite(ctx, density)
    unitary_layout_suite(ctx, density)
