"""C05 — dagger, control and relabelling are exact operations on gates and circuits."""
from __future__ import annotations

import math

import numpy as np

from vlib import gen, qgates
from vlib.proofs import build_and_audit, registry
from vlib.symtrace import S, BranchOnSymbol, Untranslatable

PROP = "C05"

# classes with matrix entries outside Q(zeta_16): symbolic obligations are skipped, the
# numeric search still covers them
OUTSIDE = {"SYC"}


# placements (register size, qubits) at which dagger() of a placed gate is traced and compared with
# the relabelled dagger() of the class template: descending and non-adjacent
PLACEMENTS = {1: [(2, [1])], 2: [(3, [2, 0])], 3: [(3, [1, 2, 0])]}


def fresh(info, qubits, params):
    return info.make(qubits, params)


def trace_obligations(ctx):
    infos = {k: v for k, v in qgates.gate_infos().items() if v.generic}
    tab = gen.Table(PROP)
    S.plan = qgates.assume_in_range_plan
    raised = []
    dagger_classes = []
    try:
        for name, info in sorted(infos.items()):
            k = info.np
            P0 = [S.par(i) for i in range(k)]
            P1 = [S.par(k + i) for i in range(k)]
            base_q = list(range(info.nq))
            sh_q = [q + 1 for q in base_q]  # leave qubit 0 free for an extra control

            def attempt(label, fn):
                try:
                    fn()
                except (Untranslatable, BranchOnSymbol) as e:
                    if name not in OUTSIDE:
                        ctx.ob(f"C05_{label}_{name}", False, "translator", f"{type(e).__name__}: {e}")
                except Exception as e:  # the real method raised on a documented input
                    raised.append((label, name, e))

            # (a) dagger = adjoint
            def a():
                g = fresh(info, base_q, P0)
                d = g.dagger()
                tab.ob_product(f"C05_dagger_{name}", k, info.nq, [qgates.sgate_of(d)],
                               [qgates.sgate_of(fresh(info, base_q, P0), dagger=True)], gate=name)
                # the class matrix (right side of the dagger obligation) is unitary, and hence
                # (QV/Proofs/Bridge.lean) the traced dagger() undoes the gate in the simulator
                # model: the hypothesis `hdag` of T05_invert_run for this class
                tab.ob(f"C05_unitary_{name}", f"unitaryCheck {k} ((o_C05_dagger_{name}.rs.headD default).mat)",
                       sem=f"QV.unitaryCheck_sound {k} ((o_C05_dagger_{name}.rs.headD default).mat) C05_unitary_{name}", gate=name)
                tab.corollary(f"C05_dagger_{name}_undo", f"QV.Ob.DaggerUndoes o_C05_dagger_{name}",
                              f"QV.Ob.daggerUndoes_of_check o_C05_dagger_{name} (by decide +kernel) C05_dagger_{name} C05_unitary_{name}",
                              needs=[f"C05_dagger_{name}", f"C05_unitary_{name}"])
                dagger_classes.append(name)
            attempt("dagger", a)

            has_class_controls = bool(fresh(info, base_q, P0).control_qubits)

            # (b) dagger of a controlled_by gate
            if not has_class_controls:
                def b():
                    g = fresh(info, sh_q, P0).controlled_by(0)
                    d = g.dagger()
                    ref = fresh(info, sh_q, P0)
                    tab.ob_product(f"C05_dagger_cb_{name}", k, info.nq + 1, [qgates.sgate_of(d)],
                                   [(qgates.traced_matrix(ref), list(ref.qubits), [0], True)], gate=name)
                attempt("dagger_cb", b)

                # (c) controlled_by with 1 and 2 controls = controlled operator
                for nc in (1, 2):
                    def c(nc=nc):
                        qs = [q + nc for q in base_q]
                        cs = list(range(nc))
                        r = fresh(info, qs, P0).controlled_by(*cs)
                        ref = fresh(info, qs, P0)
                        tab.ob_product(f"C05_ctrl{nc}_{name}", k, info.nq + nc, [qgates.sgate_of(r)],
                                       [(qgates.traced_matrix(ref), list(ref.qubits), cs, False)], gate=name)
                    attempt(f"ctrl{nc}", c)

            # (e) on_qubits relabelling (a non-monotone map)
            def e():
                n = info.nq + 1
                sigma = {q: (n - 1 - q) for q in range(n)}
                r = fresh(info, base_q, P0).on_qubits(sigma)
                ref = fresh(info, [sigma[q] for q in base_q], P0)
                tab.ob_product(f"C05_onq_{name}", k, n, [qgates.sgate_of(r)], [qgates.sgate_of(ref)], gate=name)
            attempt("onq", e)

            # (f) dagger() of the gate PLACED on other qubits (descending, non-adjacent) is the class
            # template's dagger() moved there: left = traced dagger() of the placed gate, right = the
            # matrix traced from the dagger() of the TEMPLATE (qubits 0..k-1) on the relabelled qubits.
            # This is the modelling assumption of C05_invert_identity, decided for these placements.
            for idx, (n_, pq) in enumerate(PLACEMENTS.get(info.nq, [])):
                def f(n_=n_, pq=pq, idx=idx):
                    d = fresh(info, pq, P0).dagger()
                    trees, tq, tc, _ = qgates.sgate_of(fresh(info, base_q, P0).dagger())
                    sigma = dict(zip(base_q, pq))
                    tab.ob_product(f"C05_dagger_at{idx}_{name}", k, n_, [qgates.sgate_of(d)],
                                   [(trees, [sigma[q] for q in tq], [sigma[q] for q in tc], False)], gate=name)
                attempt(f"dagger_at{idx}", f)

            # (d) current parameter values after an update
            if k:
                def upd(g):
                    g.parameters = P1[0] if k == 1 else tuple(P1)
                    return g

                def d1():
                    g = upd(fresh(info, base_q, P0))
                    tab.ob_product(f"C05_cur_dagger_{name}", 2 * k, info.nq, [qgates.sgate_of(g.dagger())],
                                   [qgates.sgate_of(fresh(info, base_q, P1), dagger=True)], gate=name)
                attempt("cur_dagger", d1)

                def d2():
                    n = info.nq + 1
                    sigma = {q: (n - 1 - q) for q in range(n)}
                    g = upd(fresh(info, base_q, P0))
                    ref = fresh(info, [sigma[q] for q in base_q], P1)
                    tab.ob_product(f"C05_cur_onq_{name}", 2 * k, n, [qgates.sgate_of(g.on_qubits(sigma))],
                                   [qgates.sgate_of(ref)], gate=name)
                attempt("cur_onq", d2)

                if not has_class_controls:
                    def d3():
                        qs = [q + 1 for q in base_q]
                        g = upd(fresh(info, qs, P0)).controlled_by(0)
                        ref = fresh(info, qs, P1)
                        tab.ob_product(f"C05_cur_ctrl_{name}", 2 * k, info.nq + 1, [qgates.sgate_of(g)],
                                       [(qgates.traced_matrix(ref), list(ref.qubits), [0], False)], gate=name)
                    attempt("cur_ctrl", d3)

                def d4():
                    g = upd(fresh(info, base_q, P0))
                    dec = g.decompose()
                    tab.ob_product(f"C05_cur_decompose_{name}", 2 * k, info.nq, [qgates.sgate_of(x) for x in dec],
                                   [qgates.sgate_of(fresh(info, base_q, P1))], phase=True, gate=name)
                attempt("cur_decompose", d4)
    finally:
        S.plan = None
    # end to end (generated, because the class list is read from the source): every circuit
    # built from instances of the classes whose dagger obligation holds, followed by its
    # invert(), is the identity — QV.Props.C05.T05_invert_identity_of_classes
    tab.class_table("C05_classes", "QV.Ob.DaggerUndoes",
                    [(f"C05_dagger_{nm}", f"C05_dagger_{nm}_undo") for nm in dagger_classes])
    tab.corollary(
        "C05_invert_identity",
        "∀ (is : List QV.Props.C05.Inst),\n"
        "    (∀ i ∈ is, i.o ∈ C05_classes ∧ (∀ q, i.σ (i.τ q) = q) ∧ (∀ q, i.τ (i.σ q) = q)) →\n"
        "    ∀ ψ : Lab → ℂ, runCircuit (is.map QV.Props.C05.Inst.gate ++ QV.Props.C05.invertInst is) ψ = ψ",
        "QV.Props.C05.T05_invert_identity_of_classes C05_classes C05_classes_ok",
        needs=["C05_classes_ok"], imports=["QV.Props.C05b"])
    status, passed = tab.emit()
    ctx.stats["classes_in_generated_invert_identity"] = len([c for c in tab.cor_names if c.startswith("C05_dagger_") and c.endswith("_undo")])
    for name, expr, meta in tab.obs:
        ok, sup = status.get(name, (False, False))
        if not ok and (meta.get("gate") in OUTSIDE or not sup):
            if meta.get("gate") in OUTSIDE:
                ctx.stat("outside_fragment")
                continue
        ctx.ob(name, ok, "generated-kernel", "" if ok else ("outside the symbolic fragment" if not sup else "stage-1 evaluation is false"))
        ctx.case(("table", name))
    ctx.sample({"obligation": "C05_cur_dagger_U3", "meaning": "construct U3 with θ0 φ0 λ0, update to θ1 φ1 λ1, take dagger: ∀ six reals, matrix = (U3(θ1,φ1,λ1))ᴴ"})
    return raised


# ---------------------------------------------------------------------------
# numeric search on the real code (finds the concrete failing inputs)


def _vals(ctx, k):
    return [ctx.rng.choice([0.3, -1.1, 2.0, math.pi / 3, 0.7]) + ctx.rng.uniform(-0.05, 0.05) for _ in range(k)]


def gate_search(ctx, raised):
    infos = {k: v for k, v in qgates.gate_infos().items() if v.generic}
    pre = "from qibo import gates; import numpy as np\nfrom qibo.backends import NumpyBackend\nnb = NumpyBackend()\n"
    helper = (
        "def full(g, n):\n"
        "    import itertools\n"
        "    m = np.asarray(g.matrix(nb)); ts = list(g.target_qubits) if g.is_controlled_by else list(g.qubits)\n"
        "    cs = list(g.control_qubits) if g.is_controlled_by else []\n"
        "    N = 2**n; U = np.zeros((N, N), complex)\n"
        "    for i in range(N):\n"
        "        bi = [(i >> (n-1-q)) & 1 for q in range(n)]\n"
        "        if not all(bi[c] for c in cs): U[i, i] = 1; continue\n"
        "        li = int(''.join(str(bi[t]) for t in ts), 2)\n"
        "        for lj in range(2**len(ts)):\n"
        "            bj = list(bi)\n"
        "            for p, t in enumerate(ts): bj[t] = (lj >> (len(ts)-1-p)) & 1\n"
        "            U[i, int(''.join(map(str, bj)), 2)] = m[li, lj]\n"
        "    return U\n"
    )
    for label, name, e in raised:
        ctx.fail(f"raises:{label}:{name}", f"{label} of {name} raises {type(e).__name__}: {e}",
                 pre + f"# tracing {label} for gates.{name} raised {type(e).__name__}: {e}\nraise SystemExit(1)",
                 observed=f"{type(e).__name__}: {e}", broken=[f"C05_{label}_{name}"])
    reps = 6 if ctx.thorough else 2
    for name, info in sorted(infos.items()):
        for _ in range(reps):
            k = info.np
            v0, v1 = _vals(ctx, k), _vals(ctx, k)
            base_q = list(range(info.nq))
            try:
                g = info.make(base_q, v0)
            except Exception:
                continue
            n = info.nq
            U = qgates.gate_full_matrix(g, n)
            ctx.case(("gate", name, tuple(round(x, 3) for x in v0)))
            # the updated values must be accepted by the constructor too (the reference gate is
            # built from them): e.g. MS restricts theta to [0, pi/2]
            for _ in range(8):
                try:
                    info.make(base_q, v1)
                    break
                except Exception:
                    v1 = _vals(ctx, k)
            else:
                v1 = None
                ctx.stat(f"no_admissible_update_values_{name}")

            def chk(label, build, expected, nn, code):
                try:
                    r = build()
                    got = qgates.gate_full_matrix(r, nn) if not isinstance(r, list) else None
                    if isinstance(r, list):
                        got = np.eye(2**nn, dtype=complex)
                        for x in r:
                            got = qgates.gate_full_matrix(x, nn) @ got
                        ok = qgates.phase_equal(got, expected)
                    else:
                        ok = np.allclose(got, expected, atol=1e-9)
                except NotImplementedError as e:
                    ctx.stat(f"documented_refusal_{label}_{name}")  # e.g. X.decompose without free qubits
                    return
                except Exception as e:
                    ctx.fail(f"raises:{label}:{name}", f"{label} of {name} raises {type(e).__name__}: {e}",
                             pre + helper + code + "\n", observed=f"{type(e).__name__}: {e}", broken=[f"C05_{label}_{name}"])
                    return
                if not ok:
                    ctx.fail(f"{label}:{name}", f"{label} of gates.{name} with parameters {v0} (updated: {v1}) is not the expected operator",
                             pre + helper + code + "\n", expected=str(np.round(expected, 6).tolist()),
                             observed=str(np.round(got, 6).tolist()), broken=[f"C05_{label}_{name}"])

            args0 = f"*{base_q}, *{v0}"
            # dagger() of the gate placed on random (any order, non-adjacent) qubits of a larger register
            npl = n + 2
            pq = ctx.rng.sample(range(npl), n)
            try:
                Upl = qgates.gate_full_matrix(info.make(pq, v0), npl)
                Dpl = qgates.gate_full_matrix(info.make(pq, v0).dagger(), npl)
                if not np.allclose(Dpl, Upl.conj().T, atol=1e-9):
                    ctx.fail(f"dagger_placed:{name}", f"dagger() of gates.{name} on qubits {pq} with parameters {v0} is not the adjoint",
                             pre + helper + f"g = gates.{name}(*{pq}, *{v0})\nassert np.allclose(full(g.dagger(), {npl}), full(g, {npl}).conj().T, atol=1e-9)\n",
                             expected=str(np.round(Upl.conj().T, 6).tolist())[:400], observed=str(np.round(Dpl, 6).tolist())[:400],
                             broken=[f"C05_dagger_at{i}_{name}" for i in range(len(PLACEMENTS.get(n, [])))])
            except Exception:
                pass  # raising constructors / dagger() are reported by the checks below
            chk("dagger", lambda: info.make(base_q, v0).dagger(), U.conj().T, n,
                f"g = gates.{name}({args0}); d = g.dagger()\nassert np.allclose(full(d, {n}), full(g, {n}).conj().T, atol=1e-9)")
            # the gate followed by its dagger() is the identity (the per-class fact behind
            # T05_invert_run: obligations C05_dagger_<G> and C05_unitary_<G>)
            try:
                D = qgates.gate_full_matrix(info.make(base_q, v0).dagger(), n)
                if not np.allclose(D @ U, np.eye(2**n), atol=1e-9):
                    ctx.fail(f"undo:{name}", f"gates.{name} with parameters {v0} followed by its dagger() is not the identity",
                             pre + helper + f"g = gates.{name}({args0})\nassert np.allclose(full(g.dagger(), {n}) @ full(g, {n}), np.eye(2**{n}), atol=1e-9)\n",
                             expected="identity", observed=str(np.round(D @ U, 6).tolist()),
                             broken=[f"C05_unitary_{name}", f"C05_dagger_{name}"])
            except Exception:
                pass  # a raising dagger() is reported by the check above
            if k and v1 is not None:
                def upd():
                    gg = info.make(base_q, v0)
                    gg.parameters = v1[0] if k == 1 else tuple(v1)
                    return gg
                U1 = qgates.gate_full_matrix(info.make(base_q, v1), n)
                upcode = f"g = gates.{name}({args0}); g.parameters = {v1[0] if k == 1 else tuple(v1)}\nref = gates.{name}(*{base_q}, *{v1})\n"
                chk("cur_dagger", lambda: upd().dagger(), U1.conj().T, n,
                    upcode + f"assert np.allclose(full(g.dagger(), {n}), full(ref, {n}).conj().T, atol=1e-9)")
                chk("cur_decompose", lambda: upd().decompose(), U1, n,
                    upcode + f"P = np.eye(2**{n}, dtype=complex)\nfor x in g.decompose(): P = full(x, {n}) @ P\n"
                    f"R = full(ref, {n}); i = np.argmax(abs(R)); c = P.flat[i] / R.flat[i]\nassert abs(abs(c) - 1) < 1e-7 and np.allclose(P, c * R, atol=1e-9)")
            if not g.control_qubits:
                for nc in (1, 2, 3):
                    qs = [q + nc for q in base_q]
                    cs = list(range(nc))
                    ctx.rng.shuffle(cs)
                    nn = n + nc
                    exp = qgates.controlled(nn, cs, qgates.embed(nn, qs, np.asarray(info.make(qs, v0).matrix(qgates.np_backend()))))
                    code = (f"g = gates.{name}(*{qs}, *{v0}).controlled_by(*{cs})\nref = gates.{name}(*{qs}, *{v0})\n"
                            f"E = np.eye(2**{nn}, dtype=complex); R = full(ref, {nn})\n"
                            f"idx = [i for i in range(2**{nn}) if all((i >> ({nn}-1-c)) & 1 for c in {cs})]\n"
                            f"for i in idx:\n    for j in idx: E[i, j] = R[i, j]\n")
                    chk(f"ctrl{nc}" if nc < 3 else "ctrl3", lambda: info.make(qs, v0).controlled_by(*cs), exp, nn,
                        code + f"assert np.allclose(full(g, {nn}), E, atol=1e-9)")
                    chk("dagger_cb", lambda: info.make(qs, v0).controlled_by(*cs).dagger(), exp.conj().T, nn,
                        code + f"assert np.allclose(full(g.dagger(), {nn}), E.conj().T, atol=1e-9)")
            nn = n + 2
            perm = list(range(nn))
            ctx.rng.shuffle(perm)
            sigma = {q: perm[q] for q in range(nn)}
            exp = qgates.gate_full_matrix(info.make([sigma[q] for q in base_q], v0), nn)
            chk("onq", lambda: info.make(base_q, v0).on_qubits(sigma), exp, nn,
                f"g = gates.{name}({args0}).on_qubits({sigma})\nref = gates.{name}(*{[sigma[q] for q in base_q]}, *{v0})\n"
                f"assert np.allclose(full(g, {nn}), full(ref, {nn}), atol=1e-9)")


def circuit_search(ctx):
    """circuit-level operations on random circuits over the whole library (float)."""
    from qibo import Circuit

    nb = qgates.np_backend()
    infos = {k: v for k, v in qgates.gate_infos().items() if v.generic}
    names = sorted(infos)
    rng = ctx.rng
    bad = 0
    for _ in range(60 if ctx.thorough else 20):
        n = rng.randint(2, 4)
        c = Circuit(n)
        recipe = []
        for _ in range(rng.randint(1, 7)):
            info = infos[rng.choice(names)]
            if info.nq > n:
                continue
            qs = rng.sample(range(n), info.nq)
            vals = [round(rng.uniform(-3, 3), 3) for _ in range(info.np)]
            try:
                g = info.make(qs, vals)
            except Exception:
                continue
            cs = []
            rest = [q for q in range(n) if q not in qs]
            if rest and not g.control_qubits and rng.random() < 0.3:
                cs = rng.sample(rest, 1)
                try:
                    g = g.controlled_by(*cs)
                except Exception:
                    continue
            c.add(g)
            recipe.append((info.name, qs, vals, cs))
        if not recipe:
            continue
        ctx.case(("circuit", n, tuple((r[0], tuple(r[1]), tuple(r[3])) for r in recipe)))
        U = np.eye(2**n, dtype=complex)
        for g in c.queue:
            U = qgates.gate_full_matrix(g, n) @ U
        build = "c = Circuit(%d)\n" % n + "".join(
            f"c.add(gates.{nm}(*{qs}, *{vals})" + (f".controlled_by(*{cs})" if cs else "") + ")\n" for nm, qs, vals, cs in recipe)
        pre = "from qibo import Circuit, gates; import numpy as np\nfrom qibo.backends import NumpyBackend\nnb = NumpyBackend()\n" + build

        def un(circ):
            V = np.eye(2**circ.nqubits, dtype=complex)
            for g in circ.queue:
                V = qgates.gate_full_matrix(g, circ.nqubits) @ V
            return V

        try:
            inv = un(c.invert())
            if not np.allclose(inv @ U, np.eye(2**n), atol=1e-8):
                bad += 1
                first = next((nm for nm, qs, vals, cs in recipe
                              if not np.allclose(_single_inv(infos[nm], qs, vals, cs, n), np.eye(2**n), atol=1e-8)), recipe[0][0])
                ctx.fail(f"invert:{first}", f"circuit followed by its inverse is not the identity (gate {first})",
                         pre + "U = c.unitary(nb); V = c.invert().unitary(nb)\nassert np.allclose(V @ U, np.eye(len(U)), atol=1e-8)",
                         broken=[f"C05_dagger_{first}", "C05_corr_circuit"])
            cp = un(c.copy(deep=True))
            cs_ = un(c.copy(deep=False))
            add = un(c + c.invert())
            if not (np.allclose(cp, U, atol=1e-9) and np.allclose(cs_, U, atol=1e-9)):
                bad += 1
                ctx.fail("copy", "copy of a circuit has a different operator", pre + "assert np.allclose(c.copy(deep=True).unitary(nb), c.unitary(nb))", broken=["C05_corr_circuit"])
            if np.allclose(inv @ U, np.eye(2**n), atol=1e-8) and not np.allclose(add, np.eye(2**n), atol=1e-8):
                bad += 1
                ctx.fail("add", "c + c.invert() is not the identity although invert is correct", pre + "assert np.allclose((c + c.invert()).unitary(nb), np.eye(2**c.nqubits), atol=1e-8)", broken=["C05_corr_circuit"])
            # on_qubits: embed into a larger circuit on permuted qubits
            big = Circuit(n + 1)
            perm = rng.sample(range(n + 1), n)
            big.add(c.on_qubits(*perm))
            exp = np.eye(2 ** (n + 1), dtype=complex)
            for nm, qs, vals, cs in recipe:
                g = infos[nm].make([perm[q] for q in qs], vals)
                if cs:
                    g = g.controlled_by(*[perm[q] for q in cs])
                exp = qgates.gate_full_matrix(g, n + 1) @ exp
            if not np.allclose(un(big), exp, atol=1e-9):
                bad += 1
                ctx.fail("circuit_on_qubits", f"Circuit.on_qubits{tuple(perm)} moves operators incorrectly",
                         pre + f"big = Circuit({n+1}); big.add(c.on_qubits(*{perm}))\n# compare with gates rebuilt on mapped qubits", broken=["C05_corr_circuit"])
        except Exception as e:
            bad += 1
            ctx.fail(f"circuit_raises:{type(e).__name__}", f"circuit operation raises {type(e).__name__}: {e}", pre + "c.invert(); c.copy(True); c + c.invert()", broken=["C05_corr_circuit"])
    ctx.ob("C05_corr_circuit", bad == 0, "correspondence", f"{bad} disagreements" if bad else "")


def _single_inv(info, qs, vals, cs, n):
    g = info.make(qs, vals)
    if cs:
        g = g.controlled_by(*cs)
    d = info.make(qs, vals)
    if cs:
        d = d.controlled_by(*cs)
    return qgates.gate_full_matrix(d.dagger(), n) @ qgates.gate_full_matrix(g, n)


def matrix_valued_search(ctx):
    """gates whose parameter IS a matrix (Unitary on 1-3 qubits in any target order,
    GeneralizedfSim with a generic non-symmetric block): dagger = adjoint, controlled_by =
    controlled operator, on_qubits (gate and circuit level, dict maps in any key order) =
    relabelling, also after a parameter update; compared as full 2^n matrices."""
    from qibo import Circuit, gates

    nb = qgates.np_backend()
    rng = ctx.rng

    def unitary(d, symmetric=False):
        a = np.array([[complex(rng.gauss(0, 1), rng.gauss(0, 1)) for _ in range(d)] for _ in range(d)])
        q, r = np.linalg.qr(a)
        return q * (np.diag(r) / np.abs(np.diag(r)))

    def full(g, n):
        return qgates.gate_full_matrix(g, n)

    bad = 0
    ncases = 90 if ctx.thorough else 30
    for _ in range(ncases):
        n = rng.randint(2, 4)
        kind = rng.choice(["Unitary", "Unitary", "GeneralizedfSim"])
        if kind == "Unitary":
            k = rng.randint(1, min(3, n))
            qs = rng.sample(range(n), k)
            u0, u1 = unitary(2**k), unitary(2**k)
            make = lambda u, qs: gates.Unitary(u, *qs)
            par0, par1 = u0, u1
            src = lambda u, qs: f"gates.Unitary(np.array({np.round(u, 12).tolist()}), *{list(qs)})"
        else:
            qs = rng.sample(range(n), 2)
            par0, par1 = (unitary(2), rng.uniform(-3, 3)), (unitary(2), rng.uniform(-3, 3))
            make = lambda p, qs: gates.GeneralizedfSim(qs[0], qs[1], p[0], p[1])
            src = lambda p, qs: f"gates.GeneralizedfSim({qs[0]}, {qs[1]}, np.array({np.round(p[0], 12).tolist()}), {p[1]!r})"
        updated = rng.random() < 0.5

        def newg():  # a fresh object per check: controlled_by configures the gate in place
            g_ = make(par0, qs)
            if updated:
                g_.parameters = par1
            return g_

        cur = par1 if updated else par0
        ref = full(make(cur, qs), n)
        rest = [q for q in range(n) if q not in qs]
        pre = "import numpy as np\nfrom qibo import gates, Circuit\n" + f"g = {src(par0, qs)}\n" + (f"g.parameters = {('np.array(' + str(np.round(par1, 12).tolist()) + ')') if kind == 'Unitary' else '(np.array(' + str(np.round(par1[0], 12).tolist()) + '), ' + repr(par1[1]) + ')'}\n" if updated else "")
        checks = []
        # dagger
        checks.append(("dagger", lambda: full(newg().dagger(), n), ref.conj().T, "d = g.dagger()"))
        # controlled_by with 1..2 controls
        if rest:
            cs = rng.sample(rest, rng.randint(1, min(2, len(rest))))
            P1 = np.zeros((2**n, 2**n), dtype=complex)
            for i in range(2**n):
                if all((i >> (n - 1 - c)) & 1 for c in cs):
                    P1[i, i] = 1
            expc = (np.eye(2**n) - P1) + P1 @ ref
            checks.append((f"controlled_by{len(cs)}", lambda cs=cs: full(newg().controlled_by(*cs), n), expc, f"c = g.controlled_by(*{cs})"))
            checks.append((f"dagger_cb{len(cs)}", lambda cs=cs: full(newg().controlled_by(*cs).dagger(), n), expc.conj().T, f"c = g.controlled_by(*{cs}).dagger()"))
        # on_qubits with a dict whose key order is shuffled
        perm = list(range(n))
        rng.shuffle(perm)
        keys = list(range(n))
        rng.shuffle(keys)
        qmap = {k_: perm[k_] for k_ in keys}
        expo = full(make(cur, [perm[q] for q in qs]), n)
        checks.append(("on_qubits", lambda: full(newg().on_qubits(qmap), n), expo, f"o = g.on_qubits({qmap})"))
        # circuit level: on_qubits of a circuit into a larger one, invert
        def circ_on():
            c = Circuit(n)
            c.add(newg())
            big = Circuit(n)
            big.add(c.on_qubits(*perm))
            return np.asarray(big.unitary(nb))
        checks.append(("circuit_on_qubits", circ_on, expo, f"c = Circuit({n}); c.add(g); big = Circuit({n}); big.add(c.on_qubits(*{perm}))"))
        def circ_inv():
            c = Circuit(n)
            c.add(newg())
            return np.asarray(c.invert().unitary(nb))
        checks.append(("circuit_invert", circ_inv, ref.conj().T, f"c = Circuit({n}); c.add(g); i = c.invert()"))
        for name, fn, expected, snippet in checks:
            ctx.case(("matrix-valued", kind, name, tuple(qs), updated))
            try:
                got = fn()
                ok = np.allclose(got, expected, atol=1e-9)
                obs = None if ok else np.round(got, 6).tolist()
            except Exception as e:  # noqa: BLE001
                ok, obs = False, f"raises {type(e).__name__}: {e}"
            if not ok:
                bad += 1
                ctx.fail(f"{name}:{kind}" + (":updated" if updated else ""),
                         f"{name} of {kind} on qubits {qs} (n={n}{', after a parameter update' if updated else ''}) is not the expected operator",
                         pre + snippet + f"\nexpected = np.array({np.round(expected, 10).tolist()})\n# compare the full {n}-qubit matrix of the result with `expected`\n",
                         expected=str(np.round(expected, 6).tolist())[:400], observed=str(obs)[:400], broken=["C05_search_matrix_valued"])
    ctx.ob("C05_search_matrix_valued", bad == 0, "search", f"{bad} failures" if bad else "")


def structured_unitary_search(ctx):
    """`gates.Unitary` built from STRUCTURED matrices (a Haar-random matrix has none of these
    symmetries, so a shortcut keyed on one of them is invisible to `matrix_valued_search`):
    diagonal phases, complex symmetric exp(-i t H) with H real symmetric (the matrices of
    S/T/RX/RZ/iSWAP/RZZ/exp(-i t (XX + a ZZ)) belong here), O D O^T, real orthogonal (rotation
    and reflection), Hermitian unitaries, complex antisymmetric-generated, unitary-with-real-
    entries-times-i, and a generic one; 1-3 targets in any order, 0-2 controls.  `dagger()`,
    `controlled_by(...).dagger()`, `dagger().controlled_by(...)`, `on_qubits(...).dagger()`,
    `dagger().dagger()` and `Circuit.invert()` are compared with the conjugate transpose of the
    explicitly embedded (and controlled) matrix."""
    from qibo import Circuit, gates

    nb = qgates.np_backend()
    rng = ctx.rng

    def gmat(d, real=False):
        if real:
            return np.array([[rng.gauss(0, 1) for _ in range(d)] for _ in range(d)])
        return np.array([[complex(rng.gauss(0, 1), rng.gauss(0, 1)) for _ in range(d)] for _ in range(d)])

    def orthogonal(d):
        q, r = np.linalg.qr(gmat(d, real=True))
        return q * np.sign(np.diag(r))

    def haar(d):
        q, r = np.linalg.qr(gmat(d))
        return q * (np.diag(r) / np.abs(np.diag(r)))

    def expi(h):  # exp(-i h) for a Hermitian / real symmetric h, through its eigen-decomposition
        w, v = np.linalg.eigh(h)
        return (v * np.exp(-1j * w)) @ v.conj().T

    def phases(d):
        return np.exp(1j * np.array([rng.uniform(-3, 3) for _ in range(d)]))

    X = np.array([[0, 1], [1, 0]], dtype=complex)
    Z = np.diag([1, -1]).astype(complex)

    def kron_all(ms):
        out = np.eye(1, dtype=complex)
        for m in ms:
            out = np.kron(out, m)
        return out

    def structured(kind, k):
        d = 2**k
        if kind == "diagonal":  # S, T, RZ, RZZ, CZ-with-phase ... : exactly symmetric, not Hermitian
            ph = phases(d)
            ph[0] = 1.0
            if rng.random() < 0.4:  # exact quarter / eighth turns as in S and T
                ph = np.array([np.exp(1j * math.pi * rng.randint(0, 7) / 4) for _ in range(d)])
                ph[rng.randrange(d)] = 1j
            return np.diag(ph)
        if kind == "exp-real-symmetric":  # exp(-i t H), H real symmetric: complex symmetric
            a = gmat(d, real=True)
            return expi(rng.uniform(0.2, 1.5) * (a + a.T) / 2)
        if kind == "exp-pauli":  # exp(-i t (X..X + a Z..Z)) (RX, iSWAP-like, RXX/RZZ mixtures): entries exactly symmetric
            t, a = rng.uniform(0.2, 1.5), rng.choice([0.0, 0.5, 1.0])
            h = kron_all([X] * k) + a * kron_all([Z] * k)
            # X..X and Z..Z commute for even k, anticommute for odd k (then h^2 = (1 + a^2) 1)
            if k % 2 == 0:
                xx, zz = kron_all([X] * k), kron_all([Z] * k)
                return (math.cos(t) * np.eye(d) - 1j * math.sin(t) * xx) @ (math.cos(a * t) * np.eye(d) - 1j * math.sin(a * t) * zz)
            w = math.sqrt(1 + a * a)
            return math.cos(t * w) * np.eye(d) - 1j * math.sin(t * w) / w * h
        if kind == "ODOt":  # O D O^T, O real orthogonal: complex symmetric up to rounding
            o = orthogonal(d)
            m = (o * phases(d)) @ o.T
            return (m + m.T) / 2 if rng.random() < 0.5 else m
        if kind == "real-orthogonal":  # real, not symmetric: dagger = transpose
            return orthogonal(d)
        if kind == "real-symmetric":  # reflection: real symmetric, its own inverse
            o = orthogonal(d)
            s = np.array([rng.choice([-1.0, 1.0]) for _ in range(d)])
            m = (o * s) @ o.T
            return (m + m.T) / 2
        if kind == "hermitian":  # complex Hermitian unitary: equal to its dagger, not to its transpose
            v = haar(d)
            s = np.array([rng.choice([-1.0, 1.0]) for _ in range(d)])
            m = (v * s) @ v.conj().T
            return (m + m.conj().T) / 2
        if kind == "i-times-real":  # i * (real orthogonal): conj = -matrix
            return 1j * orthogonal(d)
        if kind == "phase-times-symmetric":  # e^{i phi} * (real symmetric reflection): symmetric, dagger != matrix
            o = orthogonal(d)
            s = np.array([rng.choice([-1.0, 1.0]) for _ in range(d)])
            m = (o * s) @ o.T
            return np.exp(1j * rng.uniform(0.3, 2.8)) * (m + m.T) / 2
        return haar(d)

    kinds = ["diagonal", "exp-real-symmetric", "exp-pauli", "ODOt", "real-orthogonal", "real-symmetric",
             "hermitian", "i-times-real", "phase-times-symmetric", "generic"]
    bad = 0
    reps = 6 if ctx.thorough else 2
    for kind in kinds:
        for rep in range(reps):
            n = rng.randint(2, 4)
            k = rng.randint(1, min(3, n)) if rep else rng.randint(1, 2)
            qs = rng.sample(range(n), k)
            if rep % 2 and k > 1:
                qs = sorted(qs, reverse=True)  # descending targets
            u = structured(kind, k)
            if not np.allclose(u.conj().T @ u, np.eye(2**k), atol=1e-10):  # generator slip, not a finding
                ctx.stat("structured:generator-not-unitary")
                continue
            rest = [q for q in range(n) if q not in qs]
            cs = rng.sample(rest, rng.randint(0, min(2, len(rest))))
            perm = list(range(n))
            rng.shuffle(perm)
            qmap = dict(enumerate(perm))
            E = qgates.embed(n, list(qs), u)
            Ec = qgates.controlled(n, cs, E) if cs else E
            Eo = qgates.embed(n, [perm[q] for q in qs], u)
            usrc = f"np.array({[[complex(z) for z in row] for row in u.tolist()]!r})"
            pre = ("import numpy as np\nfrom qibo import gates, Circuit\n" f"u = {usrc}\n" f"new = lambda: gates.Unitary(u, *{list(qs)})\n")

            def new():
                return gates.Unitary(np.array(u), *qs)

            def circ_inv(with_controls):
                c = Circuit(n)
                c.add(new().controlled_by(*cs) if with_controls else new())
                return np.asarray(c.invert().unitary(nb))

            checks = [
                ("dagger", lambda: qgates.gate_full_matrix(new().dagger(), n), E.conj().T, "r = new().dagger()"),
                ("dagger-twice", lambda: qgates.gate_full_matrix(new().dagger().dagger(), n), E, "r = new().dagger().dagger()"),
                ("circuit_invert", lambda: circ_inv(False), E.conj().T, f"c = Circuit({n}); c.add(new()); r = c.invert()"),
                ("on_qubits_dagger", lambda: qgates.gate_full_matrix(new().on_qubits(qmap).dagger(), n), Eo.conj().T, f"r = new().on_qubits({qmap}).dagger()"),
            ]
            if cs:
                checks += [
                    (f"cb{len(cs)}_dagger", lambda: qgates.gate_full_matrix(new().controlled_by(*cs).dagger(), n), Ec.conj().T, f"r = new().controlled_by(*{cs}).dagger()"),
                    (f"dagger_cb{len(cs)}", lambda: qgates.gate_full_matrix(new().dagger().controlled_by(*cs), n), Ec.conj().T, f"r = new().dagger().controlled_by(*{cs})"),
                    (f"circuit_invert_cb{len(cs)}", lambda: circ_inv(True), Ec.conj().T, f"c = Circuit({n}); c.add(new().controlled_by(*{cs})); r = c.invert()"),
                ]
            for name, fn, expected, snippet in checks:
                ctx.case(("structured-unitary", kind, name, tuple(qs), tuple(cs)))
                ctx.stat(f"structured:{kind}")
                try:
                    got = fn()
                    dev = float(np.abs(got - expected).max())
                    ok = dev < 1e-9
                    obs = None if ok else f"deviation {dev:.3g}: " + str(np.round(got, 6).tolist())
                except Exception as e:  # noqa: BLE001
                    ok, obs = False, f"raises {type(e).__name__}: {e}"
                if not ok:
                    bad += 1
                    ctx.fail(f"structured:{name.replace('cb1', 'cb').replace('cb2', 'cb')}:{kind}",
                             f"{name} of gates.Unitary with a {kind} matrix on targets {list(qs)}" + (f", controls {cs}" if "cb" in name else "") + f" (n={n}) is not the conjugate transpose of the gate's operator",
                             pre + snippet + f"\nexpected = np.array({np.round(expected, 12).tolist()})\n# compare the full {n}-qubit matrix of r (gate: embed its matrix on its qubits; circuit: r.unitary()) with `expected`\n",
                             expected=str(np.round(expected, 6).tolist())[:400], observed=str(obs)[:400], broken=["C05_search_structured_unitary"])
    ctx.ob("C05_search_structured_unitary", bad == 0, "search", f"{bad} failures" if bad else "")


def fused_search(ctx):
    """fused gates whose members carry controls added by `controlled_by` (H, Unitary, RX with two
    controls, fSim …) next to members with built-in controls: `FusedGate.dagger()`, the inverse of
    a fused circuit and the relabelled fused gate are the adjoint / relabelled operator of the
    members' product (explicit product of independently embedded matrices)."""
    from qibo import Circuit, gates

    nb = qgates.np_backend()
    rng = ctx.rng
    bad = 0

    def member(n):
        """(python source, builder) of a random member gate on n qubits"""
        r = rng.random()
        qs = list(range(n))
        rng.shuffle(qs)
        th = round(rng.uniform(-3, 3), 4)
        if r < 0.2:
            return f"gates.H({qs[0]}).controlled_by({qs[1]})"
        if r < 0.4 and n >= 3:
            return f"gates.RX({qs[0]}, {th}).controlled_by({qs[1]}, {qs[2]})"
        if r < 0.55 and n >= 3:
            return f"gates.fSim({qs[0]}, {qs[1]}, {th}, 0.7).controlled_by({qs[2]})"
        if r < 0.7:
            return f"gates.Unitary(np.array([[0.6, 0.8j], [0.8j, 0.6]]) @ np.diag([1, np.exp(1j * {th})]), {qs[0]}).controlled_by({qs[1]})"
        if r < 0.8:
            return f"gates.CU3({qs[0]}, {qs[1]}, {th}, 0.3, -1.1)"
        if r < 0.9:
            return f"gates.RY({qs[0]}, {th})"
        return f"gates.CNOT({qs[0]}, {qs[1]})"

    ncases = 60 if ctx.thorough else 24
    for it in range(ncases):
        n = rng.randint(2, 4)
        members = [member(n) for _ in range(rng.randint(2, 5))]
        perm = list(range(n))
        rng.shuffle(perm)
        pre = ("import sys, numpy as np\nfrom qibo import gates, Circuit\nfrom qibo.backends import NumpyBackend\nnb = NumpyBackend()\n"
               f"n = {n}\nmembers = lambda: [{', '.join(members)}]\n"
               "def full(g):\n    c = Circuit(n); c.add(g); return np.asarray(c.unitary(nb))\n"
               "U = np.eye(2 ** n, dtype=complex)\nfor g in members():\n    U = full(g) @ U\n"
               "f = gates.FusedGate(*range(n))\nfor g in members():\n    f.append(g)\n")
        checks = [
            ("fused:dagger", "np.abs(full(f.dagger()) - U.conj().T).max()"),
            ("fused:dagger-twice", "np.abs(full(f.dagger().dagger()) - U).max()"),
            ("fused:circuit-invert", "(lambda c: np.abs(np.asarray(c.fuse().invert().unitary(nb)) - U.conj().T).max())((lambda c: (c.add(members()), c)[1])(Circuit(n)))"),
            ("fused:invert-fuse", "(lambda c: np.abs(np.asarray(c.invert().fuse().unitary(nb)) - U.conj().T).max())((lambda c: (c.add(members()), c)[1])(Circuit(n)))"),
            ("fused:on_qubits", f"(lambda P: np.abs(full(f.on_qubits(dict(enumerate({perm})))) - P @ U @ P.T).max())(np.eye(2 ** n)[[sum(((i >> (n - 1 - q)) & 1) << (n - 1 - {perm}[q]) for q in range(n)) for i in range(2 ** n)]].T)"),
        ]
        for key, expr in checks:
            ctx.case((key, it))
            ctx.stat(key)
            env = {}
            try:
                exec(pre, env)  # noqa: S102 - own generated text, identical to the replay
                d = float(eval(expr, env))  # noqa: S307
                failed, obs = not d < 1e-9, d
            except NotImplementedError:
                ctx.stat(key + ":refused")
                continue
            except Exception as e:  # noqa: BLE001
                failed, obs = True, f"raises {type(e).__name__}: {e}"
            if failed:
                bad += 1
                ctx.fail(key, f"{key.split(':')[1]} of a fused gate with members {members} on {n} qubits is not the adjoint / relabelling of the members' product (deviation {obs})",
                         pre + f"d = {expr}\nprint(d)\nsys.exit(0 if d < 1e-9 else 1)\n", observed=str(obs)[:300], broken=["C05_search_fused"])
    ctx.ob("C05_search_fused", bad == 0, "search", f"{bad} failures" if bad else "")


def run(ctx):
    MODULES, THEOREMS = registry(PROP)
    ctx.theorems = THEOREMS
    raised = trace_obligations(ctx)
    build_and_audit(ctx, PROP, MODULES, THEOREMS, gen_obs=True)
    gate_search(ctx, raised)
    circuit_search(ctx)
    matrix_valued_search(ctx)
    structured_unitary_search(ctx)
    fused_search(ctx)
    from props import basis_meas
    basis_meas.run(ctx, PROP, ['copy', 'deepcopy', 'deepcopy-twice', 'on_qubits-identity', 'on_qubits-shifted', 'add-empty', 'invert-invert', 'deepcopy-invert-invert'])
    # circuit-level glue (invert / copy / + / on_qubits / the M branch of add): entry-list model
    # QV/Model/CircuitQueue.lean compared exactly with the real methods + executable SPEC search
    from props import C05_queue
    C05_queue.run(ctx)
    C05_queue.round4_searches(ctx)
    C05_queue.round6_searches(ctx)
    ctx.notes.append("per class: symbolic obligations (all parameter values) for dagger, dagger∘controlled_by, controlled_by(1,2), on_qubits, and the same after a parameter update; numeric search on the real methods incl. 3 controls and random relabellings; random circuits for invert/copy/+/on_qubits")
