"""C05 — circuit-level glue: Circuit.invert / copy / __add__ / on_qubits and the measurement
branch of Circuit.add (basis-rotation bookkeeping).

Two parts, both on every run:
 * correspondence: the entry-list model lean/QV/Model/CircuitQueue.lean (driver DriverC05.lean) is
   compared EXACTLY with the real methods on generated circuits (entry by entry: class+parameters
   as an interned kernel, targets, controls, is_controlled_by, trainable attribute and constructor
   argument, measurement arguments, register names, collapse flags, object sharing, fused members,
   measurement_tuples, has_collapse);
 * search: an executable SPEC in plain Python (text constant `SPEC`, identical in the replays) states
   the property on the real result of each operation (operators via explicit embedding).
"""
from __future__ import annotations

import itertools

import numpy as np

from vlib import qgates
from vlib.driver import run_driver

PROP = "C05"

SPEC = r'''
import sys, numpy as np
from collections import Counter
from qibo import Circuit, gates
from qibo.gates.abstract import ParametrizedGate
from qibo.backends import NumpyBackend
nb = NumpyBackend()

def full(g, n):
    """2^n matrix of a gate by explicit embedding (qubit 0 most significant)."""
    if isinstance(g, gates.FusedGate):
        U = np.eye(2 ** n, dtype=complex)
        for x in g.gates:
            U = full(x, n) @ U
        return U
    m = np.asarray(g.matrix(nb)); ts = list(g.target_qubits) if g.is_controlled_by else list(g.qubits)
    cs = list(g.control_qubits) if g.is_controlled_by else []
    N = 2 ** n; U = np.zeros((N, N), complex)
    for i in range(N):
        bi = [(i >> (n - 1 - q)) & 1 for q in range(n)]
        if not all(bi[c] for c in cs):
            U[i, i] = 1; continue
        li = int(''.join(str(bi[t]) for t in ts), 2)
        for lj in range(2 ** len(ts)):
            bj = list(bi)
            for p, t in enumerate(ts): bj[t] = (lj >> (len(ts) - 1 - p)) & 1
            U[i, int(''.join(map(str, bj)), 2)] = m[li, lj]
    return U

def isM(g): return isinstance(g, gates.M)

def par_eq(a, b):
    return len(a.parameters) == len(b.parameters) and all(np.array_equal(np.asarray(x), np.asarray(y)) for x, y in zip(a.parameters, b.parameters))

def sig(g):
    if isM(g):
        return ("M", g.target_qubits, g.init_kwargs["register_name"], g.init_kwargs["collapse"], tuple(g.init_kwargs["basis"]))
    if isinstance(g, gates.FusedGate):
        return ("Fused", g.target_qubits, tuple(sig(x) for x in g.gates))
    return (type(g).__name__, g.target_qubits, g.control_qubits, g.is_controlled_by,
            tuple(np.round(np.asarray(p, dtype=complex), 10).tobytes() for p in g.parameters),
            getattr(g, "trainable", None), g.init_kwargs.get("trainable"))

def probs(c):
    ms = [g for g in c.queue if isM(g)]
    qs = sorted({q for g in ms for q in g.qubits})
    return np.asarray(nb.execute_circuit(c.copy()).probabilities(qs))

def only_final(c):
    return all(not g.collapse for g in c.queue if isM(g)) and any(isM(g) for g in c.queue)

def split(queue):
    body = list(queue); trail = []
    while body and isM(body[-1]): trail.insert(0, body.pop())
    return body, trail

def check_invert(c):
    n = c.nqubits
    try:
        inv = c.invert()
    except KeyError:
        return None
    body, trail = split(c.queue)
    exp = body[::-1] + trail
    if len(inv.queue) != len(exp):
        if any(g.basis for g in trail) or len([g for g in inv.queue if not isM(g)]) != len([g for g in c.queue if not isM(g)]):
            return ("invert:final-basis-measurement" if any(isM(g) for g in trail) else "invert:length",
                    f"invert() of a queue of {len(exp)} entries has {len(inv.queue)} entries: gates were inserted or dropped")
        return ("invert:length", "invert() changes the number of queue entries")
    for a, b in zip(inv.queue, exp):
        if isM(a) != isM(b):
            return ("invert:order", "invert() puts a measurement where the reversed queue has a gate")
        if isM(b):
            if a.target_qubits != b.target_qubits or a.init_kwargs["register_name"] != b.init_kwargs["register_name"] or a.init_kwargs["collapse"] != b.init_kwargs["collapse"]:
                return ("invert:measurement", f"invert() changes a measurement: {sig(b)} -> {sig(a)}")
            continue
        if isinstance(b, gates.FusedGate):
            if not isinstance(a, gates.FusedGate) or len(a.gates) != len(b.gates):
                return ("invert:fused", "dagger of a fused gate has other members")
            for x, y in zip(a.gates, b.gates[::-1]):
                if x.target_qubits != y.target_qubits or x.control_qubits != y.control_qubits or x.is_controlled_by != y.is_controlled_by:
                    return ("invert:fused-controls", f"member {sig(y)} of a fused gate became {sig(x)} in the inverse")
        elif a.target_qubits != b.target_qubits or a.control_qubits != b.control_qubits or a.is_controlled_by != b.is_controlled_by:
            return ("invert:controls", f"invert() moves qubits of {sig(b)}: {sig(a)}")
        if not np.allclose(full(a, n) @ full(b, n), np.eye(2 ** n), atol=1e-9):
            return ("invert:operator:" + type(b).__name__, f"entry {sig(a)} of invert() does not undo {sig(b)}")
        if isinstance(b, ParametrizedGate) and not isinstance(b, gates.FusedGate):
            if a.trainable != b.trainable or a.init_kwargs.get("trainable", b.trainable) != b.trainable:
                return ("invert:trainable", f"trainable flag of {sig(b)} is not mirrored: {sig(a)}")
    if inv.init_kwargs != c.init_kwargs:
        return ("invert:init_kwargs", "invert() changes the constructor arguments of the circuit")
    # twice: the gate part comes back (same qubits, same operators), nothing is inserted
    try:
        inv2 = inv.invert()
    except KeyError:
        return None
    g0 = [g for g in c.queue if not isM(g)]; g2 = [g for g in inv2.queue if not isM(g)]
    if len(inv2.queue) != len(c.queue) or len(g0) != len(g2):
        return ("invert:final-basis-measurement" if any(isM(g) and g.basis for g in c.queue) else "invert:twice",
                f"invert().invert() has {len(inv2.queue)} entries, the circuit has {len(c.queue)}")
    for a, b in zip(g2, g0):
        if a.target_qubits != b.target_qubits or a.control_qubits != b.control_qubits or not np.allclose(full(a, n), full(b, n), atol=1e-9):
            return ("invert:twice", f"invert().invert() turns {sig(b)} into {sig(a)}")
    if only_final(c) and not any(isinstance(g, gates.FusedGate) for g in c.queue):
        body, trail = split(c.queue)
        if not any(isM(g) for g in body):
            try:
                d = float(np.abs(probs(inv2) - probs(c)).max())
            except ValueError:  # the same qubit measured by two final measurements: not executable
                d = 0.0
            if d > 1e-9:
                return ("invert:final-basis-measurement", f"invert().invert() changes the measured distribution by {d:.3e}")
            # invert commutes with deep copy
            s1 = [sig(g) for g in c.invert().queue]; s2 = [sig(g) for g in c.copy(deep=True).invert().queue]
            if s1 != s2:
                return ("invert:deepcopy", "c.invert() and c.copy(deep=True).invert() have different queues")
    return None

def check_deepcopy(c):
    try:
        d = c.copy(deep=True)
    except NotImplementedError:
        return None
    if [sig(g) for g in d.queue] != [sig(g) for g in c.queue]:
        return ("deepcopy:entries", "deep copy has other entries: " + str([sig(g)[:3] for g in d.queue]))
    for a, b in zip(d.queue, c.queue):
        if a is b or a.init_kwargs is b.init_kwargs or (isinstance(a.init_args, list) and a.init_args is b.init_args):
            return ("deepcopy:shares", f"deep copy shares an object with the original at {sig(b)[:2]}")
        if isM(a) and (a.result is b.result or any(x is y for x in a.basis for y in b.basis)):
            return ("deepcopy:shares", "deep copy shares measurement state")
    if d.init_kwargs != c.init_kwargs or d.measurement_tuples != c.measurement_tuples:
        return ("deepcopy:bookkeeping", "deep copy changes constructor arguments or measurement registers")
    # updating the copy must not reach the original
    before = [sig(g) for g in c.queue]
    for g in d.queue:
        if isinstance(g, ParametrizedGate) and not isinstance(g, gates.Unitary) and g.nparams == len(g.parameters) and all(isinstance(p, float) for p in g.parameters):
            try:
                g.parameters = tuple(0.125 + 0.5 * p for p in g.parameters) if len(g.parameters) > 1 else 0.125 + 0.5 * g.parameters[0]
            except Exception:
                pass
    if [sig(g) for g in c.queue] != before:
        return ("deepcopy:shares", "a parameter update on the deep copy changes the original")
    return None

def check_shallow(c):
    s = c.copy()
    if len(s.queue) != len(c.queue) or any(a is not b for a, b in zip(s.queue, c.queue)):
        return ("copy:entries", "copy() does not hold the same gate objects in the same order")
    if s.init_kwargs != c.init_kwargs or s.measurement_tuples != c.measurement_tuples:
        return ("copy:bookkeeping", "copy() changes constructor arguments or measurement registers")
    return None

def check_add(c1, c2):
    same = c1.init_kwargs == c2.init_kwargs
    try:
        r = c1 + c2
    except ValueError:
        return None if not same else ("add:raises", "c1 + c2 raises ValueError although the constructor arguments agree")
    except KeyError:
        return None
    if not same:
        return ("add:kwargs", "c1 + c2 accepts circuits with different constructor arguments")
    exp = list(c1.queue) + list(c2.queue)
    if len(r.queue) != len(exp) or any(a is not b for a, b in zip(r.queue, exp)):
        return ("add:entries", f"(c1 + c2).queue is not c1.queue followed by c2.queue ({len(r.queue)} entries for {len(exp)})")
    if r.init_kwargs != c1.init_kwargs:
        return ("add:kwargs", "c1 + c2 has other constructor arguments")
    return None

def check_onq(c, qubits, N):
    n = c.nqubits
    try:
        big = Circuit(N); big.add(c.on_qubits(*qubits))
    except NotImplementedError:
        return None
    if len(big.queue) != len(c.queue):
        return ("on_qubits:length", f"on_qubits{tuple(qubits)} of {len(c.queue)} entries gives {len(big.queue)} entries")
    for a, b in zip(big.queue, c.queue):
        if type(a) is not type(b):
            return ("on_qubits:class", f"{sig(b)} became {sig(a)}")
        if a.target_qubits != tuple(qubits[q] for q in b.target_qubits):
            return ("on_qubits:targets", f"on_qubits{tuple(qubits)}: targets of {sig(b)[:3]} became {a.target_qubits}")
        if isM(b):
            if sig(a)[2:] != sig(b)[2:]:
                return ("on_qubits:measurement", f"{sig(b)} became {sig(a)}")
            continue
        if a.control_qubits != tuple(sorted(qubits[q] for q in b.control_qubits)) or a.is_controlled_by != b.is_controlled_by:
            return ("on_qubits:controls", f"on_qubits{tuple(qubits)}: controls of {sig(b)[:3]} became {a.control_qubits}")
        if not par_eq(a, b):
            return ("on_qubits:parameters", f"on_qubits changes the parameters of {sig(b)[:3]}")
        if isinstance(b, ParametrizedGate) and a.trainable != b.init_kwargs.get("trainable", True):
            return ("on_qubits:trainable", f"on_qubits changes the constructor's trainable flag of {sig(b)[:3]}")
    # composition: moving twice = moving once with the composed map (identity second map on N qubits shuffled)
    perm = list(range(N))[::-1]
    try:
        b1 = Circuit(N); b1.add(big.on_qubits(*perm))
        b2 = Circuit(N); b2.add(c.on_qubits(*[perm[q] for q in qubits]))
    except KeyError:
        return None
    if [sig(g) for g in b1.queue] != [sig(g) for g in b2.queue]:
        return ("on_qubits:compose", "on_qubits(f) after on_qubits(g) differs from on_qubits(f∘g)")
    return None

def gate_counter(c):
    return Counter((type(g).__name__, g.qubits) for g in c.queue if not isM(g))

def check_rebuild(c):
    """rebuilding gate by gate adds no basis rotation a second time (exact entry counts)"""
    n = c.nqubits
    ref = gate_counter(c)
    for name, f in (("deepcopy", lambda: c.copy(deep=True)), ("deepcopy-twice", lambda: c.copy(deep=True).copy(deep=True)),
                    ("on_qubits-identity", lambda: (lambda b: (b.add(c.on_qubits(*range(n))), b)[1])(Circuit(n))),
                    ("raw-from_dict", lambda: Circuit.from_dict(c.raw)), ("copy", lambda: c.copy()),
                    ("add-empty", lambda: c + Circuit(**c.init_kwargs))):
        try:
            t = f()
        except Exception:  # refusals of a transformation are not this check's business
            continue
        if gate_counter(t) != ref:
            extra = gate_counter(t) - ref
            return ("rebuild:" + name, f"{name} changes the gate entries of the queue: extra {dict(extra)}, missing {dict(ref - gate_counter(t))}")
    for g in c.queue:
        if isM(g) and g.basis and set(g.init_kwargs["basis"]) != {"Z"}:
            return ("rebuild:init_kwargs", "a queued measurement whose rotations are in the queue still names its basis in init_kwargs")
    return None
'''

# ---------------------------------------------------------------------------
# encoding of real circuits for the driver


def _flag(x):
    return "0" if x is None else ("2" if x else "1")


class Enc:
    """per case: kernel interning, object identities, tables."""

    def __init__(self):
        from qibo import gates

        self.gates = gates
        self.kers = {}
        self.kinfo = {}
        self.uids = {}
        self.keep = []
        self.dg = {}
        self.dfl = {}
        self.infos = qgates.gate_infos()
        self.rot = {}
        self.bcodes = {"Z": 0, "X": 1, "Y": 2}
        for code, cls in ((1, gates.X), (2, gates.Y)):
            r = cls(0).basis_rotation()
            self.rot[code] = (self.ker(r), self.flags(r))

    def key(self, g):
        name = type(g).__name__
        ps = []
        for p in g.parameters:
            a = np.asarray(p)
            if a.ndim:
                ps.append(("arr", a.shape, np.round(a.astype(complex), 12).tobytes()))
            else:
                ps.append(repr(complex(a) + 0.0))
        return (name, tuple(ps))

    def ker(self, g):
        k = self.key(g)
        if k not in self.kers:
            self.kers[k] = len(self.kers) + 1
            self.kinfo[self.kers[k]] = (type(g), [p for p in g.parameters], len(g.target_qubits) + (0 if g.is_controlled_by else len(g.control_qubits)))
        return self.kers[k]

    def flags(self, g):
        from qibo.gates.abstract import ParametrizedGate

        tr = g.trainable if isinstance(g, ParametrizedGate) else None
        return tr, g.init_kwargs.get("trainable")

    def template(self, kid):
        """a fresh bare gate of the kernel's class with the same parameter values on qubits 0..k-1"""
        cls, params, nq = self.kinfo[kid]
        if cls.__name__ == "Unitary":
            return cls(np.array(params[0]), *range(nq))
        return cls(*range(nq), *params)

    def close_tables(self):
        """dagger of every kernel seen so far, taken from the class template (twice: the kernels
        reached by one dagger get their own entry)"""
        from qibo.gates.abstract import ParametrizedGate

        for _ in range(2):
            for kid in list(self.kinfo):
                if kid in self.dg:
                    continue
                try:
                    t = self.template(kid)
                    d = t.dagger()
                except Exception:  # noqa: BLE001
                    self.dg[kid] = kid
                    continue
                self.dg[kid] = self.ker(d)
                if not isinstance(t, ParametrizedGate):
                    self.dfl[kid] = self.flags(d)

    def uid(self, obj, create):
        i = id(obj)
        if i not in self.uids:
            if not create:
                return 0
            self.uids[i] = 1000 + len(self.uids)
            self.keep.append(obj)
        return self.uids[i]

    def gate(self, g, create, member=False):
        tr, kw = (None, None) if member else self.flags(g)
        return (f"{self.uid(g, create)} {self.ker(g)} {len(g.target_qubits)} {' '.join(map(str, g.target_qubits))} "
                f"{len(g.control_qubits)} {' '.join(map(str, g.control_qubits))} {int(g.is_controlled_by)} {_flag(tr)} {_flag(kw)}")

    def basis_codes(self, names):
        out = []
        for b in names:
            if b not in self.bcodes:
                self.bcodes[b] = len(self.bcodes)
            out.append(self.bcodes[b])
        return out

    def entry(self, g, create=True):
        G = self.gates
        if isinstance(g, G.M):
            nm = g.register_name if g.register_name is not None else "-"
            kn = g.init_kwargs["register_name"] if g.init_kwargs["register_name"] is not None else "-"
            kb = self.basis_codes(g.init_kwargs["basis"])
            return (f"M {len(g.target_qubits)} {' '.join(map(str, g.target_qubits))} {nm} {kn} {int(bool(g.collapse))} "
                    f"{int(bool(g.init_kwargs['collapse']))} {len(kb)} {' '.join(map(str, kb))} {len(g.basis)} "
                    + " ".join(self.gate(r, create) for r in g.basis))
        if isinstance(g, G.FusedGate):
            return (f"F {len(g.target_qubits)} {' '.join(map(str, g.target_qubits))} {len(g.gates)} "
                    + " ".join(self.gate(x, create, member=True) for x in g.gates))
        return "G " + self.gate(g, create)

    def queue(self, c, create=True):
        return f"{len(c.queue)} " + " ".join(self.entry(g, create) for g in c.queue)

    def tables(self):
        self.close_tables()
        dg = " ".join(f"{a} {b}" for a, b in sorted(self.dg.items()))
        dfl = " ".join(f"{a} {_flag(t)} {_flag(k)}" for a, (t, k) in sorted(self.dfl.items()))
        rot = " ".join(f"{c} {k} {_flag(f[0])} {_flag(f[1])}" for c, (k, f) in sorted(self.rot.items()))
        return f"{len(self.dg)} {dg} {len(self.dfl)} {dfl} {len(self.rot)} {rot}"

    # ---- the same canonical text as DriverC05.showSt, from a real circuit
    def show_gate(self, g, member=False):
        tr, kw = (None, None) if member else self.flags(g)
        sf = lambda x: "-" if x is None else ("T" if x else "F")
        return (f"{self.uid(g, False)}:{self.ker(g)}:{','.join(map(str, g.target_qubits))}:{','.join(map(str, g.control_qubits))}:"
                f"{int(g.is_controlled_by)}:{sf(tr)}:{sf(kw)}")

    def show(self, c):
        G = self.gates
        es = []
        for g in c.queue:
            if isinstance(g, G.M):
                nm = g.register_name if g.register_name is not None else "-"
                kn = g.init_kwargs["register_name"] if g.init_kwargs["register_name"] is not None else "-"
                kb = self.basis_codes(g.init_kwargs["basis"])
                es.append(f"M{','.join(map(str, g.target_qubits))}:{nm}:{kn}:{int(bool(g.collapse))}:{int(bool(g.init_kwargs['collapse']))}:"
                          f"{','.join(map(str, kb))}:[{' '.join(self.show_gate(r) for r in g.basis)}]")
            elif isinstance(g, G.FusedGate):
                es.append(f"F{','.join(map(str, g.target_qubits))}:[{' '.join(self.show_gate(x, True) for x in g.gates)}]")
            else:
                es.append("G" + self.show_gate(g))
        tuples = " ".join(f"{k}={','.join(map(str, v))}" for k, v in c.measurement_tuples.items())
        return " ".join(es) + " | " + tuples + " | " + str(int(bool(c.has_collapse)))


def _norm(s):
    return " ".join(s.split())


# ---------------------------------------------------------------------------
# generated circuits (python source text = the replay)


def _gate_src(rng, n, infos, names, var):
    """source lines creating one gate object `var` on n qubits"""
    r = rng.random()
    lines = []
    if r < 0.12:
        k = rng.randint(1, min(2, n))
        qs = rng.sample(range(n), k)
        a = [[complex(rng.gauss(0, 1), rng.gauss(0, 1)) for _ in range(2**k)] for _ in range(2**k)]
        q, rr = np.linalg.qr(np.array(a))
        u = q * (np.diag(rr) / np.abs(np.diag(rr)))
        tr = ", trainable=False" if rng.random() < 0.3 else ""
        src = f"gates.Unitary(np.array({np.round(u, 12).tolist()}), *{qs}{tr})"
        used = qs
        builtin = False
    else:
        while True:
            info = infos[rng.choice(names)]
            if 1 <= info.nq <= n:
                break
        qs = rng.sample(range(n), info.nq)
        vals = [round(rng.uniform(-3, 3), 3) for _ in range(info.np)]
        if info.name == "MS" and vals:
            vals[-1] = round(rng.uniform(0.05, 1.5), 3)
        tr = ", trainable=False" if info.np and rng.random() < 0.25 else ""
        src = f"gates.{info.name}(*{qs}, *{vals}{tr})"
        used = qs
        builtin = info.name in ("CNOT", "CY", "CZ", "CSX", "CSXDG", "CRX", "CRY", "CRZ", "CU1", "CU2", "CU3", "TOFFOLI", "CCZ", "DEUTSCH")
    rest = [q for q in range(n) if q not in used]
    if rest and not builtin and rng.random() < 0.4:
        cs = rng.sample(rest, rng.randint(1, min(2, len(rest))))
        src += f".controlled_by(*{cs})"
    lines.append(f"{var} = {src}")
    if rng.random() < 0.12:
        lines.append(f"if isinstance({var}, ParametrizedGate): {var}.trainable = False")
    if rng.random() < 0.15:
        lines.append(f"if isinstance({var}, ParametrizedGate) and type({var}).__name__ not in ('Unitary', 'MS') and all(isinstance(p, float) for p in {var}.parameters):\n"
                     f"    {var}.parameters = tuple(0.25 + p for p in {var}.parameters) if len({var}.parameters) > 1 else 0.25 + {var}.parameters[0]")
    return lines


def circuit_src(rng, n, name="c", measurements=True, mid=True, tag=""):
    infos = {k: v for k, v in qgates.gate_infos().items() if v.generic and v.nq >= 1}
    names = sorted(infos)
    lines = [f"{name} = Circuit({n}" + (", density_matrix=True" if tag == "dm" else "") + ")"]
    ng = rng.randint(0, 6)
    nm = 0
    free_names = ["a", "b", "out"]
    if measurements and mid and rng.random() < 0.3:
        lines.append(_meas_src(rng, n, name, nm, free_names))
        nm += 1
    for i in range(ng):
        v = f"{name}_g{i}"
        lines += _gate_src(rng, n, infos, names, v)
        lines.append(f"{name}.add({v})")
        if measurements and mid and rng.random() < 0.15:
            lines.append(_meas_src(rng, n, name, nm, free_names))
            nm += 1
    if measurements:
        for _ in range(rng.choice([0, 1, 1, 2])):
            lines.append(_meas_src(rng, n, name, nm, free_names))
            nm += 1
    return "\n".join(lines) + "\n"


def _meas_src(rng, n, name, idx, free_names):
    k = rng.randint(1, min(2, n))
    qs = rng.sample(range(n), k)
    kw = []
    if rng.random() < 0.3 and free_names:
        kw.append(f"register_name='{name}{free_names.pop(0)}'")
    if rng.random() < 0.15:
        kw.append("collapse=True")
    if rng.random() < 0.6:
        kw.append("basis=[" + ", ".join(rng.choice(["gates.X", "gates.Y", "gates.Z"]) for _ in qs) + "]")
    return f"{name}.add(gates.M(*{qs}{''.join(', ' + x for x in kw)}))"


HEAD = "from qibo.gates.abstract import ParametrizedGate\n"


_CODE = None


def _exec(src, env=None):
    global _CODE
    env = {} if env is None else env
    if _CODE is None:
        _CODE = compile(SPEC + HEAD, "<C05 queue spec>", "exec")
    exec(_CODE, env)  # noqa: S102 - own text, identical to the replay
    exec(src, env)  # noqa: S102
    return env


def run(ctx):
    from qibo import Circuit, gates

    rng = ctx.rng
    lines, expect, meta = [], [], []
    spec_bad = {"C05_search_invert_measurements": 0, "C05_search_queue_ops": 0}
    counts = {}

    def spec(key_ob, src, call):
        """run a SPEC check on freshly built circuits; report a failing input"""
        env = _exec(src + f"msg = {call}\n")
        msg = env["msg"]
        ctx.stat("queue_spec:" + call.split("(")[0])
        if msg is not None:
            spec_bad[key_ob] += 1
            ctx.fail(msg[0], msg[1], SPEC + HEAD + src + f"msg = {call}\nprint(msg)\nsys.exit(1 if msg else 0)\n",
                     observed=msg[1][:300], broken=[key_ob, "C05_corr_queue"])
        return env

    def model_case(op, src, build_line, real, descr):
        """`build_line(enc, env)` gives the driver line (sources encoded BEFORE the real operation
        runs), `real(env)` performs the operation and returns the resulting circuit or None."""
        env = _exec(src)
        enc = Enc()
        body = build_line(enc, env)
        try:
            res = real(env)
        except (KeyError, NotImplementedError, ValueError) as e:
            res = None
            ctx.stat(f"queue:{op}:refused:{type(e).__name__}")
        exp = "NONE" if res is None else (getattr(enc, "_kw", "") + " " + enc.show(res))
        # kernels of the result must be interned before the tables are written
        lines.append(_norm(enc.tables() + " " + body))
        expect.append(_norm(exp))
        meta.append((op, src, descr))
        counts[op] = counts.get(op, 0) + 1
        ctx.case(("queue", op, descr, len(lines)))

    ncirc = 70 if ctx.thorough else 26
    for it in range(ncirc):
        n = rng.randint(1, 4)
        src = circuit_src(rng, n)
        fuse = rng.random() < 0.2
        if fuse:
            src += "c = c.fuse(max_qubits=2)\n"
        # --- invert
        spec("C05_search_invert_measurements", src, "check_invert(c)")
        model_case("INV", src, lambda e, env: "INV 1 1 " + e.queue(env["c"]), lambda env: env["c"].invert(), "invert")
        model_case("INV2", src + "c = c.invert()\n", lambda e, env: "INV 1 1 " + e.queue(env["c"]), lambda env: env["c"].invert(), "invert-twice")
        # --- copies
        spec("C05_search_queue_ops", src, "check_deepcopy(c) or check_shallow(c) or check_rebuild(c)")
        model_case("CPD", src, lambda e, env: "CPD 1 " + e.queue(env["c"]), lambda env: env["c"].copy(deep=True), "deepcopy")
        model_case("CPS", src, lambda e, env: "CPS 1 " + e.queue(env["c"]), lambda env: env["c"].copy(), "copy")
        # --- concatenation
        tag2 = "dm" if rng.random() < 0.15 else ""
        n2 = n if rng.random() < 0.85 else rng.randint(1, 4)
        src2 = src + circuit_src(rng, n2, name="d", tag=tag2)
        spec("C05_search_queue_ops", src2, "check_add(c, d)")

        def add_line(e, env):
            k1 = "kw" + str(sorted((k, str(v)) for k, v in env["c"].init_kwargs.items())).replace(" ", "")
            k2 = "kw" + str(sorted((k, str(v)) for k, v in env["d"].init_kwargs.items())).replace(" ", "")
            e._kw = k1
            return f"ADD 1 {k1} {k2} " + e.queue(env["c"]) + " " + e.queue(env["d"])

        model_case("ADD", src2, add_line, lambda env: env["c"] + env["d"], "add")
        # --- on_qubits: all injective maps for small cases, random otherwise
        N = rng.randint(n, 4)
        maps = list(itertools.permutations(range(N), n))
        if len(maps) > (6 if ctx.thorough else 3):
            maps = rng.sample(maps, 6 if ctx.thorough else 3)
        for mp in maps:
            mp = list(mp)
            pre = rng.random() < 0.3
            bsrc = f"big = Circuit({N})\n" + ("big.add(gates.H(0))\nbig.add(gates.M(0, register_name='pre'))\n" if pre else "")
            spec("C05_search_queue_ops", src, f"check_onq(c, {mp}, {N})")

            def onq_line(e, env, mp=mp):
                return f"ONQ 1 {len(mp)} {' '.join(map(str, mp))} " + e.queue(env["big"]) + " " + e.queue(env["c"])

            def onq_real(env, mp=mp):
                env["big"].add(env["c"].on_qubits(*mp))
                return env["big"]

            model_case("ONQ", src + bsrc, onq_line, onq_real, f"on_qubits{tuple(mp)}")

    # fused gates built directly, members with controls added by controlled_by / built in
    for it in range(16 if ctx.thorough else 6):
        n = rng.randint(2, 4)
        infos = {k: v for k, v in qgates.gate_infos().items() if v.generic and v.nq >= 1}
        names = sorted(infos)
        lines_ = [f"c = Circuit({n})", f"f = gates.FusedGate(*range({n}))"]
        for i in range(rng.randint(2, 4)):
            lines_ += [ln for ln in _gate_src(rng, n, infos, names, f"m{i}") if not ln.startswith("if ")]
            lines_.append(f"f.append(m{i})")
        pos = rng.randint(0, 2)
        extra = [f"c.add(gates.RY({rng.randrange(n)}, 0.5))", f"c.add(gates.M({rng.randrange(n)}, basis=gates.X))"]
        src = "\n".join(lines_ + extra[:pos] + ["c.add(f)"] + extra[pos:]) + "\n"
        spec("C05_search_invert_measurements", src, "check_invert(c)")
        model_case("INV", src, lambda e, env: "INV 1 1 " + e.queue(env["c"]), lambda env: env["c"].invert(), "invert-fused")
        model_case("INV2", src + "c = c.invert()\n", lambda e, env: "INV 1 1 " + e.queue(env["c"]), lambda env: env["c"].invert(), "invert-fused-twice")
        model_case("CPS", src, lambda e, env: "CPS 1 " + e.queue(env["c"]), lambda env: env["c"].copy(), "copy-fused")
        model_case("CPD", src, lambda e, env: "CPD 1 " + e.queue(env["c"]), lambda env: env["c"].copy(deep=True), "deepcopy-fused")

    # exhaustive: every injective map for n <= 3 into N <= 4 on a fixed circuit with controls,
    # built-in controlled classes and a basis measurement
    fixed = {
        1: "c = Circuit(1)\nc.add(gates.RX(0, 0.5, trainable=False))\nc.add(gates.M(0, basis=gates.Y))\n",
        2: "c = Circuit(2)\nc.add(gates.H(0).controlled_by(1))\nc.add(gates.CRY(1, 0, 0.25))\nc.add(gates.M(1, 0, basis=[gates.X, gates.Z]))\n",
        3: "c = Circuit(3)\nc.add(gates.RXX(2, 0, 0.75).controlled_by(1))\nc.add(gates.TOFFOLI(2, 0, 1))\nc.add(gates.M(2, collapse=True))\nc.add(gates.fSim(1, 2, 0.5, 0.25).controlled_by(0))\nc.add(gates.M(0, 2, basis=gates.X))\n",
        4: "c = Circuit(4)\nc.add(gates.SWAP(3, 1).controlled_by(2, 0))\nc.add(gates.CNOT(3, 0))\nc.add(gates.U3(2, 0.5, 0.25, 0.125).controlled_by(3, 1))\nc.add(gates.M(3, 1, basis=[gates.Y, gates.X]))\n",
    }
    for n, src in fixed.items():
        for N in range(n, 5):
            for mp in itertools.permutations(range(N), n):
                mp = list(mp)
                if not ctx.thorough and n >= 3 and rng.random() < 0.5:
                    continue
                spec("C05_search_queue_ops", src, f"check_onq(c, {mp}, {N})")
                model_case("ONQ", src + f"big = Circuit({N})\n",
                           lambda e, env, mp=mp: f"ONQ 1 {len(mp)} {' '.join(map(str, mp))} " + e.queue(env["big"]) + " " + e.queue(env["c"]),
                           lambda env, mp=mp: (env["big"].add(env["c"].on_qubits(*mp)), env["big"])[1], f"fixed{n} on_qubits{tuple(mp)}")
        spec("C05_search_invert_measurements", src, "check_invert(c)")
        spec("C05_search_queue_ops", src, "check_deepcopy(c) or check_shallow(c) or check_rebuild(c)")

    # --- Circuit.add from constructor arguments (the M branch with its rotations)
    for it in range(40 if ctx.thorough else 16):
        n = rng.randint(1, 4)
        src = circuit_src(rng, n)

        def bld_line(e, env):
            steps = []
            c = env["c"]
            # replay the construction: every queue element that is not a rotation brought by a
            # measurement is a step; measurements are steps built from the ORIGINAL arguments
            rot_ids = {id(r) for g in c.queue if isinstance(g, gates.M) for r in g.basis}
            for g in c.queue:
                if id(g) in rot_ids:
                    continue
                if isinstance(g, gates.M):
                    names = [b.__name__ for b in g.basis_gates]
                    kb = e.basis_codes(names)
                    kn = g.init_kwargs["register_name"] if g.init_kwargs["register_name"] is not None else "-"
                    steps.append(f"B {len(g.target_qubits)} {' '.join(map(str, g.target_qubits))} {kn} {int(bool(g.init_kwargs['collapse']))} {len(kb)} {' '.join(map(str, kb))}")
                else:
                    steps.append("P " + e.entry(g, create=False))
            return f"BLD 1 {len(steps)} " + " ".join(steps)

        model_case("BLD", src, bld_line, lambda env: env["c"], "add-from-arguments")

    got = run_driver(lines, driver="DriverC05.lean")
    bad = 0
    for g, e, (op, src, descr) in zip(got, expect, meta):
        if _norm(g) != e:
            bad += 1
            if bad <= 3:
                ctx.sample({"queue_model_mismatch": op, "case": descr, "model": g[:400], "real": e[:400], "source": src[:600]})
    for op, k in counts.items():
        ctx.stats[f"queue_cases_{op}"] = ctx.stats.get(f"queue_cases_{op}", 0) + k
    ctx.ob("C05_corr_queue", bad == 0, "correspondence", f"{bad} of {len(lines)} cases: entry lists of the model and of the real methods differ" if bad else "")
    for ob, k in spec_bad.items():
        ctx.ob(ob, k == 0, "search", f"{k} failing inputs" if k else "")
    return bad, spec_bad


# ---------------------------------------------------------------------------
# round-4 searches: second controlled_by, dagger of symbolic parameters, + with permuted wire names

CTRL2_SPEC = r'''
def check_second_controlled_by(build, base, n, old, extra):
    """`build()` = a gate that already carries the controls `old`; `base()` = the same gate without
    them.  Accepted: the documented RuntimeError, or the base operator controlled on ALL controls."""
    try:
        g = build().controlled_by(*extra)
    except RuntimeError:
        return None
    B = full(base(), n)
    cs = list(old) + list(extra)
    E = np.eye(2 ** n, dtype=complex)
    idx = [i for i in range(2 ** n) if all((i >> (n - 1 - c)) & 1 for c in cs)]
    for i in idx:
        for j in idx: E[i, j] = B[i, j]
    if g.is_controlled_by and not set(old) <= set(g.control_qubits) or not np.allclose(full(g, n), E, atol=1e-9):
        return ("controlled_by_twice:" + type(base()).__name__,
                f"a second controlled_by{tuple(extra)} on a gate already controlled on {tuple(old)} returns {type(g).__name__} on controls {g.control_qubits} targets {g.target_qubits}: the old controls are dropped")
    return None

def check_symbolic_dagger(make, prep, use_invert):
    """qubit 0 is |1>, measured with collapse; G = make(outcome symbol) acts on the other qubits, then
    its dagger (gate.dagger() or via Circuit.invert()): the state must be the one without the pair."""
    def circ(with_pair):
        c = Circuit(3, density_matrix=True)
        c.add(gates.X(0))
        for p in prep: c.add(p())
        r = c.add(gates.M(0, collapse=True))
        if with_pair:
            g = make(r.symbols[0])
            c.add(g)
            if use_invert:
                s = Circuit(3, density_matrix=True); s.add(g)
                c.add(s.invert().queue[0])
            else:
                c.add(g.dagger())
        return np.asarray(nb.execute_circuit(c, nshots=3).state())
    ref = circ(False)
    try:
        got = circ(True)
    except Exception:
        return None   # the class refuses symbolic parameters
    d = float(np.abs(got - ref).max())
    if d > 1e-9:
        return ("dagger_symbolic", f"a gate whose parameter is a sympy expression of a measurement outcome, followed by its dagger, changes the state by {d:.3e}")
    return None

def check_add_wire_names(c1, c2):
    """accepted: the documented ValueError, or every gate of c2 on the wire with the same NAME."""
    n = c1.nqubits
    try:
        r = c1 + c2
    except ValueError:
        return None
    names1, names2 = c1.wire_names, c2.wire_names
    exp = np.eye(2 ** n, dtype=complex)
    for g in c1.queue: exp = full(g, n) @ exp
    for g in c2.queue:
        exp = full(g.on_qubits({q: names1.index(names2[q]) for q in range(n)}), n) @ exp
    got = np.eye(2 ** n, dtype=complex)
    for g in r.queue: got = full(g, n) @ got
    if list(r.wire_names) != list(names1) or not np.allclose(got, exp, atol=1e-9):
        return ("add:wire_names", f"c1 + c2 with wires {names1} and {names2}: gates of c2 are not on the wires with the same names")
    return None
'''


def round4_searches(ctx):
    rng = ctx.rng
    infos = {k: v for k, v in qgates.gate_infos().items() if v.generic and v.nq >= 1}
    code = compile(SPEC + HEAD + CTRL2_SPEC, "<C05 round-4 spec>", "exec")
    bad = {"C05_search_second_controlled_by": 0, "C05_search_symbolic_dagger": 0, "C05_search_add_wire_names": 0}

    def run_case(ob, src, call):
        env = {}
        exec(code, env)  # noqa: S102 - own text, identical to the replay
        exec(src + f"msg = {call}\n", env)  # noqa: S102
        ctx.stat("round4:" + call.split("(")[0])
        ctx.case(("round4", call.split("(")[0], src[:120], call[:120]))
        msg = env["msg"]
        if msg is not None:
            bad[ob] += 1
            ctx.fail(msg[0], msg[1], SPEC + HEAD + CTRL2_SPEC + src + f"msg = {call}\nprint(msg)\nsys.exit(1 if msg else 0)\n",
                     observed=msg[1][:300], broken=[ob])

    # (1) a second controlled_by on a gate that already has controls, every class
    for name, info in sorted(infos.items()):
        vals = [round(rng.uniform(0.2, 1.4), 3) for _ in range(info.np)]
        probe = info.make(list(range(info.nq)), vals)
        builtin = len(probe.control_qubits)
        for nold in ((0,) if builtin else (1, 2, 3)):
            for nextra in (1, 2):
                if rng.random() < (0.0 if ctx.thorough else 0.35) and nold != 2:
                    continue
                n = info.nq + nold + nextra
                qs = rng.sample(range(n), info.nq)
                rest = [q for q in range(n) if q not in qs]
                rng.shuffle(rest)
                old, extra = rest[:nold], rest[nold:nold + nextra]
                mk = f"gates.{name}(*{qs}, *{vals})"
                if builtin:
                    src = f"build = lambda: {mk}\nbase = lambda: {mk}\n"
                    oldc = []
                else:
                    src = f"build = lambda: {mk}.controlled_by(*{old})\nbase = lambda: {mk}\n"
                    oldc = old
                run_case("C05_search_second_controlled_by", src, f"check_second_controlled_by(build, base, {n}, {oldc}, {extra})")

    # (2) dagger / invert of a gate whose parameter is a sympy expression of a measurement outcome
    for name, info in sorted(infos.items()):
        if not info.np or info.nq > 2 or info.name == "MS":
            continue
        probe = info.make(list(range(info.nq)), [0.3] * info.np)
        if probe.control_qubits and info.nq > 2:
            continue
        qs = [1, 2][: info.nq] if rng.random() < 0.5 else [2, 1][: info.nq]
        others = [round(rng.uniform(0.2, 1.4), 3) for _ in range(info.np - 1)]
        coef = round(rng.uniform(0.3, 1.2), 3)
        pos = rng.randrange(info.np)
        args = others[:pos] + ["SYM"] + others[pos:]
        argtxt = ", ".join(f"{coef} * m" if a == "SYM" else repr(a) for a in args)
        src = (f"make = lambda m: gates.{name}(*{qs}, {argtxt})\n"
               "prep = [lambda: gates.H(1), lambda: gates.RY(2, 0.7), lambda: gates.CNOT(1, 2)]\n")
        for use_invert in (False, True):
            run_case("C05_search_symbolic_dagger", src, f"check_symbolic_dagger(make, prep, {use_invert})")

    # (3) c1 + c2 with the same wire names in another order (2-cycles and 3-cycles, strings and ints)
    for it in range(24 if ctx.thorough else 10):
        n = rng.choice([2, 3, 3, 4])
        names1 = [["a", "b", "c", "d"], [7, 3, 5, 11]][it % 2][:n]
        names2 = list(names1)
        if n >= 3 and it % 3 != 0:
            i, j, k = rng.sample(range(n), 3)
            names2[i], names2[j], names2[k] = names1[j], names1[k], names1[i]
        else:
            i, j = rng.sample(range(n), 2)
            names2[i], names2[j] = names1[j], names1[i]
        lines_ = [f"c1 = Circuit({n}, wire_names={names1!r})", f"c2 = Circuit({n}, wire_names={names2!r})"]
        for cname in ("c1", "c2"):
            for _ in range(rng.randint(1, 3)):
                a, b = rng.sample(range(n), 2)
                t = round(rng.uniform(0.2, 2.9), 3)
                lines_.append(f"{cname}.add(" + rng.choice([f"gates.RX({a}, {t})", f"gates.CNOT({a}, {b})", f"gates.H({a})", f"gates.CRY({b}, {a}, {t})", f"gates.RY({b}, {t}).controlled_by({a})"]) + ")")
        run_case("C05_search_add_wire_names", "\n".join(lines_) + "\n", "check_add_wire_names(c1, c2)")

    for ob, k in bad.items():
        ctx.ob(ob, k == 0, "search", f"{k} failing inputs" if k else "")


# ---------------------------------------------------------------------------
# round-6: compositions of two operations (on_qubits, then invert / deep copy / dagger / on_qubits /
# raw): every gate produced by on_qubits must be 'fresh' — what is rebuilt from it stays on ITS qubits

COMP_SPEC = r'''
def full_mapped(g, n, qmap):
    """matrix of gate g moved by qmap, by explicit embedding of its local matrix (no on_qubits)."""
    if isinstance(g, gates.FusedGate):
        U = np.eye(2 ** n, dtype=complex)
        for x in g.gates: U = full_mapped(x, n, qmap) @ U
        return U
    m = np.asarray(g.matrix(nb)); ts = [qmap[q] for q in (g.target_qubits if g.is_controlled_by else g.qubits)]
    cs = [qmap[q] for q in g.control_qubits] if g.is_controlled_by else []
    N = 2 ** n; U = np.zeros((N, N), complex)
    for i in range(N):
        bi = [(i >> (n - 1 - q)) & 1 for q in range(n)]
        if not all(bi[c] for c in cs):
            U[i, i] = 1; continue
        li = int(''.join(str(bi[t]) for t in ts), 2)
        for lj in range(2 ** len(ts)):
            bj = list(bi)
            for p, t in enumerate(ts): bj[t] = (lj >> (len(ts) - 1 - p)) & 1
            U[i, int(''.join(map(str, bj)), 2)] = m[li, lj]
    return U

def unitary_of(c):
    U = np.eye(2 ** c.nqubits, dtype=complex)
    for g in c.queue:
        if not isM(g): U = full(g, c.nqubits) @ U
    return U

def check_after_on_qubits(c, qubits, N):
    qmap = dict(enumerate(qubits))
    big = Circuit(N); big.add(c.on_qubits(*qubits))
    exp = np.eye(2 ** N, dtype=complex)
    for g in c.queue:
        if not isM(g): exp = full_mapped(g, N, qmap) @ exp
    if not np.allclose(unitary_of(big), exp, atol=1e-9):
        return ("on_qubits:operator", f"on_qubits{tuple(qubits)} moves operators incorrectly")
    for g in big.queue:
        if isM(g): continue
        if not np.allclose(full(g.dagger(), N), full(g, N).conj().T, atol=1e-9):
            return ("on_qubits-then:dagger", f"dagger() of the gate returned by on_qubits{tuple(qubits)} ({type(g).__name__} on targets {g.target_qubits} controls {g.control_qubits}) is not its adjoint: the relabelled gate still carries the old qubit ids")
    try:
        if not np.allclose(unitary_of(big.invert()), exp.conj().T, atol=1e-9):
            return ("on_qubits-then:invert", f"big.add(c.on_qubits{tuple(qubits)}); big.invert() is not the inverse of big")
    except KeyError:
        pass
    if not np.allclose(unitary_of(big.copy(deep=True)), exp, atol=1e-9):
        return ("on_qubits-then:deepcopy", f"deep copy of a circuit filled by on_qubits{tuple(qubits)} has another operator")
    perm = list(range(N)); perm = perm[1:] + perm[:1]
    b2 = Circuit(N); b2.add(big.on_qubits(*perm))
    exp2 = np.eye(2 ** N, dtype=complex)
    for g in c.queue:
        if not isM(g): exp2 = full_mapped(g, N, {q: perm[qmap[q]] for q in qmap}) @ exp2
    if not np.allclose(unitary_of(b2), exp2, atol=1e-9):
        return ("on_qubits-then:on_qubits", "on_qubits after on_qubits is not the composed relabelling")
    try:
        if not np.allclose(unitary_of(b2.invert()), exp2.conj().T, atol=1e-9):
            return ("on_qubits-then:on_qubits-invert", "invert after two on_qubits is not the inverse")
    except KeyError:
        pass
    try:
        back = Circuit.from_dict(big.raw)
    except Exception:
        back = None   # serialisation refusals belong to other checks
    if back is not None and not np.allclose(unitary_of(back), exp, atol=1e-9):
        return ("on_qubits-then:raw", "from_dict(raw) of a circuit filled by on_qubits has another operator")
    return None
'''


def round6_searches(ctx):
    rng = ctx.rng
    code = compile(SPEC + HEAD + COMP_SPEC, "<C05 round-6 spec>", "exec")
    bad = 0
    keepers = ["H", "S", "T", "SX", "SWAP", "SDG", "TDG", "iSWAP", "FSWAP", "ECR", "fSim", "RXX", "GPI2", "Unitary"]
    for it in range(40 if ctx.thorough else 16):
        n = rng.randint(2, 4)
        lines_ = [f"c = Circuit({n})"]
        for i in range(rng.randint(1, 4)):
            nm = rng.choice(keepers)
            if rng.random() < 0.25:
                lines_.append(circuit_src(rng, n, name="t", measurements=False).split("\n", 1)[1].replace("t.add", "c.add").replace("t_g", f"x{i}_g"))
                continue
            info = qgates.gate_infos()[nm] if nm != "Unitary" else None
            k = info.nq if info else 1
            if k >= n:
                k, nm, info = 1, "H", qgates.gate_infos()["H"]
            qs = rng.sample(range(n), k)
            rest = [q for q in range(n) if q not in qs]
            cs = rng.sample(rest, rng.randint(1, len(rest)))
            if nm == "Unitary":
                mk = f"gates.Unitary(np.array([[0.6, 0.8j], [0.8j, 0.6]]) @ np.diag([1, np.exp(0.7j)]), {qs[0]})"
            else:
                mk = f"gates.{nm}(*{qs}, *{[round(rng.uniform(0.2, 1.4), 3) for _ in range(info.np)]})"
            lines_.append(f"c.add({mk}.controlled_by(*{cs}))")
        src = "\n".join(lines_) + "\n"
        N = rng.randint(n, 4)
        mp = rng.sample(range(N), n)
        if mp == list(range(n)):
            mp = mp[::-1]
        call = f"check_after_on_qubits(c, {mp}, {N})"
        env = {}
        exec(code, env)  # noqa: S102 - own text, identical to the replay
        try:
            exec(src + f"msg = {call}\n", env)  # noqa: S102
            msg = env["msg"]
        except Exception as e:  # noqa: BLE001 - an operation on a relabelled circuit raises
            msg = ("on_qubits-then:raises", f"an operation on a circuit filled by on_qubits raises {type(e).__name__}: {e}")
        ctx.stat("round6:compositions")
        ctx.case(("round6", src, call))
        if msg is not None:
            bad += 1
            ctx.fail(msg[0], msg[1], SPEC + HEAD + COMP_SPEC + src + f"try:\n    msg = {call}\nexcept Exception as e:\n    msg = repr(e)\nprint(msg)\nsys.exit(1 if msg else 0)\n",
                     observed=msg[1][:300], broken=["C05_search_compositions"])
    ctx.ob("C05_search_compositions", bad == 0, "search", f"{bad} failing inputs" if bad else "")
