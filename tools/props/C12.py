"""C12 — Clifford simulation agrees with state-vector simulation or refuses the circuit.

Three ingredients (see tools/README.md):
  * theorems about the Lean model of `backends/_clifford_operations.py`
    (lean/QV/Model/Clifford.lean, lean/QV/Props/C12*.lean);
  * correspondence: the REAL tableau operations, driven through
    `CliffordBackend.execute_circuit(initial_state=…)` and `CliffordBackend.sample_shots`,
    against the Lean model (lean/DriverC12.lean), bit for bit after every gate;
  * direct search on the real code: flag <-> Clifford for every gate class, accepted
    circuits vs state vector, samples vs Born support, refusal of non-Clifford gates,
    mid-circuit collapse, engines, tableau -> circuit round trips;
  * tools/props/C12_synth.py: the Lean transliterations of `to_circuit("AG04" | "BM20")`
    (QV/Model/CliffordSynth.lean) and of `CliffordBackend.execute_circuit`'s acceptance test and
    run (QV/Model/CliffordAccept.lean) against the real code: same gate lists, same
    refusal / exception / tableau.
"""
from __future__ import annotations

import itertools
import math

import numpy as np

from vlib import qgates
from vlib.driver import run_driver
from vlib.proofs import build_and_audit, registry

PROP = "C12"
TOL = 1e-9

ALPH1 = ["I", "H", "X", "Y", "Z", "S", "SDG", "SX", "SXDG"]
ALPH2 = ["CNOT", "CY", "CZ", "SWAP", "iSWAP", "FSWAP", "ECR"]
ROT1 = ["RX", "RY", "RZ"]
ROT2 = ["CRX", "CRY", "CRZ"]

_P1 = {
    "I": np.eye(2, dtype=complex),
    "X": np.array([[0, 1], [1, 0]], dtype=complex),
    "Y": np.array([[0, -1j], [1j, 0]], dtype=complex),
    "Z": np.array([[1, 0], [0, -1]], dtype=complex),
}

HEAD = (
    "import numpy as np\nfrom qibo import Circuit, gates, set_backend\nset_backend('numpy')\n"
    "from qibo.backends import CliffordBackend, NumpyBackend\nfrom qibo.quantum_info.clifford import Clifford\n"
)


# ----------------------------------------------------------------------------------
# spec-level helpers (numpy only)
# ----------------------------------------------------------------------------------
_PAULI_CACHE = {}


def pauli_strings(k):
    if k not in _PAULI_CACHE:
        out = {}
        for lab in itertools.product("IXYZ", repeat=k):
            m = np.array([[1.0 + 0j]])
            for ch in lab:
                m = np.kron(m, _P1[ch])
            out["".join(lab)] = m
        _PAULI_CACHE[k] = out
    return _PAULI_CACHE[k]


def pauli_of_label(lab):
    m = np.array([[1.0 + 0j]])
    for ch in lab:
        m = np.kron(m, _P1[ch])
    return m


def as_signed_pauli(M, tol=1e-9):
    """(sign, label) if M = ±(Pauli string) else None."""
    d = M.shape[0]
    k = d.bit_length() - 1
    for lab, P in pauli_strings(k).items():
        c = np.trace(P @ M) / d
        if abs(abs(c) - 1) < tol:
            if abs(c.imag) < tol and np.allclose(M, c.real * P, atol=tol):
                return (1 if c.real > 0 else -1), lab
            return None
        if abs(c) > tol:
            return None
    return None


def is_clifford_matrix(U, tol=1e-9):
    """U P U† is a signed Pauli string for every Pauli P (enough: the generators X_j, Z_j)."""
    U = np.asarray(U, dtype=complex)
    d = U.shape[0]
    k = d.bit_length() - 1
    if not np.allclose(U.conj().T @ U, np.eye(d), atol=tol):
        return False
    for j in range(k):
        for ch in "XZ":
            lab = "I" * j + ch + "I" * (k - j - 1)
            if as_signed_pauli(U @ pauli_of_label(lab) @ U.conj().T, tol) is None:
                return False
    return True


def gate_src(g):
    """python source re-creating a gate object."""
    name = g.__class__.__name__
    if name == "M":
        extra = ", collapse=True" if g.collapse else ""
        return f"gates.M({', '.join(str(q) for q in g.target_qubits)}{extra})"
    args = [repr(a) for a in g.init_args]
    for k, v in g.init_kwargs.items():
        if k in ("theta", "phi", "lam", "phi0", "phi1", "delta"):
            args.append(f"{k}={float(v)!r}" if isinstance(v, (float, np.floating)) else f"{k}={v!r}")
    s = f"gates.{name}({', '.join(args)})"
    if g.is_controlled_by:
        # init_args of a controlled_by gate are those of the base gate (targets [+ class controls])
        s = f"{s}.controlled_by({', '.join(str(q) for q in g.control_qubits if q not in g.init_args)})"
    return s


def circuit_src(n, gs, var="c"):
    return f"{var} = Circuit({n})\nfor g in [{', '.join(gate_src(g) for g in gs)}]:\n    {var}.add(g)\n"


def build(n, gs):
    from qibo import Circuit

    c = Circuit(n)
    for g in gs:
        c.add(g)
    return c


def regen(gs):
    """fresh gate objects (results of M gates are per-object caches)."""
    out = []
    for g in gs:
        if g.__class__.__name__ == "M":
            out.append(g.__class__(*g.target_qubits, collapse=g.collapse))
        elif g.is_controlled_by:
            kw = {k: v for k, v in g.init_kwargs.items() if k in ("theta", "phi", "lam", "phi0", "phi1", "delta")}
            extra = [q for q in g.control_qubits if q not in g.init_args]
            out.append(g.__class__(*g.init_args, **kw).controlled_by(*extra))
        else:
            out.append(g.__class__(*g.init_args, **g.init_kwargs))
    return out


def sv_state(n, gs):
    """spec: product of the embedded documented matrices applied to |0..0>."""
    psi = np.zeros(2**n, dtype=complex)
    psi[0] = 1
    for g in gs:
        psi = qgates.gate_full_matrix(g, n) @ psi
    return psi


def angle_forms(rng, k, unit):
    """several float spellings of k*unit (unit = pi/2 or pi)."""
    forms = [k * unit, k * (unit / 1.0), (k * math.pi) / (math.pi / unit), float(np.float64(k) * np.float64(unit))]
    if unit == math.pi / 2:
        forms += [k * math.pi / 2, k / 2 * math.pi]
    return rng.choice(forms)


def random_clifford_gate(rng, n, rotations=True):
    from qibo import gates

    pool = list(ALPH1)
    if n >= 2:
        pool += ALPH2 * 2
    if rotations:
        pool += ROT1 * 2
        if n >= 2:
            pool += ROT2 * 2
    for _ in range(20):
        name = rng.choice(pool)
        cls = getattr(gates, name)
        if name in ALPH1:
            return cls(rng.randrange(n))
        if name in ALPH2:
            return cls(*rng.sample(range(n), 2))
        if name in ROT1:
            g = cls(rng.randrange(n), angle_forms(rng, rng.randint(-40, 40), math.pi / 2))
        else:
            g = cls(*rng.sample(range(n), 2), angle_forms(rng, rng.randint(-40, 40), math.pi))
        if g.clifford:  # flag False at a Clifford angle is reported by flag_search
            return g
    return gates.H(rng.randrange(n))


def random_clifford_gates(rng, n, depth, rotations=True):
    return [random_clifford_gate(rng, n, rotations) for _ in range(depth)]


_CB = {}


def cliff_backend(engine="numpy"):
    if engine not in _CB:
        from qibo.backends import CliffordBackend

        _CB[engine] = CliffordBackend(engine)
    return _CB[engine]


# ----------------------------------------------------------------------------------
# (a) flag <-> Clifford
# ----------------------------------------------------------------------------------
SPECIAL_ANGLES = [0.0, math.pi / 2, math.pi, -math.pi / 2, 3 * math.pi / 2, 2 * math.pi, math.pi / 4, 0.3, 1.0, 2.0]


def flag_search(ctx):
    from qibo import gates

    infos = {k: v for k, v in qgates.gate_infos().items() if v.generic}
    nb = qgates.np_backend()
    over = under = 0

    def examine(name, g, descr, src):
        nonlocal over, under
        try:
            flag = bool(g.clifford)
            U = qgates.gate_full_matrix(g, len(g.qubits) if not g.is_controlled_by else max(g.qubits) + 1)
        except Exception:
            ctx.stat("flag_unconstructible")
            return
        truth = is_clifford_matrix(U)
        ctx.case(("flag", descr))
        ctx.stat("flag_cases")
        if flag and not truth:
            over += 1
            okey = f"flag-overreport:{name}"
            if name in ROT2:
                # known residue: odd multiples of pi/2 only; anything else is a different defect
                th = g.parameters[0]
                quot = th / (math.pi / 2)
                if not (abs(quot - round(quot)) < 1e-9 and round(quot) % 2 == 1):
                    okey = f"flag-overreport-angle:{name}"
            ctx.fail(okey, f"{descr}.clifford is True but the operator does not map Paulis to Paulis",
                     HEAD + f"g = {src}\nassert not g.clifford, 'flag True for a non-Clifford operator'\n",
                     expected=False, observed=True, broken=["C12_search_flag"])
        if truth and not flag:
            under += 1
            ctx.fail(f"flag-underreport:{name}", f"{descr}.clifford is False but the operator maps Paulis to Paulis",
                     HEAD + f"g = {src}\nassert g.clifford, 'flag False for a Clifford operator'\n",
                     expected=True, observed=False, broken=["C12_search_flag"])

    for name, info in sorted(infos.items()):
        qs = list(range(info.nq))
        if info.np == 0:
            try:
                g = info.make(qs)
            except Exception:
                continue
            examine(name, g, f"{name}({qs})", gate_src(g))
            # the same class on reversed / shifted qubits
            if info.nq >= 2:
                g = info.make(qs[::-1])
                examine(name, g, f"{name}({qs[::-1]})", gate_src(g))
            # controlled_by versions (operator gains controls; the flag must follow)
            for nc in (1, 2):
                try:
                    base = info.make([q + nc for q in qs])
                    if base.control_qubits:
                        continue
                    g = base.controlled_by(*range(nc))
                except Exception:
                    continue
                src = f"gates.{name}({', '.join(str(q + nc) for q in qs)}).controlled_by({', '.join(str(c) for c in range(nc))})"
                examine(f"{name}.controlled_by", g, f"{name}.controlled_by[{nc}]", src)
        elif info.np == 1:
            angles = set()
            for k in range(-40, 41):
                angles.add(k * math.pi / 2)
                angles.add(k * math.pi / 4)
                angles.add(k * math.pi)
            angles.update([0.3, 1.0, 2.0, 3.0, -1.0, 1.5, 1.5707, 4.0, 100.0, 0, 1, 2, 3])
            for th in sorted(angles, key=lambda a: (abs(a), a)):
                try:
                    g = info.make(qs, [th])
                except Exception:
                    continue
                examine(name, g, f"{name}({qs}, {th!r})", f"gates.{name}({', '.join(map(str, qs))}, {th!r})")
        else:
            combos = list(itertools.product(SPECIAL_ANGLES[:8], repeat=info.np))
            if len(combos) > 600:
                combos = combos[:1] + ctx.rng.sample(combos[1:], 599)
            for vals in combos:
                try:
                    g = info.make(qs, list(vals))
                except Exception:
                    continue
                examine(name, g, f"{name}({qs}, {vals})", f"gates.{name}({', '.join(map(str, qs))}, {', '.join(repr(v) for v in vals)})")
    # flag after a parameter update (the flag must follow the current parameters)
    for name in ROT1 + ROT2 + ["GPI2"]:
        cls = getattr(gates, name)
        qs = [0] if name in ROT1 + ["GPI2"] else [0, 1]
        for a, b in ((0.3, math.pi), (math.pi, 0.3), (math.pi / 2, 1.0), (0.0, math.pi / 4)):
            g = cls(*qs, a)
            _ = g.clifford
            g.parameters = b
            examine(name, g, f"{name}({qs}, {a!r}); parameters={b!r}", f"gates.{name}({', '.join(map(str, qs))}, {a!r})\ng.parameters = {b!r}")
    ctx.ob("C12_search_flag", over == 0 and under == 0, "search", f"{over} over-reports, {under} under-reports")


# ----------------------------------------------------------------------------------
# (b) accepted circuits: stabiliser state = state vector
# ----------------------------------------------------------------------------------
def check_state(ctx, n, gs, key, engine="numpy", initial=None, what="circuit"):
    """executes on the Clifford backend; returns the result (or None if refused)."""
    be = cliff_backend(engine)
    c = build(n, regen(gs))
    try:
        r = be.execute_circuit(c) if initial is None else be.execute_circuit(c, initial_state=initial)
    except Exception as e:  # refusal: nothing to compare
        ctx.stat(f"refused_{engine}_{type(e).__name__}")
        return None
    psi = sv_state(n, gs)
    ref = np.outer(psi, psi.conj())
    sv = np.asarray(qgates.np_backend().execute_circuit(build(n, regen(gs))).state())
    try:
        rho = np.asarray(r.state())
        ok = rho.shape == ref.shape and np.allclose(rho, ref, atol=TOL) and np.allclose(np.outer(sv, sv.conj()), ref, atol=TOL)
        if ok:
            stabs = np.asarray(r.stabilizers(return_array=True))
            ok = all(np.allclose(s @ psi, psi, atol=TOL) for s in stabs) and len(stabs) == 2**n
        if ok:
            gens, phases = r.generators(return_array=True)
            for gmat, ph in zip(np.asarray(gens)[n:], phases[n:]):
                if not np.allclose(ph * gmat @ psi, psi, atol=TOL):
                    ok = False
    except Exception as e:
        ok = False
        rho = f"{type(e).__name__}: {e}"
    if not ok:
        src = HEAD + circuit_src(n, gs) + f"r = CliffordBackend({engine!r}).execute_circuit(c)\nsv = NumpyBackend().execute_circuit(c).state()\n" \
            "rho = r.state()\nassert rho.shape == (len(sv), len(sv)) and np.allclose(rho, np.outer(sv, sv.conj()), atol=1e-9)\n"
        ctx.fail(key, f"stabiliser state of an accepted {what} differs from the state-vector result ({engine}): {[gate_src(g) for g in gs]}",
                 src, expected="|psi><psi| of the state vector", observed=str(rho)[:300], broken=["C12_search_state"])
    return r


def state_search(ctx):
    from qibo import gates
    from qibo.quantum_info.random_ensembles import random_clifford

    rng = ctx.rng
    bad0 = len(ctx.failures)
    # every single gate of the alphabet after a scrambling prefix, every qubit order
    prefixes = [[], ["H", "H"], ["H", "SX"], ["SX", "H"], ["SX", "SX"]]
    for name in ALPH1:
        for pre in prefixes:
            gs = [getattr(gates, pre[0])(0)] if pre else []
            gs.append(getattr(gates, name)(0))
            ctx.case(("single", name, tuple(pre)))
            check_state(ctx, 1, gs, f"state:{name}")
    for name in ALPH2:
        for a, b in ((0, 1), (1, 0), (0, 2), (2, 0)):
            for pre in prefixes:
                gs = [getattr(gates, p)(q) for p, q in zip(pre, (a, b))]
                gs.append(getattr(gates, name)(a, b))
                ctx.case(("single", name, a, b, tuple(pre)))
                check_state(ctx, 3, gs, f"state:{name}")
    # rotations at every multiple: dispatch on float angles
    for name in ROT1:
        for k in range(-40, 41):
            for th in {k * math.pi / 2, k * (math.pi / 2), k / 2 * math.pi}:
                g = getattr(gates, name)(0, th)
                if not g.clifford:
                    ctx.stat("rot_flag_false")
                    continue
                for pre in (["H"], ["SX"], []):
                    gs = [getattr(gates, p)(0) for p in pre] + [getattr(gates, name)(0, th)]
                    ctx.case(("rot", name, k, tuple(pre)))
                    check_state(ctx, 1, gs, f"rot-dispatch:{name}")
    for name in ROT2:
        for k in range(-40, 41):
            th = k * math.pi
            if not getattr(gates, name)(0, 1, th).clifford:
                ctx.stat("rot_flag_false")
                continue
            for a, b in ((0, 1), (1, 0)):
                for pre in (["H", "H"], ["H", "SX"], ["SX", "H"]):
                    gs = [getattr(gates, p)(q) for p, q in zip(pre, (a, b))] + [getattr(gates, name)(a, b, th)]
                    ctx.case(("rot", name, k, a, b, tuple(pre)))
                    check_state(ctx, 2, gs, f"rot-dispatch:{name}")
    # every gate class whose flag is True at the given parameters must be simulated right
    infos = {k: v for k, v in qgates.gate_infos().items() if v.generic}
    for name, info in sorted(infos.items()):
        if name in ALPH1 + ALPH2 + ROT1 + ROT2:
            continue
        for vals in itertools.islice(itertools.product([0.0, math.pi / 2, math.pi, 1.0], repeat=info.np), 64):
            try:
                g = info.make(list(range(info.nq)), list(vals))
                if not g.clifford:
                    continue
            except Exception:
                continue
            n = info.nq
            gs = [gates.H(q) for q in range(n)] + [gates.S(0), g]
            ctx.case(("flagged", name, vals))
            check_state(ctx, n, gs, f"state:{name}")
    # controlled_by gates built from Clifford classes
    for name in ALPH1[1:] + ["SWAP"]:
        nq = 2 if name == "SWAP" else 1
        for nc in (1, 2):
            n = nq + nc
            base = getattr(gates, name)(*range(nc, n))
            g = base.controlled_by(*range(nc))
            try:
                if not g.clifford:
                    continue
            except Exception:
                continue
            gs = [gates.H(q) for q in range(n)] + [gates.S(n - 1), g]
            ctx.case(("ctrl", name, nc))
            check_state(ctx, n, gs, f"state:{name}.controlled_by")
    # random circuits
    nrand = 400 if ctx.thorough else 90
    for i in range(nrand):
        n = rng.randint(1, 5)
        depth = rng.randint(1, 30)
        gs = random_clifford_gates(rng, n, depth)
        ctx.case(("rand", n, tuple(gate_src(g) for g in gs)))
        ctx.stat(f"state_n{n}")
        if i < 3:
            ctx.sample({"kind": "state", "n": n, "gates": [gate_src(g) for g in gs]})
        r = check_state(ctx, n, gs, "state:random-circuit")
        if r is None:
            ctx.fail("refuses-clifford-circuit", f"circuit of flagged Clifford gates is refused: {[gate_src(g) for g in gs]}",
                     HEAD + circuit_src(n, gs) + "CliffordBackend('numpy').execute_circuit(c)\n", broken=["C12_search_state"])
            continue
        # second execution and execution in two halves through initial_state
        if i % 3 == 0:
            cut = rng.randint(0, len(gs))
            be = cliff_backend()
            r1 = be.execute_circuit(build(n, regen(gs[:cut]))) if cut else None
            init = None if r1 is None else np.array(r1.symplectic_matrix, copy=True)
            keep = None if init is None else init.copy()
            r2 = be.execute_circuit(build(n, regen(gs[cut:])), initial_state=init) if cut < len(gs) else r1
            same = np.array_equal(np.asarray(r2.symplectic_matrix)[:-1], np.asarray(r.symplectic_matrix)[:-1])
            untouched = keep is None or np.array_equal(keep, init)
            rho2 = np.asarray(r2.state())
            psi = sv_state(n, gs)
            if not (np.allclose(rho2, np.outer(psi, psi.conj()), atol=TOL) and untouched):
                ctx.fail("state:initial-state", f"execution in two parts through initial_state (cut {cut}) differs / mutates its input: {[gate_src(g) for g in gs]}",
                         HEAD + circuit_src(n, gs[:cut], "c1") + circuit_src(n, gs[cut:], "c2") + circuit_src(n, gs) +
                         "be = CliffordBackend('numpy')\nr1 = be.execute_circuit(c1)\ninit = r1.symplectic_matrix.copy()\nr2 = be.execute_circuit(c2, initial_state=init)\n"
                         "sv = NumpyBackend().execute_circuit(c).state()\nassert np.array_equal(init, r1.symplectic_matrix)\nassert np.allclose(r2.state(), np.outer(sv, sv.conj()), atol=1e-9)\n",
                         broken=["C12_search_state"])
            ctx.stat("two_part_same_tableau" if same else "two_part_other_tableau")
    # library generator of random Cliffords
    for i in range(12 if ctx.thorough else 5):
        n = rng.randint(1, 4)
        seed = rng.randrange(10**6)
        c = random_clifford(n, seed=seed, backend=qgates.np_backend())
        gs = list(c.queue)
        ctx.case(("random_clifford", n, seed))
        r = check_state(ctx, n, gs, "state:random_clifford", what=f"random_clifford({n}, seed={seed}) circuit")
        if r is None:
            ctx.fail("refuses-random_clifford", f"random_clifford({n}, seed={seed}) circuit is refused by the Clifford backend",
                     HEAD + f"from qibo.quantum_info.random_ensembles import random_clifford\nCliffordBackend('numpy').execute_circuit(random_clifford({n}, seed={seed}))\n",
                     broken=["C12_search_state"])
    ctx.ob("C12_search_state", len(ctx.failures) == bad0, "search", "")


# ----------------------------------------------------------------------------------
# (c) measurements
# ----------------------------------------------------------------------------------
def marginal(psi, n, qubits):
    """Born probabilities of bitstrings over `qubits` (listed order) -> dict."""
    probs = np.abs(psi) ** 2
    out = {}
    for i, p in enumerate(probs):
        if p < 1e-12:
            continue
        bits = tuple((i >> (n - 1 - q)) & 1 for q in qubits)
        out[bits] = out.get(bits, 0.0) + p
    return out


def sampling_search(ctx):
    from qibo import gates

    rng = ctx.rng
    np.random.seed(rng.randrange(2**32))
    bad0 = len(ctx.failures)
    be = cliff_backend()
    nrand = 160 if ctx.thorough else 50
    for i in range(nrand):
        n = rng.randint(1, 5)
        gs = random_clifford_gates(rng, n, rng.randint(0, 20))
        # measured subset in arbitrary order, split in one or more M gates
        m = rng.randint(1, n)
        qs = rng.sample(range(n), m)
        cuts = sorted(rng.sample(range(1, m), rng.randint(0, min(2, m - 1)))) if m > 1 else []
        groups = [qs[a:b] for a, b in zip([0] + cuts, cuts + [m])]
        ms = [gates.M(*grp) for grp in groups]
        nshots = 1000 if i % 10 == 0 else rng.choice([1, 7, 40])
        psi = sv_state(n, gs)
        born = marginal(psi, n, qs)
        c = build(n, regen(gs) + ms)
        ctx.case(("samples", n, tuple(gate_src(g) for g in gs), tuple(qs), tuple(cuts)))
        ctx.stat(f"samples_m{m}")
        src = HEAD + circuit_src(n, gs, "c0") + circuit_src(n, gs + ms) + \
            "np.random.seed(0)\nr = CliffordBackend('numpy').execute_circuit(c, nshots=400)\n" \
            f"psi = NumpyBackend().execute_circuit(c0).state() if c0.queue else np.eye(1, {2**n})[0]\nqs = {qs}\nprobs = np.abs(psi) ** 2\n" \
            f"def born(bits):\n    return sum(p for i, p in enumerate(probs) if all(((i >> ({n} - 1 - q)) & 1) == b for q, b in zip(qs, bits)))\n" \
            "S = r.samples()\nassert S.shape == (400, len(qs))\nfor row in S:\n    assert born(row) > 1e-9, row\n" \
            "for k in r.frequencies():\n    assert born([int(ch) for ch in k]) > 1e-9, k\n"
        try:
            r = be.execute_circuit(c, nshots=nshots)
            S = np.asarray(r.samples())
            freq = r.frequencies()
            freq_dec = r.frequencies(binary=False)
            regs = r.samples(registers=True)
            fregs = r.frequencies(registers=True)
        except Exception as e:
            ctx.fail("samples:raises", f"sampling an accepted circuit raises {type(e).__name__}: {e}", src, broken=["C12_search_samples"])
            continue
        ok = S.shape == (nshots, m)
        seen = set()
        if ok:
            for row in S:
                t = tuple(int(b) for b in row)
                seen.add(t)
                if born.get(t, 0.0) < 1e-9:
                    ok = False
            # consistent reporting of the same samples
            cnt = {}
            for row in S:
                k = "".join(str(int(b)) for b in row)
                cnt[k] = cnt.get(k, 0) + 1
            ok = ok and dict(freq) == cnt and {format(int(k), f"0{m}b"): v for k, v in freq_dec.items()} == cnt
            pos = 0
            for grp, mg in zip(groups, c.measurements):
                sub = np.asarray(regs[mg.register_name])
                ok = ok and np.array_equal(sub, S[:, pos:pos + len(grp)])
                fr = {}
                for row in S[:, pos:pos + len(grp)]:
                    k = "".join(str(int(b)) for b in row)
                    fr[k] = fr.get(k, 0) + 1
                ok = ok and dict(fregs[mg.register_name]) == fr
                pos += len(grp)
        if not ok:
            ctx.fail("samples:born-support", f"a sampled outcome has zero Born probability / inconsistent report: gates {[gate_src(g) for g in gs]} measured {groups}",
                     src, expected=f"support {sorted(born)}", observed=f"seen {sorted(seen)} freq {dict(freq)}", broken=["C12_search_samples"])
            continue
        if nshots == 1000 and len(born) <= 16 and seen != set(born):
            # every outcome has probability >= 1/16: missing one has probability < 1e-26
            ctx.fail("samples:coverage", f"1000 shots never produce an outcome of Born probability >= 1/16: gates {[gate_src(g) for g in gs]} measured {qs}",
                     src.replace("for k in r.frequencies()", f"assert len(set(map(tuple, S))) == {len(born)}\nfor k in r.frequencies()"),
                     expected=sorted(born), observed=sorted(seen), broken=["C12_search_samples"])
        # the measured state itself is unchanged by sampling; a second result object agrees
        psi_ok = np.allclose(np.asarray(r.state()), np.outer(psi, psi.conj()), atol=TOL)
        if not psi_ok:
            ctx.fail("samples:state-changed", f"state() after sampling differs from the state vector: gates {[gate_src(g) for g in gs]} measured {qs}",
                     src + "sv = NumpyBackend().execute_circuit(c0).state() if c0.queue else np.eye(1, len(probs))[0]\nassert np.allclose(r.state(), np.outer(sv, sv.conj()))\n", broken=["C12_search_samples"])
    # exhaustive two-qubit circuits over a generating set, both measurement orders (the tableau,
    # not only the state, matters for the determined outcomes), and many random tableaux
    alph = [("H", (0,)), ("H", (1,)), ("S", (0,)), ("S", (1,)), ("CNOT", (0, 1)), ("CNOT", (1, 0)), ("CZ", (0, 1))]
    small = [(2, [getattr(gates, nm)(*qq) for nm, qq in combo]) for depth in range(1, 5 if ctx.thorough else 4)
             for combo in itertools.product(alph, repeat=depth)]
    for _ in range(1200 if ctx.thorough else 350):
        n = rng.randint(2, 5)
        small.append((n, random_clifford_gates(rng, n, rng.randint(3, 18), rotations=False)))
    for n, gs in small:
        r = be.execute_circuit(build(n, gs))
        psi = sv_state(n, gs)
        for qs in ([list(range(n)), list(range(n))[::-1]] if n == 2 else [rng.sample(range(n), n)]):
            born = marginal(psi, n, qs)
            S = np.asarray(be.sample_shots(r.symplectic_matrix, tuple(qs), n, 8))
            ctx.case(("tableau-samples", n, tuple(gate_src(g) for g in gs), tuple(qs)))
            if any(born.get(tuple(int(b) for b in row), 0.0) < 1e-9 for row in S):
                ctx.fail("samples:born-support", f"a sampled outcome has zero Born probability: gates {[gate_src(g) for g in gs]} measured {qs}",
                         HEAD + circuit_src(n, gs + [gates.M(*qs)]) + circuit_src(n, gs, "c0") +
                         f"np.random.seed(0)\nS = CliffordBackend('numpy').execute_circuit(c, nshots=300).samples()\npsi = NumpyBackend().execute_circuit(c0).state()\nqs = {qs}\n"
                         f"for row in S:\n    p = sum(abs(a)**2 for i, a in enumerate(psi) if all(((i >> ({n} - 1 - q)) & 1) == int(b) for q, b in zip(qs, row)))\n    assert p > 1e-9, row\n",
                         expected=f"support {sorted(born)}", observed=str(S.tolist())[:200], broken=["C12_search_samples"])
    # sample_shots with repeated qubits: a repeated measurement is determined by the first
    for i in range(60 if ctx.thorough else 25):
        n = rng.randint(1, 5)
        gs = random_clifford_gates(rng, n, rng.randint(1, 20))
        r = be.execute_circuit(build(n, regen(gs)))
        sm = np.array(r.symplectic_matrix, copy=True)
        qs = [rng.randrange(n) for _ in range(rng.randint(2, 8))]
        S = np.asarray(be.sample_shots(sm, tuple(qs), n, 30))
        psi = sv_state(n, gs)
        distinct = list(dict.fromkeys(qs))
        born = marginal(psi, n, distinct)
        ok = np.array_equal(sm, np.asarray(r.symplectic_matrix))
        if S.ndim != 2 or S.shape[1] != len(qs):  # one column per requested qubit
            ok = False
        for row in S:
            val = {}
            for q, b in zip(qs, row):
                if val.setdefault(q, int(b)) != int(b):
                    ok = False
            if born.get(tuple(val.get(q, -1) for q in distinct), 0.0) < 1e-9:
                ok = False
        ctx.case(("repeat-measure", n, tuple(gate_src(g) for g in gs), tuple(qs)))
        if not ok:
            ctx.fail("samples:repeated-qubit", f"sample_shots on qubits {qs}: repeated measurement disagrees / zero-probability outcome / input mutated: {[gate_src(g) for g in gs]}",
                     HEAD + circuit_src(n, gs) + f"be = CliffordBackend('numpy')\nr = be.execute_circuit(c)\nS = be.sample_shots(r.symplectic_matrix, {tuple(qs)}, {n}, 200)\nqs = {qs}\n"
                     "for row in S:\n    v = {}\n    for q, b in zip(qs, row):\n        assert v.setdefault(q, int(b)) == int(b), row\n", broken=["C12_search_samples"])
    ctx.ob("C12_search_samples", len(ctx.failures) == bad0, "search", "")


def collapse_search(ctx):
    """mid-circuit collapsing measurements: every shot (mid outcomes, final outcomes) must be a
    possible history of the projective state-vector simulation."""
    from qibo import gates

    rng = ctx.rng
    np.random.seed(rng.randrange(2**32))
    bad0 = len(ctx.failures)
    be = cliff_backend()
    fixed = [
        (1, [gates.H(0)], [0], [], [0]),
        (2, [gates.H(0), gates.CNOT(0, 1)], [0], [], [1]),
        (2, [gates.H(0)], [0], [gates.CNOT(0, 1)], [0, 1]),
        (3, [gates.H(0), gates.H(1), gates.H(2)], [1, 2], [gates.CNOT(1, 0)], [0, 1, 2]),
    ]
    cases = list(fixed)
    for _ in range(40 if ctx.thorough else 12):
        n = rng.randint(1, 4)
        pre = random_clifford_gates(rng, n, rng.randint(1, 10))
        post = random_clifford_gates(rng, n, rng.randint(0, 6))
        mid = sorted(rng.sample(range(n), rng.randint(1, min(2, n))))
        fin = rng.sample(range(n), rng.randint(1, n))
        cases.append((n, pre, mid, post, fin))
    for n, pre, mid, post, fin in cases:
        nshots = 12
        pre, post = regen(pre), regen(post)
        mg = gates.M(*mid, collapse=True)
        mf = gates.M(*fin)
        c = build(n, pre + [mg] + post + [mf])
        descr = [gate_src(g) for g in pre + [mg] + post + [mf]]
        ctx.case(("collapse", n, tuple(descr)))
        src = HEAD + circuit_src(n, pre, "c") + f"mg = gates.M({', '.join(map(str, mid))}, collapse=True)\nc.add(mg)\n" \
            f"for g in [{', '.join(gate_src(g) for g in post + [mf])}]:\n    c.add(g)\n" \
            f"np.random.seed(1)\nr = CliffordBackend('numpy').execute_circuit(c, nshots=60)\nfin = np.asarray(r.samples())\nmidv = [np.asarray(s).reshape(-1) for s in mg.result.samples()]\n" \
            f"from qibo.gates import Unitary\nn, mid, finq = {n}, {mid}, {fin}\n" \
            f"def U(gs):\n    cc = Circuit(n)\n    for g in gs: cc.add(g)\n    return cc.unitary() if gs else np.eye(2**n)\n" \
            f"U1 = U([{', '.join(gate_src(g) for g in pre)}]); U2 = U([{', '.join(gate_src(g) for g in post)}])\n" \
            "for a, b in zip(midv, fin):\n    psi = U1[:, 0].copy()\n" \
            "    keep = np.array([all(((i >> (n - 1 - q)) & 1) == int(v) for q, v in zip(mid, a)) for i in range(2**n)])\n" \
            "    psi = np.where(keep, psi, 0)\n    assert np.linalg.norm(psi) > 1e-9, (a, b)\n    psi = U2 @ psi\n" \
            "    p = sum(abs(psi[i])**2 for i in range(2**n) if all(((i >> (n - 1 - q)) & 1) == int(v) for q, v in zip(finq, b)))\n    assert p > 1e-9, (a, b)\n"
        try:
            r = be.execute_circuit(c, nshots=nshots)
            F = np.asarray(r.samples())
            mids = [np.asarray(s).reshape(-1) for s in mg.result.samples()]
        except Exception as e:
            ctx.fail("collapse:raises", f"circuit with a collapsing measurement raises {type(e).__name__}: {e}; {descr}", src, broken=["C12_search_collapse"])
            continue
        ok = F.shape == (nshots, len(fin)) and len(mids) == nshots
        U1 = np.eye(2**n, dtype=complex)
        for g in pre:
            U1 = qgates.gate_full_matrix(g, n) @ U1
        U2 = np.eye(2**n, dtype=complex)
        for g in post:
            U2 = qgates.gate_full_matrix(g, n) @ U2
        obs = []
        if ok:
            for a, b in zip(mids, F):
                obs.append((a.tolist(), b.tolist()))
                psi = U1[:, 0].copy()
                keep = np.array([all(((i >> (n - 1 - q)) & 1) == int(v) for q, v in zip(mid, a)) for i in range(2**n)])
                psi = np.where(keep, psi, 0)
                if np.linalg.norm(psi) < 1e-9:
                    ok = False
                    break
                psi = U2 @ psi
                p = sum(abs(psi[i]) ** 2 for i in range(2**n) if all(((i >> (n - 1 - q)) & 1) == int(v) for q, v in zip(fin, b)))
                if p < 1e-9:
                    ok = False
                    break
        if not ok:
            ctx.fail("collapse:history", f"a shot of a circuit with a mid-circuit collapsing measurement is impossible for the projective state-vector simulation: {descr}",
                     src, expected="every (mid, final) pair has non-zero probability", observed=str(obs)[:300], broken=["C12_search_collapse"])
    ctx.ob("C12_search_collapse", len(ctx.failures) == bad0, "search", "")


# ----------------------------------------------------------------------------------
# (d) refusal of non-Clifford gates
# ----------------------------------------------------------------------------------
def refusal_search(ctx):
    from qibo import gates
    from qibo.quantum_info.clifford import Clifford

    rng = ctx.rng
    bad0 = len(ctx.failures)
    infos = {k: v for k, v in qgates.gate_infos().items() if v.generic}
    be = cliff_backend()
    for name, info in sorted(infos.items()):
        trials = 0
        for _ in range(30):
            if trials >= (4 if info.np else 2):
                break
            vals = [rng.choice([0.3, 1.0, 2.0, math.pi / 4, math.pi / 3, rng.uniform(-4, 4)]) for _ in range(info.np)]
            n = max(info.nq, rng.randint(info.nq, 4))
            qs = rng.sample(range(n), info.nq)
            try:
                g = info.make(qs, vals)
                U = qgates.gate_full_matrix(g, n)
            except Exception:
                continue
            if is_clifford_matrix(U) if n <= 3 else is_clifford_matrix(np.asarray(g.matrix(qgates.np_backend()))):
                continue
            trials += 1
            pre = random_clifford_gates(rng, n, rng.randint(0, 6))
            post = random_clifford_gates(rng, n, rng.randint(0, 6))
            gs = pre + [g] + post
            ctx.case(("refuse", name, tuple(vals), tuple(qs), len(pre)))
            for how in ("backend", "Clifford", "from_circuit"):
                c = build(n, regen(pre) + [info.make(qs, vals)] + regen(post))
                try:
                    if how == "backend":
                        r = be.execute_circuit(c)
                    elif how == "Clifford":
                        r = Clifford(c, engine="numpy")
                    else:
                        r = Clifford.from_circuit(c, engine="numpy")
                except Exception:
                    ctx.stat("refused_nonclifford")
                    continue
                ctx.fail(f"accepts-nonclifford:{name}", f"circuit containing the non-Clifford gate {gate_src(g)} is accepted ({how}): {[gate_src(x) for x in gs]}",
                         HEAD + circuit_src(n, gs) + "try:\n    CliffordBackend('numpy').execute_circuit(c)\nexcept Exception:\n    raise SystemExit(0)\nraise SystemExit('accepted a non-Clifford circuit')\n",
                         expected="RuntimeError", observed="accepted", broken=["C12_search_refuse"])
                break
    ctx.ob("C12_search_refuse", len(ctx.failures) == bad0, "search", "")


# ----------------------------------------------------------------------------------
# engines
# ----------------------------------------------------------------------------------
def stim_search(ctx):
    try:
        import stim  # noqa: F401
    except Exception:
        ctx.stat("stim_absent")
        ctx.notes.append("stim not importable: engine stim skipped")
        return
    from qibo import gates

    rng = ctx.rng
    bad0 = len(ctx.failures)
    names1 = ["H", "X", "Y", "Z", "S", "I", "SX", "SDG", "SXDG"]
    names2 = ["CNOT", "CY", "CZ", "SWAP", "iSWAP", "ECR", "FSWAP"]
    # every class alone: accepted -> must be right
    for name in names1:
        for pre in ([], ["H"], ["SX"]):
            gs = [gates.H(0), gates.S(0)] + [getattr(gates, name)(1 if pre else 0)] + [gates.CNOT(0, 1)]
            ctx.case(("stim-single", name, tuple(pre)))
            check_state(ctx, 2, gs, f"stim:{name}", engine="stim")
    for name in names2:
        for a, b in ((0, 1), (1, 0), (2, 0)):
            gs = [gates.H(a), gates.S(a), gates.H(b), getattr(gates, name)(a, b), gates.H(2), gates.S(2)]
            ctx.case(("stim-single", name, a, b))
            check_state(ctx, 3, gs, f"stim:{name}", engine="stim")
    for name in ROT1:
        for k in (1, 2, 3, 4):
            gs = [gates.H(0), getattr(gates, name)(0, k * math.pi / 2)]
            ctx.case(("stim-rot", name, k))
            check_state(ctx, 1, gs, f"stim:{name}", engine="stim")
    for i in range(120 if ctx.thorough else 40):
        n = rng.randint(1, 5)
        gs = []
        for _ in range(rng.randint(1, 25)):
            name = rng.choice(["H", "X", "Y", "Z", "S", "CNOT", "CY", "CZ", "SWAP", "iSWAP"] if n > 1 else ["H", "X", "Y", "Z", "S"])
            cls = getattr(gates, name)
            gs.append(cls(rng.randrange(n)) if name in names1 else cls(*rng.sample(range(n), 2)))
        ctx.case(("stim-rand", n, tuple(gate_src(g) for g in gs)))
        top = max(q for g in gs for q in g.qubits)
        key = "stim:random-circuit" if top == n - 1 else "stim:idle-last-qubits"
        check_state(ctx, n, gs, key, engine="stim")
    # non-Clifford gates must be refused by the stim engine as well
    for g in (gates.T(0), gates.TDG(0), gates.RX(0, 0.3), gates.RZ(0, 1.0), gates.U3(0, 0.1, 0.2, 0.3), gates.CSX(0, 1), gates.TOFFOLI(0, 1, 2), gates.SiSWAP(0, 1)):
        n = 3
        gs = [gates.H(0), g, gates.CNOT(0, 2)]
        try:
            cliff_backend("stim").execute_circuit(build(n, gs))
        except Exception:
            ctx.stat("stim_refused_nonclifford")
            continue
        ctx.fail(f"stim-accepts-nonclifford:{g.__class__.__name__}", f"stim engine accepts the non-Clifford gate {gate_src(g)}",
                 HEAD + circuit_src(n, gs) + "try:\n    CliffordBackend('stim').execute_circuit(c)\nexcept Exception:\n    raise SystemExit(0)\nraise SystemExit('accepted')\n",
                 broken=["C12_search_stim"])
    ctx.ob("C12_search_stim", len(ctx.failures) == bad0, "search", "")


# ----------------------------------------------------------------------------------
# (e) tableau -> circuit
# ----------------------------------------------------------------------------------
def all_one_qubit_tableaux():
    from qibo import gates

    seen, out, todo = set(), [], [[]]
    be = cliff_backend()
    while todo:
        gs = todo.pop(0)
        r = be.execute_circuit(build(1, [getattr(gates, g)(0) for g in gs] or [gates.I(0)]))
        key = np.asarray(r.symplectic_matrix)[:-1].astype(int).tobytes()
        if key in seen:
            continue
        seen.add(key)
        out.append(gs)
        for g in ("H", "S"):
            todo.append(gs + [g])
    return out


def to_circuit_search(ctx):
    from qibo import gates
    from qibo.quantum_info.clifford import Clifford

    rng = ctx.rng
    bad0 = len(ctx.failures)
    be = cliff_backend()
    nstr_bad = [0]
    cases = [(1, [getattr(gates, g)(0) for g in gs] or [gates.I(0)]) for gs in all_one_qubit_tableaux()]
    ctx.stat("one_qubit_tableaux", len(cases))
    for _ in range(150 if ctx.thorough else 40):
        n = rng.randint(2, 5)
        cases.append((n, random_clifford_gates(rng, n, rng.randint(1, 25))))
    for _ in range(150 if ctx.thorough else 40):
        n = rng.randint(2, 3)
        cases.append((n, random_clifford_gates(rng, n, rng.randint(1, 25))))
    for n, gs in cases:
        r = be.execute_circuit(build(n, regen(gs)))
        before = np.array(r.symplectic_matrix, copy=True)
        psi = sv_state(n, gs)
        rho = np.outer(psi, psi.conj())
        for alg in ("AG04", "BM20") if n <= 3 else ("AG04",):
            ctx.case(("to_circuit", alg, n, tuple(gate_src(g) for g in gs)))
            ctx.stat(f"to_circuit_{alg}_n{n}")
            src = HEAD + circuit_src(n, gs) + f"be = CliffordBackend('numpy')\nr = be.execute_circuit(c)\nc2 = r.to_circuit({alg!r})\nr2 = be.execute_circuit(c2)\n" \
                "assert np.allclose(r2.state(), r.state(), atol=1e-9)\nsv = NumpyBackend().execute_circuit(c2).state()\nassert np.allclose(np.outer(sv, sv.conj()), r.state(), atol=1e-9)\n"
            try:
                c2 = r.to_circuit(alg)
                r2 = be.execute_circuit(c2)
                psi2 = sv_state(n, list(c2.queue))
                ok = (c2.nqubits == n and np.allclose(np.asarray(r2.state()), rho, atol=TOL)
                      and np.allclose(np.outer(psi2, psi2.conj()), rho, atol=TOL)
                      and np.array_equal(before, np.asarray(r.symplectic_matrix))
                      and all(g.clifford for g in c2.queue))
                same_tab = np.array_equal(np.asarray(r2.symplectic_matrix)[:-1], before[:-1])
                ctx.stat("to_circuit_same_tableau" if same_tab else "to_circuit_other_tableau")
            except Exception as e:
                ok = False
                ctx.stat(f"to_circuit_raises_{type(e).__name__}")
            if not ok:
                ctx.fail(f"to_circuit:{alg}", f"to_circuit({alg!r}) of the tableau of {[gate_src(g) for g in gs]} does not reproduce the state (or mutates the object)",
                         src, broken=["C12_search_to_circuit"])
        # string form of the stabilisers agrees with the matrices (every case)
        try:
            strs = list(r.stabilizers())
            sok = len(strs) == 2**n
            for st in strs:
                sign = -1 if st.startswith("-") else 1
                lab = st.lstrip("-")
                if "i" in lab or not np.allclose(sign * pauli_of_label(lab) @ psi, psi, atol=TOL):
                    sok = False
        except Exception:
            sok = False
        if not sok:
            nstr_bad[0] += 1
            ctx.fail("stabilizers:strings", f"stabilizers() in string form contains an operator that does not stabilise the state of {[gate_src(g) for g in gs]} (sign of a product)",
                     HEAD + circuit_src(n, gs) + "r = CliffordBackend('numpy').execute_circuit(c)\nsv = NumpyBackend().execute_circuit(c).state()\n"
                     "P = {'I': np.eye(2), 'X': np.array([[0, 1], [1, 0]]), 'Y': np.array([[0, -1j], [1j, 0]]), 'Z': np.diag([1, -1])}\n"
                     "for s in r.stabilizers():\n    m = np.eye(1)\n    for ch in s.lstrip('-'):\n        m = np.kron(m, P[ch])\n    assert np.allclose((-1 if s[0] == '-' else 1) * m @ sv, sv, atol=1e-9), s\n",
                     broken=["C12_search_strings"])
        # copies and alternative constructors describe the same state
        if rng.random() < 0.3:
            try:
                cp = r.copy(deep=True)
                sh = r.copy()
                cc = Clifford(build(n, regen(gs)), engine="numpy")
                fc = Clifford.from_circuit(build(n, regen(gs)), engine="numpy")
                raw = Clifford(np.array(before[:-1], copy=True), engine="numpy")
                ok = all(np.allclose(np.asarray(x.state()), rho, atol=TOL) for x in (cp, sh, cc, fc, raw))
                ok = ok and cp.symplectic_matrix is not r.symplectic_matrix
            except Exception:
                ok = False
            if not ok:
                ctx.fail("clifford-object:copy/from_circuit", f"copy / Clifford(circuit) / from_circuit disagree with the state of {[gate_src(g) for g in gs]}",
                         HEAD + circuit_src(n, gs) + "r = CliffordBackend('numpy').execute_circuit(c)\nsv = NumpyBackend().execute_circuit(c).state()\nrho = np.outer(sv, sv.conj())\n"
                         "for x in (r.copy(deep=True), r.copy(), Clifford(c, engine='numpy'), Clifford.from_circuit(c, engine='numpy'), Clifford(r.symplectic_matrix[:-1].copy(), engine='numpy')):\n    assert np.allclose(x.state(), rho, atol=1e-9)\n",
                         broken=["C12_search_to_circuit"])
    ctx.ob("C12_search_strings", nstr_bad[0] == 0, "search", f"{nstr_bad[0]} tableaux with a wrong string" if nstr_bad[0] else "")
    ctx.ob("C12_search_to_circuit", len([f for f in ctx.failures[bad0:] if f["key"] != "stabilizers:strings"]) == 0, "search", "")

# ----------------------------------------------------------------------------------
# correspondence: Lean model of the tableau operations <-> the real code
# ----------------------------------------------------------------------------------
DRIVER = "DriverC12.lean"


def tab_tokens(T):
    T = np.asarray(T).astype(int)
    return " ".join("".join(str(int(b)) for b in row) for row in T)


def parse_tab(tokens):
    return np.array([[int(ch) for ch in tok] for tok in tokens], dtype=np.uint8)


def gate_token(g, k=0):
    name = g.__class__.__name__
    qs = list(g.init_args) + [0]
    return f"{name} {qs[0]} {qs[1]} {k}"


def make_gate(name, qs, k=0):
    from qibo import gates

    cls = getattr(gates, name)
    if name in ROT1:
        return cls(qs[0], k * math.pi / 2)
    if name in ROT2:
        return cls(qs[0], qs[1], k * math.pi)
    return cls(*qs)


def real_apply(n, gs, T):
    """the real tableau functions, through the backend API, from tableau T."""
    r = cliff_backend().execute_circuit(build(n, gs), initial_state=np.array(T, dtype=np.uint8, copy=True))
    return np.asarray(r.symplectic_matrix).astype(np.uint8)


def pattern_tableau(rng, n, qs, offset):
    """rows whose bits on the gate's qubits run through all local Pauli patterns."""
    T = np.array([[rng.randint(0, 1) for _ in range(2 * n + 1)] for _ in range(2 * n + 1)], dtype=np.uint8)
    m = len(qs)
    for j in range(2 * n + 1):
        p = (offset + j) % (4**m)
        for i, q in enumerate(qs):
            T[j, q] = (p >> (2 * i)) & 1
            T[j, n + q] = (p >> (2 * i + 1)) & 1
    return T


def gate_correspondence(ctx):
    rng = ctx.rng
    lines, meta = [], []

    def add_case(n, name, qs, k, T):
        g = make_gate(name, qs, k)
        if not g.clifford:
            ctx.stat("corr_flag_false")
            return
        lines.append(f"G {n} {tab_tokens(T)} {gate_token(g, k)}")
        meta.append(("G", n, [(name, qs, k)], T))

    # every operation, every placement (also non-adjacent, descending), all local patterns
    for name in ALPH1 + ROT1:
        ks = [0] if name in ALPH1 else list(range(-8, 9)) + [rng.randint(-40, 40) for _ in range(6)] + [-40, 40, 37, -39]
        for k in ks:
            for n in (1, 2, 4):
                for q in range(n) if k in (0, 1, 2, 3) else [rng.randrange(n)]:
                    add_case(n, name, [q], k, pattern_tableau(rng, n, [q], rng.randrange(4)))
    for name in ALPH2 + ROT2:
        ks = [0] if name in ALPH2 else list(range(-6, 7)) + [rng.randint(-40, 40) for _ in range(4)] + [-40, 40, 37, -39]
        for k in ks:
            for n in (2, 3, 5):
                pairs = [(a, b) for a in range(n) for b in range(n) if a != b]
                if not (k in (0, 1, 2, 3) and n <= 3):
                    pairs = rng.sample(pairs, 2)
                for a, b in pairs:
                    reps = -(-16 // (2 * n + 1))
                    for rep in range(reps):
                        add_case(n, name, [a, b], k, pattern_tableau(rng, n, [a, b], rep * (2 * n + 1)))
    # multi-step histories: random circuits from the zero state / a random tableau, compared after
    # every gate (each step starts from the real previous tableau) and as a whole
    be = cliff_backend()
    for i in range(60 if ctx.thorough else 20):
        n = rng.randint(1, 5)
        depth = rng.randint(2, 30)
        steps = []
        for _ in range(depth):
            name = rng.choice(ALPH1 + ROT1 * 2 + ((ALPH2 + ROT2) * 2 if n > 1 else []))
            qs = rng.sample(range(n), 1 if name in ALPH1 + ROT1 else 2)
            k = rng.randint(-40, 40) if name in ROT1 + ROT2 else 0
            if make_gate(name, qs, k).clifford:
                steps.append((name, qs, k))
        T0 = np.asarray(be.zero_state(n)).astype(np.uint8) if i % 2 == 0 else pattern_tableau(rng, n, [0], 0)
        T = T0
        for st in steps:
            lines.append(f"G {n} {tab_tokens(T)} {gate_token(make_gate(*st), st[2])}")
            meta.append(("G", n, [st], T))
            T = real_apply(n, [make_gate(*st)], T)
        lines.append(f"R {n} {tab_tokens(T0)} {len(steps)} " + " ".join(gate_token(make_gate(*st), st[2]) for st in steps))
        meta.append(("R", n, steps, T0))
    for n in range(1, 6):
        lines.append(f"Z {n}")
        meta.append(("Z", n, [], None))
    outs = run_driver(lines, driver=DRIVER)
    bad = 0
    for (kind, n, steps, T), out in zip(meta, outs):
        model = parse_tab(out.split())
        if kind == "Z":
            real = np.asarray(be.zero_state(n)).astype(np.uint8)
        else:
            real = real_apply(n, [make_gate(*st) for st in steps], T)
        names = [st[0] for st in steps]
        ctx.case((kind, n, tuple((st[0], tuple(st[1]), st[2]) for st in steps), None if T is None else T.tobytes()))
        ctx.stat(f"corr_{kind}_{names[0] if len(names) == 1 else 'circuit'}")
        if len(ctx.samples) < 8 and kind == "G" and len(ctx.samples) % 2 == 0:
            ctx.sample({"kind": "tableau-gate", "n": n, "gate": steps[0], "tableau": tab_tokens(T)})
        if real.shape != model.shape or not np.array_equal(real, model):
            bad += 1
            gs = [make_gate(*st) for st in steps]
            key = f"tableau:{names[0]}" if len(names) == 1 else ("tableau:zero_state" if kind == "Z" else "tableau:circuit")
            py = HEAD + (circuit_src(n, gs) if gs else f"c = Circuit({n})\n") + \
                (f"T = np.array({np.asarray(T).tolist()}, dtype=np.uint8)\nr = CliffordBackend('numpy').execute_circuit(c, initial_state=T.copy()).symplectic_matrix\n" if kind != "Z"
                 else f"r = CliffordBackend('numpy').zero_state({n})\n") + \
                f"expected = np.array({model.tolist()})\nassert np.array_equal(np.asarray(r).astype(int), expected), np.asarray(r).astype(int).tolist()\n"
            ctx.fail(key, f"tableau after {[(st[0], st[1], st[2]) for st in steps]} differs from the conjugation model",
                     py, expected=tab_tokens(model), observed=tab_tokens(real), broken=["C12_corr_gates"])
    ctx.ob("C12_corr_gates", bad == 0, "correspondence", f"{bad} disagreements of {len(lines)}" if bad else f"{len(lines)} cases")


def measure_correspondence(ctx):
    """real `sample_shots` (one shot) against the model: the outcomes of random measurements are
    fed to the model as coins, every determined outcome must then coincide."""
    rng = ctx.rng
    np.random.seed(rng.randrange(2**32))
    be = cliff_backend()
    lines, meta = [], []
    for i in range(2500 if ctx.thorough else 700):
        n = rng.randint(1, 5)
        gs = random_clifford_gates(rng, n, rng.randint(0, 25), rotations=(i % 2 == 0))
        T = np.asarray(be.execute_circuit(build(n, gs)).symplectic_matrix).astype(np.uint8) if gs else np.asarray(be.zero_state(n)).astype(np.uint8)
        m = rng.randint(1, 2 * n)
        qs = rng.sample(range(n), min(m, n)) if i % 3 else [rng.randrange(n) for _ in range(m)]
        keep = T.copy()
        real = [int(b) for b in np.asarray(be.sample_shots(T, tuple(qs), n, 1))[0]]
        lines.append(f"M {n} {tab_tokens(keep)} {len(qs)} {' '.join(map(str, qs))} {' '.join(map(str, real))}")
        meta.append((n, gs, qs, real, np.array_equal(keep, T)))
    outs = run_driver(lines, driver=DRIVER)
    bad = 0
    for (n, gs, qs, real, untouched), out in zip(meta, outs):
        toks = out.split()
        model = [int(ch) for ch in toks[0]]
        flags = toks[1]
        ctx.case(("measure", n, tuple(gate_src(g) for g in gs), tuple(qs), tuple(real)))
        ctx.stat("measure_random", flags.count("1"))
        ctx.stat("measure_determined", flags.count("0"))
        if model != real or not untouched:
            bad += 1
            psi = sv_state(n, gs)
            ctx.fail("samples:born-support" if untouched else "samples:input-mutated",
                     f"sample_shots on qubits {qs} after {[gate_src(g) for g in gs]}: outcome {real} but the determined outcomes (given the random ones) are {model}",
                     HEAD + circuit_src(n, gs) + f"be = CliffordBackend('numpy')\nT = be.execute_circuit(c).symplectic_matrix if c.queue else be.zero_state({n})\n"
                     f"psi = NumpyBackend().execute_circuit(c).state() if c.queue else np.eye(1, {2**n})[0]\nqs = {qs}\nnp.random.seed(3)\n"
                     f"for row in be.sample_shots(T, tuple(qs), {n}, 300):\n    v = {{}}\n    for q, b in zip(qs, row):\n        assert v.setdefault(q, int(b)) == int(b), row\n"
                     f"    p = sum(abs(a)**2 for i, a in enumerate(psi) if all(((i >> ({n} - 1 - q)) & 1) == b for q, b in v.items()))\n    assert p > 1e-9, row\n",
                     expected=model, observed=real, broken=["C12_corr_measure"])
    ctx.ob("C12_corr_measure", bad == 0, "correspondence", f"{bad} disagreements of {len(lines)}" if bad else f"{len(lines)} cases")

def matrix_correspondence(ctx):
    """the matrices the conjugation theorems (T12_conj_*) are about are the documented qibo
    matrices up to a scalar: `gate.matrix()` for every class and every angle index."""
    from vlib.driver import parse_gi

    lines, meta = [], []
    for name in ALPH1:
        lines.append(f"MAT1 {name} 0")
        meta.append((name, [0], 0))
    for name in ROT1:
        for k in range(-9, 10):
            lines.append(f"MAT1 {name} {k}")
            meta.append((name, [0], k))
    for name in ALPH2:
        lines.append(f"MAT2 {name} 0")
        meta.append((name, [0, 1], 0))
    for name in ROT2:
        for k in range(-9, 10):
            lines.append(f"MAT2 {name} {k}")
            meta.append((name, [0, 1], k))
    outs = run_driver(lines, driver=DRIVER)
    bad = 0
    nb = qgates.np_backend()
    for (name, qs, k), out in zip(meta, outs):
        d = 2 ** len(qs)
        model = parse_gi(out).reshape(d, d)
        g = make_gate(name, qs, k)
        real = np.asarray(g.matrix(nb))
        ctx.case(("matrix", name, k))
        ok = qgates.phase_equal(model / np.linalg.norm(model[:, 0]) if np.linalg.norm(model[:, 0]) > 0 else model, real)
        if not ok:
            bad += 1
            ctx.fail(f"matrix:{name}", f"documented matrix of {gate_src(g)} is not proportional to the matrix the tableau update conjugates by",
                     HEAD + f"g = {gate_src(g)}\nU = g.matrix(NumpyBackend())\nV = np.array({model.tolist()})\nV = V / np.linalg.norm(V[:, 0])\n"
                     "i = np.argmax(abs(V)); c = U.flat[i] / V.flat[i]\nassert abs(abs(c) - 1) < 1e-9 and np.allclose(U, c * V, atol=1e-9)\n",
                     expected=str(model.tolist()), observed=str(real.tolist()), broken=["C12_corr_matrices"])
    ctx.ob("C12_corr_matrices", bad == 0, "correspondence", f"{bad} disagreements" if bad else f"{len(lines)} matrices")


# ----------------------------------------------------------------------------------
# correspondence: operators of the theorems T12_conjugation_* / T12_stabilizer_state
# (lean/QV/Model/CliffordSV.lean: pauliOp, Gate.mgate, runSV) <-> the real backends
# ----------------------------------------------------------------------------------
def row_matrix(n, row):
    """numpy meaning of a tableau row: (-1)^r kron_k sigma(x_k, z_k)."""
    lab = "".join("IXZY"[int(row[k]) + 2 * int(row[n + k])] for k in range(n))
    return (-1) ** int(row[2 * n]) * pauli_of_label(lab)


def statevector_correspondence(ctx):
    """instance of T12_stabilizer_state on every run: the state vector of the Lean simulator
    model (exact, over Z[i]) is proportional to the real state-vector result, every stabiliser
    row of the model tableau fixes the model state (operator `pauliOp`, evaluated in Lean) and,
    as a numpy matrix, the REAL state vector; `pauliOp` itself is compared with the real
    `symplectic_matrix_to_generators` matrices on random integer vectors."""
    from vlib.driver import parse_gi

    rng = ctx.rng
    nb = qgates.np_backend()
    be = cliff_backend()
    cases = []
    pre = {1: [[], [("H", [0], 0)], [("SX", [0], 0)]],
           2: [[("H", [0], 0), ("SX", [1], 0)], [("SX", [0], 0), ("H", [1], 0)], [("H", [0], 0), ("CNOT", [0, 1], 0), ("S", [1], 0)]],
           3: [[("H", [0], 0), ("SX", [1], 0), ("H", [2], 0), ("S", [2], 0)], [("SX", [0], 0), ("H", [1], 0), ("CNOT", [1, 2], 0)]]}
    for name in ALPH1 + ROT1:
        for k in ([0] if name in ALPH1 else range(-4, 5)):
            for n in (1, 2):
                for q in range(n):
                    for p in pre[n]:
                        cases.append((n, p + [(name, [q], k)]))
    for name in ALPH2 + ROT2:
        for k in ([0] if name in ALPH2 else range(-3, 4)):
            for n in (2, 3):
                for a in range(n):
                    for b in range(n):
                        if a != b:
                            for p in pre[n][: (3 if n == 2 else 1)]:
                                cases.append((n, p + [(name, [a, b], k)]))
    for i in range(200 if ctx.thorough else 60):
        n = rng.randint(1, 5)
        steps = []
        for _ in range(rng.randint(1, 30)):
            name = rng.choice(ALPH1 + ROT1 * 2 + ((ALPH2 + ROT2) * 2 if n > 1 else []))
            qs = rng.sample(range(n), 1 if name in ALPH1 + ROT1 else 2)
            steps.append((name, qs, rng.randint(-40, 40) if name in ROT1 + ROT2 else 0))
        cases.append((n, steps))
    cases = [(n, [st for st in steps if make_gate(*st).clifford]) for n, steps in cases]
    lines = [f"SV {n} {len(steps)} " + " ".join(gate_token(make_gate(*st), st[2]) for st in steps) for n, steps in cases]
    outs = run_driver(lines, driver=DRIVER)
    bad = 0
    for (n, steps), out in zip(cases, outs):
        gs = [make_gate(*st) for st in steps]
        ctx.case(("sv", n, tuple((st[0], tuple(st[1]), st[2]) for st in steps)))
        ctx.stat(f"sv_n{n}")
        parts = out.split("|")
        ok_model = ok_state = ok_rows = len(parts) == 3
        model = None
        if ok_model:
            model = parse_gi(parts[0])
            flags = parts[1].strip()
            rows = parse_tab(parts[2].split())
            ok_model = flags == "1" * (n + 1)
            psi = np.asarray(nb.execute_circuit(build(n, regen(gs))).state()) if gs else np.eye(1, 2**n)[0].astype(complex)
            nrm = np.linalg.norm(model)
            ok_state = bool(nrm > 0) and qgates.phase_equal(model / nrm, psi) and qgates.phase_equal(psi, sv_state(n, gs))
            ok_rows = all(np.allclose(row_matrix(n, rows[n + i]) @ psi, psi, atol=TOL) for i in range(n))
        if not (ok_model and ok_state and ok_rows):
            bad += 1
            what = ("a stabiliser row of the conjugation model does not fix the model state vector" if not ok_model else
                    "state vector of the simulator model is not proportional to the real state-vector result" if not ok_state else
                    "a stabiliser row of the conjugation model does not fix the real state-vector result")
            if model is not None and not ok_state:
                tail = (f"v = np.array({[complex(z) for z in model]!r})\nv = v / np.linalg.norm(v)\nk = np.argmax(abs(v)); ph = sv[k] / v[k]\n"
                        "assert abs(abs(ph) - 1) < 1e-7 and np.allclose(sv, ph * v, atol=1e-9)\n")
            else:
                tail = ("r = CliffordBackend('numpy').execute_circuit(c)\ngens, phases = r.generators(return_array=True)\n"
                        f"for gmat, ph in zip(np.asarray(gens)[{n}:], phases[{n}:]):\n    assert np.allclose(ph * gmat @ sv, sv, atol=1e-9)\n")
            ctx.fail("statevector:model" if not ok_state else "state:model-stabilizers", f"{what}: {[gate_src(g) for g in gs]}",
                     HEAD + circuit_src(n, gs) + "sv = NumpyBackend().execute_circuit(c).state()\n" + tail,
                     expected="stabiliser rows fix the state vector", observed=out[:300], broken=["C12_corr_statevector"])
    ctx.ob("C12_corr_statevector", bad == 0, "correspondence", f"{bad} disagreements of {len(lines)}" if bad else f"{len(lines)} circuits")
    # pauliOp (the operator the theorems are about) against qibo's own reading of tableau rows
    lines, meta = [], []
    for i in range(120 if ctx.thorough else 40):
        n = rng.randint(1, 4)
        T = np.array([[rng.randint(0, 1) for _ in range(2 * n + 1)] for _ in range(2 * n + 1)], dtype=np.uint8)
        gens, phases = be.symplectic_matrix_to_generators(T, return_array=True)
        for j in rng.sample(range(2 * n), min(2 * n, 3)):
            v = np.array([complex(rng.randint(-3, 3), rng.randint(-3, 3)) for _ in range(2**n)])
            lines.append(f"PO {n} {''.join(str(int(b)) for b in T[j])} " + " ".join(f"{int(z.real)} {int(z.imag)}" for z in v))
            meta.append((n, T[j].copy(), v, complex(phases[j]) * (np.asarray(gens[j]) @ v)))
    outs = run_driver(lines, driver=DRIVER)
    bad = 0
    for (n, row, v, real), out in zip(meta, outs):
        model = parse_gi(out)
        ctx.case(("pauliop", n, row.tobytes(), v.tobytes()))
        if model.shape != real.shape or not np.allclose(model, real, atol=TOL) or not np.allclose(row_matrix(n, row) @ v, real, atol=TOL):
            bad += 1
            ctx.fail("generators:row-operator", f"operator of the tableau row {row.tolist()} (n={n}) differs from the signed Pauli string (-1)^r kron sigma(x_k, z_k)",
                     HEAD + f"T = np.zeros(({2 * n + 1}, {2 * n + 1}), dtype=np.uint8)\nT[0] = {row.tolist()}\n"
                     "gens, phases = CliffordBackend('numpy').symplectic_matrix_to_generators(T, return_array=True)\n"
                     f"v = np.array({[complex(z) for z in v]!r})\nexpected = np.array({[complex(z) for z in model]!r})\n"
                     "assert np.allclose(phases[0] * np.asarray(gens[0]) @ v, expected, atol=1e-9)\n",
                     expected=str(model.tolist()), observed=str(real.tolist()), broken=["C12_corr_pauliop"])
    ctx.ob("C12_corr_pauliop", bad == 0, "correspondence", f"{bad} disagreements of {len(lines)}" if bad else f"{len(lines)} rows")

def angle_aware_classes():
    """gate classes whose `clifford` flag depends on the parameter (found by probing the real
    classes: the flag differs between two parameter values), with their number of qubits."""
    infos = {k: v for k, v in qgates.gate_infos().items() if v.generic and v.np == 1}
    out = []
    for name, info in sorted(infos.items()):
        flags = set()
        for th in (0.0, math.pi / 2, math.pi, 2 * math.pi, 4 * math.pi, 0.3):
            try:
                flags.add(bool(info.make(list(range(info.nq)), [th]).clifford))
            except Exception:
                pass
        if len(flags) > 1 or name in ROT1 + ROT2 + ["GPI2"]:
            out.append((name, info))
    return out


def controlled_rotation_search(ctx):
    """angle-aware flags under `controlled_by`: for 1, 2, 3 extra controls and every angle
    k*pi/2, |k| <= 16 (all multiples of 2*pi and 4*pi included) (i) the flag agrees with the
    numeric Clifford test of the full controlled operator, (ii) whenever the flag is True the
    Clifford backend either raises or returns the state-vector result on an input on which the
    controls matter (H on every qubit first)."""
    from qibo import gates

    bad0 = len(ctx.failures)
    for name, info in angle_aware_classes():
        for nc in (1, 2, 3):
            n = info.nq + nc
            qs = list(range(nc, n))
            # controls below, above and around the gate's own qubits
            layouts = [(qs, list(range(nc)))]
            layouts.append((list(range(info.nq)), list(range(info.nq, n))))
            if info.nq == 2:
                layouts.append(([n - 1, 0], list(range(1, n - 1))))
            for k in range(-16, 17):
                for th in sorted({k * math.pi / 2, k * (math.pi / 2), float(np.float64(k) * np.float64(math.pi / 2))}):
                    for own, ctrls in layouts:
                        try:
                            base = info.make(own, [th])
                            g = base.controlled_by(*ctrls)
                            flag = bool(g.clifford)
                        except Exception:
                            ctx.stat("ctrl_rot_unconstructible")
                            continue
                        cname = g.__class__.__name__
                        src = f"gates.{name}({', '.join(map(str, own))}, {th!r}).controlled_by({', '.join(map(str, ctrls))})"
                        descr = f"{name}({own}, {th!r}).controlled_by{tuple(ctrls)}"
                        U = qgates.gate_full_matrix(g, n)
                        truth = is_clifford_matrix(U)
                        ctx.case(("ctrl-rot-flag", name, nc, k, tuple(own)))
                        ctx.stat("ctrl_rot_cases")
                        generic = g.is_controlled_by  # else: fell back to a class of its own (CRX, ...), swept elsewhere
                        key_cls = f"{name}.controlled_by" if generic else cname
                        if flag and not truth:
                            okey = f"flag-overreport:{key_cls}"
                            if not generic and cname in ROT2:
                                quot = th / (math.pi / 2)
                                okey = f"flag-overreport:{cname}" if round(quot) % 2 == 1 else f"flag-overreport-angle:{cname}"
                            ctx.fail(okey, f"{descr}.clifford is True but the controlled operator does not map Paulis to Paulis",
                                     HEAD + f"g = {src}\nassert not g.clifford, 'flag True for a non-Clifford operator'\n",
                                     expected=False, observed=True, broken=["C12_search_ctrl_rot"])
                        if flag:
                            # acceptance must not mis-simulate: controls in superposition, target off-axis
                            pre = [gates.H(q) for q in range(n)] + [gates.S(own[-1])]
                            gs = pre + [g]
                            be = cliff_backend()
                            try:
                                r = be.execute_circuit(build(n, regen(gs)))
                            except Exception as e:
                                ctx.stat(f"ctrl_rot_refused_{type(e).__name__}")
                                continue
                            psi = sv_state(n, gs)
                            try:
                                rho = np.asarray(r.state())
                                ok = rho.shape == (2**n, 2**n) and np.allclose(rho, np.outer(psi, psi.conj()), atol=TOL)
                            except Exception:
                                ok = False
                            ctx.stat("ctrl_rot_accepted")
                            if not ok:
                                skey = f"state:{key_cls}"
                                ctx.fail(skey, f"accepted circuit {[gate_src(x) for x in pre]} + {descr}: stabiliser state differs from the state-vector result (controls ignored?)",
                                         HEAD + f"c = Circuit({n})\nfor g in [{', '.join(gate_src(x) for x in pre)}, {src}]:\n    c.add(g)\n"
                                         "try:\n    r = CliffordBackend('numpy').execute_circuit(c)\nexcept Exception:\n    raise SystemExit(0)\n"
                                         "sv = NumpyBackend().execute_circuit(c).state()\nassert np.allclose(r.state(), np.outer(sv, sv.conj()), atol=1e-9), 'accepted but wrong state'\n",
                                         expected="refusal or |psi><psi|", observed="different state", broken=["C12_search_ctrl_rot"])
    ctx.ob("C12_search_ctrl_rot", len(ctx.failures) == bad0, "search", "")


def run(ctx):
    MODULES, THEOREMS = registry(PROP)
    ctx.theorems = THEOREMS
    build_and_audit(ctx, PROP, list(MODULES) + ["QV.Model.Table"], THEOREMS)
    matrix_correspondence(ctx)
    statevector_correspondence(ctx)
    gate_correspondence(ctx)
    measure_correspondence(ctx)
    flag_search(ctx)
    controlled_rotation_search(ctx)
    state_search(ctx)
    sampling_search(ctx)
    collapse_search(ctx)
    refusal_search(ctx)
    stim_search(ctx)
    to_circuit_search(ctx)
    import sys

    from props import C12_synth

    C12_synth.run_suites(ctx, sys.modules[__name__])
    ctx.notes.append("tableau correspondence: every operation of _clifford_operations.py through CliffordBackend.execute_circuit(initial_state=T) on tableaux enumerating all local Pauli patterns, every placement n<=3 (sampled n=4,5), angles k*pi/2 (k*pi) |k|<=40, multi-step histories compared after every gate, measurement via sample_shots with the random outcomes fed to the model as coins, gate matrices vs gate.matrix(), state vector of the simulator model (Gate.mgate / runSV over Z[i]) vs the real state-vector backend with every model stabiliser row (operator pauliOp evaluated in Lean, and as numpy matrix) fixing it, pauliOp vs symplectic_matrix_to_generators; "
                     "search: flag vs numeric Clifford test for every gate class (controlled_by versions, parameter sweeps, parameter updates; angle-aware classes with 1-3 controlled_by controls at k*pi/2 |k|<=16: flag vs full controlled operator and accepted => state-vector result), accepted circuits vs state vector (n<=5, depth<=30, initial_state, random_clifford), Born support of samples / frequencies / registers, exhaustive 2-qubit circuits, mid-circuit collapse histories, refusal of every non-Clifford class, stim engine, to_circuit AG04/BM20, copies and string forms; "
                     "synthesis: the Lean transliteration of to_circuit('AG04') (helpers, phase loop, 1-qubit case, invert) returns the SAME gate list as the real code on all 1-qubit tableaux, all circuits up to length 2-3 over H/S/X/CNOT/CZ/SWAP for n=2,3, random circuits, random_clifford and sparse circuits up to n=8, and on the 2-qubit Clifford group (11520 tableaux; sampled in the quick tier), each real result re-executed (same tableau, same state up to phase, object untouched, second call equal); the transliteration of to_circuit('BM20') (cost functions, cost-reduction search, local part) against the real gate list on every tableau with n <= 3 and on the same group, ValueError for n = 4; "
                     "acceptance: the Lean model of execute_circuit (flags, refusal, engine dispatch, M with/without collapse, PauliNoiseChannel, initial_state) against the real backend on circuits mixing flagged/unflagged gates, rotations at boundary angles (pi/2 +- 1e-13 .. 1e-8), controlled rotations at odd multiples of pi/2, user-flagged Unitary: RuntimeError / other exception / tableau and collapse outcomes must coincide")
    ctx.assumptions.append("theorems: local conjugation U P = +-P' U for every operation and every local Pauli (complete: finite domain), row locality, symplectic invariance / tableau invariant for all n and all circuits, rowsum phase arithmetic; "
                           "assembled for every n: U_g P(w) = P(g.act w) U_g as operators on state vectors of the simulator model (T12_conjugation_all_qubits), lifted to circuits (rows of the tableau = conjugates of the initial rows; every stabiliser row fixes the state vector: T12_stabilizer_state); "
                           "measurement: rowsum = operator product, the determined outcome has Born probability 1 (T12_determined_outcome_born), in the random branch both outcomes have non-zero probability (T12_random_outcome_both_possible); the tableau written by _random_outcome describes the collapsed state (invariant, non-degeneracy, stabilisers fix the projected state: T12_random_outcome_keeps_invariants), hence for every circuit, every list of measured qubits and all coins the returned outcome string has non-zero Born probability (T12_measurement_sequence_born); "
                           "tableau -> circuit: the transliterated AG04 synthesis keeps 'working tableau = original conjugated by the recorded gates', finishes rows j, n+j as X_j, Z_j stage by stage, clears all signs, and the returned (inverted) circuit executed from |0..0> gives back every row of every valid tableau, so its state vector is fixed by the tableau's stabilisers (T12_to_circuit_reproduces_tableau / _state / _round_trip; n = 1 via the 24 one-qubit tableaux); BM20 (transliterated _cnot_cost2/_cnot_cost3/_reduce_cost): whenever it returns, the circuit reproduces the tableau (T12_bm20_reproduces_tableau: recorded gates = applied gates, cost 0 => rows q, n+q live on qubit q, local part rebuilds them); two circuits with the same tableau have proportional state vectors on the register labels (T12_same_tableau_same_state), hence both algorithms reproduce the state up to a non-zero scalar (T12_to_circuit_same_state, T12_bm20_same_state); "
                           "refusal: execute refuses exactly when a gate other than M / PauliNoiseChannel has clifford == False, and an accepted circuit is the fold runGates of its operations from zero_state or the initial state (T12_refused_iff, T12_accepted_run_is_fold, T12_accepted_agrees_with_statevector, collapse = measure on sorted qubits); "
                           "NOT proved in Lean: Gaussian-integer gate matrices equal the documented ones up to positive/unit scalars (compared on every run), the float angle dispatch / clifford flag (sweeps), repeated execution / frequencies / registers API around M (correspondence and search), that BM20's cost-reduction search always finds a reducing candidate (BM20Total: exactness of the cost functions; compared with the real code on every run, exhaustively for n = 2 in the thorough tier; a kernel decision over the 92,897,280 three-qubit tableaux is infeasible); stim is a third-party engine (search only)")
    ctx.trusted.append("numpy kron / matrix products as the meaning of Pauli strings and of U P U^dagger in the numeric Clifford test (tolerance 1e-9)")
