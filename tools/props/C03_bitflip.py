"""C03 (second deepening) — bit-flip readout noise, results holding frequencies only, and gates
whose parameters are expressions in measurement symbols.

Tie between the Lean models (lean/QV/Model/Bitflip.lean; `QOp.pgate` of lean/QV/Model/Repeated.lean;
driven through lean/DriverC03.lean: BFMAP / BFVIEWS / BFAPPLY / BINKEY / VIEWS init=2 / REP with `P`
items) and the real qibo code with every random primitive an input: `sample_shots` (OracleBackend),
`np.random.shuffle` (FixedShuffle) and `np.random.random` (FixedRandom, the uniform numbers of
`backend.apply_bitflips`) are replaced from the harness side.  Probabilities and uniform numbers
are multiples of 1/64 (exact in floating point), so that the comparison `u < p` is hit at equality.

Suites (all hooked into tools/props/C03.py::run)
  bfmap      gates.M(*targets, collapse, p0, p1): both maps / the exception class, every ordered target
             list n<=3, every pair of forms (None, float, np.float64, int, list, tuple, dict with int /
             str / partial / foreign keys, wrong length, out of range, array, str)
  bfviews    MeasurementOutcomes / CircuitResult accessors with noise on every layout n<=3 (all ordered
             measured subsets x register partitions) x forms x accessor histories; frequencies-only and
             samples-given states with noisy gates; probabilities(qs) under noise
  bfapply    result.apply_bitflips(p0, p1) (+ result.samples() unchanged afterwards)
  bfrep      noisy terminal measurements in a shot-by-shot execution (one apply_bitflips per shot)
  freqonly   results with `_frequencies` given only; frequencies_to_binary keys
  symbols    execute_circuit_repeated with gates whose parameters are integer polynomials in several
             measurement symbols (RX/RY/RZ/U3/CRX), executed twice
  search     (a) M.on_qubits / Circuit.on_qubits / StarConnectivityRouter keep every qubit's flip
             probabilities (key bitflip:on_qubits:*); (b) unpatched seeded sampler: marginals of the
             reported bits against the Born marginal pushed through the channel (binomial tail 1e-9),
             exact p in {0,1}, consistency of samples / frequencies / registers / probabilities
"""
from __future__ import annotations

import itertools

import numpy as np

from vlib.driver import gi_tokens, run_driver

DRIVER = "DriverC03.lean"
DEN = 64

BF_SRC = r'''
DEN = 64


class FixedRandom:
    """np.random.random := arrays supplied by fn(shape) (numerators over DEN), logged."""

    def __init__(self, fn):
        self.fn = fn
        self.calls = []

    def __enter__(self):
        self.old = np.random.random
        np.random.random = self.rand
        return self

    def __exit__(self, *a):
        np.random.random = self.old

    def rand(self, size=None):
        shape = () if size is None else (int(size),) if isinstance(size, (int, np.integer)) else tuple(int(x) for x in size)
        num = np.asarray(self.fn(shape), dtype=np.int64).reshape(shape)
        self.calls.append(num.copy())
        return num.astype(float) / DEN


class TapeU:
    """replays recorded uniform numerators (missing ones: DEN - 1, i.e. no flip unless p = 1)."""

    def __init__(self, arrays):
        self.arrays = [np.asarray(a) for a in arrays]
        self.i = 0

    def __call__(self, shape):
        a = self.arrays[self.i] if self.i < len(self.arrays) else None
        self.i += 1
        if a is None or tuple(a.shape) != tuple(shape):
            return np.full(shape, DEN - 1)
        return a


def mk_form(f):
    """form descriptor -> the python object given as p0 / p1."""
    k = f[0]
    if k == "N":
        return None
    if k == "S":
        return f[1] / DEN
    if k == "Snp":
        return np.float64(f[1] / DEN)
    if k == "I":
        return int(f[1])
    if k == "L":
        return [a / DEN for a in f[1]]
    if k == "T":
        return tuple(a / DEN for a in f[1])
    if k == "D":
        return {(str(q) if s else q): a / DEN for q, a, s in f[1]}
    if k == "A":
        return np.array([a / DEN for a in f[1]])
    return "a"


def doc_tuple(targets, f):
    """SPEC (documentation of gates.M): numerators of the flip probabilities of the targets, in
    the order of the targets; raises the documented exception class name as ValueError text."""
    k = f[0]
    if k in ("S", "Snp"):
        if f[1] < 0 or f[1] > DEN:
            raise LookupError("ValueError")
        return [f[1]] * len(targets)
    if k in ("L", "T"):
        if len(f[1]) != len(targets):
            raise LookupError("ValueError")
        return list(f[1])
    if k == "D":
        d = {}
        for q, a, s in f[1]:
            d[int(q)] = a
        if set(d) - set(targets):
            raise LookupError("KeyError")
        return [d.get(q, 0) for q in targets]
    raise LookupError("TypeError")


def doc_maps(targets, collapse, f0, f1):
    """SPEC: (p 0->1, p 1->0) per target, or raises LookupError(<exception class>)."""
    if collapse and (f0[0] != "N" or f1[0] != "N"):
        raise LookupError("NotImplementedError")
    if f1[0] == "N":
        f1 = f0
    if f0[0] == "N":
        f0 = f1
    if f0[0] == "N":
        return [0] * len(targets), [0] * len(targets)
    return doc_tuple(targets, f0), doc_tuple(targets, f1)


def num(x):
    v = float(x) * DEN
    if abs(v - round(v)) > 1e-9:
        raise ValueError("probability %r is not a multiple of 1/%d" % (x, DEN))
    return int(round(v))


def observe_m(targets, collapse, f0, f1):
    """real gates.M: 'ERR <class>' or 'q:a ... | q:a ... | has_noise'."""
    try:
        g = gates.M(*targets, collapse=collapse, p0=mk_form(f0), p1=mk_form(f1))
    except (ValueError, KeyError, TypeError, NotImplementedError) as e:
        return "ERR " + type(e).__name__
    m0, m1 = g.bitflip_map
    return "%s | %s | %d" % (" ".join("%d:%d" % (q, num(p)) for q, p in m0.items()),
                             " ".join("%d:%d" % (q, num(p)) for q, p in m1.items()), int(bool(g.has_bitflip_noise())))


def spec_m(targets, collapse, f0, f1):
    try:
        a, b = doc_maps(list(targets), collapse, f0, f1)
    except LookupError as e:
        return "ERR " + str(e.args[0])
    return "%s | %s | %d" % (" ".join("%d:%d" % (q, p) for q, p in zip(targets, a)),
                             " ".join("%d:%d" % (q, p) for q, p in zip(targets, b)), int(sum(a) > 0 or sum(b) > 0))


def flip_rows(rows, p0, p1, u):
    """SPEC of the flips: 0 -> 1 iff u < p0, 1 -> 0 iff u < p1 (numerators)."""
    out = []
    for r, ur in zip(rows, u):
        out.append([(1 if x < a else 0) if b == 0 else (0 if x < c else 1) for b, a, c, x in zip(r, p0, p1, ur)])
    return out


def bits_of(T, k):
    return [[(s >> (k - 1 - j)) & 1 for j in range(k)] for s in T]


def dec_of(rows):
    return [int("".join(str(int(b)) for b in r), 2) if len(r) else 0 for r in rows]


def run_bf_views(n, regs, forms, psi, nshots, ops, chooser, permfn, ufn, dm=False, mode="fresh", given=None):
    """circuit measuring `regs` (one noisy M per register); accessor history on
    mode 'fresh': the CircuitResult of an execution; 'freq': MeasurementOutcomes with `_frequencies`
    = given (dense list) only; 'samples': MeasurementOutcomes(samples=given rows).
    Returns (header, canonical answers, sampler calls, shuffles, uniform arrays)."""
    from qibo.result import MeasurementOutcomes

    backend = OracleBackend(chooser)
    c = Circuit(n, density_matrix=dm)
    handles = []
    for reg, (f0, f1) in zip(regs, forms):
        handles.append(c.add(gates.M(*reg, p0=mk_form(f0), p1=mk_form(f1))))
    names = [m.register_name for m in c.measurements]
    flat = [q for r in regs for q in r]
    state = np.asarray(psi, dtype=complex)
    if dm:
        state = np.outer(state, state.conj())
    outs = []
    with FixedShuffle(permfn) as fs, FixedRandom(ufn) as fr:
        if mode == "fresh":
            result = backend.execute_circuit(c, initial_state=state.copy(), nshots=nshots)
        elif mode == "freq":
            result = MeasurementOutcomes(c.measurements, backend=backend, nshots=nshots)
            result._frequencies = collections.Counter({i: v for i, v in enumerate(given) if v > 0})
        else:
            result = MeasurementOutcomes(c.measurements, backend=backend, samples=np.array(given, dtype=np.int64), nshots=nshots)
        mg = result.measurement_gate
        glob = list(mg.target_qubits)
        header = "%s ; %s ; %s ; %d" % (_s(glob), _s([num(mg.bitflip_map[0].get(q)) for q in glob]),
                                       _s([num(mg.bitflip_map[1].get(q)) for q in glob]), int(bool(mg.has_bitflip_noise())))
        for op in ops:
            out = call_op(op, result, handles)
            if op[0] == "probs":
                outs.append(canon_counts(out, nshots, len(op[1])))
            else:
                outs.append(canon(op, out, regs, names, nshots))
        final_rows = [[int(b) for b in r] for r in np.asarray(result.samples())]
    return header, outs, backend.calls, fs.perms, [a.tolist() for a in fr.calls], final_rows


def spec_bf_views(regs, forms, clean, u, ops, noisy_expected=True):
    """python SPEC: documented per-qubit probabilities, flips on the clean table, then every
    accessor as a view of the noisy table."""
    flat = [q for r in regs for q in r]
    k = len(flat)
    p0, p1 = [], []
    for reg, (f0, f1) in zip(regs, forms):
        a, b = doc_maps(list(reg), False, f0, f1)
        p0 += a
        p1 += b
    on = sum(p0) > 0 or sum(p1) > 0
    rows = bits_of(clean, k)
    if on and noisy_expected:
        rows = flip_rows(rows, p0, p1, u)
    T = dec_of(rows)
    base = spec_views(regs, T, ops)
    outs = [_s(empirical_counts(rows, flat, op[1])) if op[0] == "probs" else b for op, b in zip(ops, base)]
    header = "%s ; %s ; %s ; %d" % (_s(flat), _s(p0), _s(p1), int(on))
    return header, outs, rows


def clean_table(mode, ops, calls, perms, given, noisy=False):
    """the clean decimal table behind a result, from the draws that were actually made (with
    active noise the samples are always drawn with sample_shots first)."""
    if mode == "fresh" and noisy:
        return list(calls[0]) if calls else []
    if mode == "samples":
        return dec_of(given)
    if mode == "freq":
        allv = [i for i, v in enumerate(given) for _ in range(v)]
        return [allv[i] for i in perms[0]] if perms else allv
    return table_from_draws(ops, calls, perms)


def sym_expr(coeffs, syms):
    """integer polynomial a0 + sum_S a_S prod_{i in S} s_i  (coeffs: dict frozenset/tuple -> int)."""
    e = 0
    for S, a in coeffs:
        t = a
        for i in S:
            t = t * syms[i]
        e = e + t
    return e


def eval_expr(coeffs, vals):
    v = 0
    for S, a in coeffs:
        t = a
        for i in S:
            t *= vals[i]
        v += t
    return v


def sym_gate(cls, qs, params):
    g = getattr(gates, cls)
    if cls == "U3":
        return g(qs[0], theta=params[0], phi=params[1], lam=params[2])
    if cls == "U2":
        return g(qs[0], phi=params[0], lam=params[1])
    if cls == "U1q":
        return g(qs[0], theta=params[0], phi=params[1])
    if cls == "CU3":
        return g(qs[0], qs[1], theta=params[0], phi=params[1], lam=params[2])
    if cls == "CU2":
        return g(qs[0], qs[1], phi=params[0], lam=params[1])
    if cls == "fSim":
        return g(qs[0], qs[1], theta=params[0], phi=params[1])
    if cls == "GeneralizedfSim":
        return g(qs[0], qs[1], unitary=np.array([[0.6, 0.8], [-0.8, 0.6]], dtype=complex), phi=params[0])
    if cls == "CRX":
        return g(qs[0], qs[1], theta=params[0])
    return g(qs[0], theta=params[0])


def plan_status2(plan):
    """which measurements of a plan end up collapsing (SPEC of Circuit.add); P items touch it[2]."""
    touched = [set(it[2]) if it[0] in ("G", "P") else None for it in plan]
    out = []
    for i, it in enumerate(plan):
        if it[0] == "M":
            later = set()
            for g in touched[i + 1:]:
                if g:
                    later |= g
            out.append(bool(it[2]) or bool(set(it[1]) & later))
    return out


def run_repeated_sym(n, dm, plan, psi, nshots, choosers, fuse=False, scale=None):
    """plan items: ("G", matrix, qubits) | ("M", targets, collapse) | ("P", cls, qubits, uses, exprs):
    a gate of class cls whose parameter i is pi * exprs[i](symbols uses).  Executes the circuit once
    per chooser (same circuit object); reports, per execution, rows | per-M samples | frequencies."""
    c = Circuit(n, density_matrix=dm)
    handles = []
    for it in plan:
        if it[0] == "G":
            c.add(gates.Unitary(np.array(it[1], dtype=complex), *it[2], check_unitary=False))
        elif it[0] == "M":
            handles.append(c.add(gates.M(*it[1], collapse=True) if it[2] else gates.M(*it[1])))
        else:
            syms = [handles[m].symbols[j] for m, j in it[3]]
            c.add(sym_gate(it[1], it[2], [np.pi * (scale or 1) * sym_expr(e, syms) for e in it[4]]))
    status = plan_status2(plan)
    mts = [it[1] for it in plan if it[0] == "M"]
    fq = [q for ts, st in zip(mts, status) if not st for q in ts]
    if fuse:
        # the fused circuit keeps the measurement gates: it must be simulated exactly like the original
        c = c.fuse(max_qubits=2)
    psi = np.asarray(psi, dtype=complex)
    init = np.outer(psi, psi.conj()) / np.vdot(psi, psi).real if dm else psi / np.linalg.norm(psi)

    def bits(row):
        return "".join(str(int(b)) for b in np.asarray(row).reshape(-1))

    reports, backends = [], []
    for ch in choosers:
        be = OracleBackend(ch)
        backends.append(be)
        res = be.execute_circuit(c, initial_state=init.copy(), nshots=nshots)
        if fq:
            rows = np.asarray(res.samples())
            if rows.shape != (nshots, len(fq)):
                reports.append("malformed: samples shape %r" % (rows.shape,))
                continue
            rows_s = " ".join(bits(r) for r in rows)
            fr = _s(_dense(res.frequencies(binary=False), len(fq), False))
        else:
            rows_s, fr = "-", "0"
        caches = []
        for h_, ts in zip(handles, mts):
            a = [bits(r) for r in h_.samples()]
            caches.append(",".join(a) if a else "e")
        reports.append("%s | %s | %s" % (rows_s, " ".join(caches), fr))
    return reports, backends


def spec_sym_shot(n, dm, plan, status, init, draws, scale=None):
    """numpy SPEC of ONE shot given its draws (one per collapsing M over the sorted targets, then
    the terminal one): the recorded rows and the state; a P gate is built from the bits THIS shot
    recorded.  Returns (per-M recorded row or None, final state)."""
    d = 2 ** n
    st = np.array(init, dtype=complex)
    recs, mi, di = [], 0, 0
    for it in plan:
        if it[0] == "G":
            U = _full(n, it[1], it[2])
        elif it[0] == "M":
            if not status[mi]:
                recs.append(None)
                mi += 1
                continue
            srt = sorted(it[1])
            shot = draws[di]
            di += 1
            b_sorted = {q: (shot >> (len(srt) - 1 - j)) & 1 for j, q in enumerate(srt)}
            recs.append([b_sorted[q] for q in it[1]])
            mi += 1
            U = np.diag([1.0 if all(((x >> (n - 1 - q)) & 1) == b_sorted[q] for q in srt) else 0.0 for x in range(d)])
        else:
            vals = [recs[m][j] for m, j in it[3]]
            g = sym_gate(it[1], it[2], [np.pi * (scale or 1) * eval_expr(e, vals) for e in it[4]])
            U = _full(n, np.asarray(g.matrix(NumpyBackend())), list(it[2]))
        st = U @ st @ U.conj().T if dm else U @ st
    return recs, st


def check_sym_execution(n, dm, plan, psi, nshots, chooser, fuse=False, scale=None):
    """PROPERTY (collapse followed by classical use): in every shot the probabilities handed to the
    sampler at every draw are the Born marginals of the state obtained by projecting on THIS shot's
    recorded outcomes and applying the gates those outcomes prescribe; the collapse handles hold one
    row per shot.  Independent numpy SPEC, arbitrary angles."""
    reports, bes = run_repeated_sym(n, dm, plan, psi, nshots, [chooser], fuse=fuse, scale=scale)
    be, rep = bes[0], reports[0]
    if rep.startswith("malformed"):
        return rep
    status = plan_status2(plan)
    psi = np.asarray(psi, dtype=complex)
    init = np.outer(psi, psi.conj()) / np.vdot(psi, psi).real if dm else psi / np.linalg.norm(psi)
    need = sum(status) + (0 if all(status) else 1)
    if len(be.calls) != nshots * need:
        return "%d sampler calls for %d shots of a circuit that draws %d times per shot (collapsing measurements + terminal sample)" % (len(be.calls), nshots, need)
    flat = [x for c_ in be.calls for x in c_]
    caches = rep.split("|")[1].split()
    mlist = [it for it in plan if it[0] == "M"]
    for mi, (it, st) in enumerate(zip(mlist, status)):
        if st and len(caches[mi].split(",")) != nshots:
            return "collapsing M%r holds %d recorded rows after %d shots" % (tuple(it[1]), len(caches[mi].split(",")), nshots)
    for s in range(nshots):
        draws = flat[s * need:(s + 1) * need]
        recs, st = spec_sym_shot(n, dm, plan, status, init, draws, scale=scale)
        for mi, r in enumerate(recs):
            if r is not None and caches[mi].split(",")[s] != "".join(map(str, r)):
                return "shot %d: M #%d recorded %s, its draw gives %r" % (s, mi, caches[mi].split(",")[s], r)
        # every collapse draw of this shot: marginal of the state before that measurement
        di = 0
        for upto, it in enumerate(plan):
            if it[0] == "M" and status[sum(1 for x in plan[:upto] if x[0] == "M")]:
                pre_status = status
                _, stp = spec_sym_shot(n, dm, plan[:upto], plan_status_prefix(plan, upto, status), init, draws[:di], scale=scale)
                p = born_np(stp, n, sorted(it[1]))
                asked = np.asarray(be.asked[s * need + di], dtype=float)
                if p.shape != asked.shape or p.sum() <= 0 or not np.allclose(p / p.sum(), asked / asked.sum(), atol=1e-8):
                    return "shot %d, collapsing M%r: the sampler was given %r; this shot's outcomes so far prescribe %r" % (s, tuple(it[1]), (asked / asked.sum()).round(6).tolist(), (p / max(p.sum(), 1e-300)).round(6).tolist())
                di += 1
        if not all(status):
            fq = [q for it, stt in zip(mlist, status) if not stt for q in it[1]]
            p = born_np(st, n, fq)
            asked = np.asarray(be.asked[s * need + need - 1], dtype=float)
            if p.shape != asked.shape or not np.allclose(p / p.sum(), asked / asked.sum(), atol=1e-8):
                return "shot %d, terminal measurement of %r: the sampler was given %r; this shot's recorded outcomes prescribe %r" % (s, tuple(fq), (asked / asked.sum()).round(6).tolist(), (p / p.sum()).round(6).tolist())
    return None


def plan_status_prefix(plan, upto, status):
    """status list restricted to the measurements of plan[:upto] (they are all collapsing there or skipped)."""
    k = sum(1 for x in plan[:upto] if x[0] == "M")
    return list(status[:k])


def check_on_qubits(targets, f0, f1, new):
    """PROPERTY: moving a measurement to other qubits keeps every qubit's flip probabilities:
    the gate on new[j] (for targets[j]) maps new[j] to what targets[j] had.  Through M.on_qubits and
    Circuit.on_qubits.  Returns None or a description."""
    g = gates.M(*targets, p0=mk_form(f0), p1=mk_form(f1))
    want = [{nq: g.bitflip_map[i][q] for q, nq in zip(targets, new)} for i in (0, 1)]
    try:
        h = g.on_qubits(dict(zip(targets, new)))
    except Exception as e:
        return "M%r.on_qubits raised %s: %s" % (tuple(targets), type(e).__name__, e)
    if tuple(h.target_qubits) != tuple(new) or [dict(m) for m in h.bitflip_map] != want:
        return "M%r.on_qubits -> M%r has bitflip maps %r, expected %r" % (tuple(targets), tuple(h.target_qubits), [dict(m) for m in h.bitflip_map], want)
    n = max(list(targets) + list(new)) + 1
    small = Circuit(n)
    small.add(gates.M(*targets, p0=mk_form(f0), p1=mk_form(f1)))
    big = Circuit(n)
    perm = list(new) + [q for q in range(n) if q not in new]
    src = list(targets) + [q for q in range(n) if q not in targets]
    wires = [0] * n
    for s_, d_ in zip(src, perm):
        wires[s_] = d_
    try:
        big.add(small.on_qubits(*wires))
    except Exception as e:
        return "Circuit.on_qubits%r raised %s: %s" % (tuple(wires), type(e).__name__, e)
    m = big.queue[-1]
    if tuple(m.target_qubits) != tuple(new) or [dict(x) for x in m.bitflip_map] != want:
        return "Circuit.on_qubits%r -> M%r has bitflip maps %r, expected %r" % (tuple(wires), tuple(m.target_qubits), [dict(x) for x in m.bitflip_map], want)
    return None


def check_star_router(targets, f0, f1, seed):
    """PROPERTY: routing keeps every measured logical qubit's flip probabilities (star router
    rebuilds the final measurements on the physical qubits)."""
    import networkx as nx
    from qibo.transpiler.router import StarConnectivityRouter

    rng = np.random.default_rng(seed)
    c = Circuit(5)
    for _ in range(3):
        a, b = rng.choice(5, 2, replace=False)
        c.add(gates.CZ(int(a), int(b)))
    g = c.add(gates.M(*targets, p0=mk_form(f0), p1=mk_form(f1)))
    orig = c.queue[-1]
    conn = nx.Graph()
    conn.add_edges_from([(2, i) for i in (0, 1, 3, 4)])
    try:
        routed, layout = StarConnectivityRouter(conn)(c)
    except Exception as e:
        return "StarConnectivityRouter raised %s: %s" % (type(e).__name__, e)
    m = [x for x in routed.queue if isinstance(x, gates.M)][-1]
    phys = list(m.target_qubits)
    for i in (0, 1):
        got = [m.bitflip_map[i][p] for p in phys]
        want = [orig.bitflip_map[i][q] for q in targets]
        if got != want:
            return "after routing the measurement of logical %r sits on physical %r with flip probabilities %r, expected %r" % (tuple(targets), tuple(phys), got, want)
    return None


def check_noisy_sampler(n, regs, forms, psi, dm, nshots, seed, first):
    """unpatched seeded RNG: consistency of all views of the noisy result, exact behaviour for
    p in {0, 1}, and the marginal of every reported bit against the Born marginal pushed through
    the channel [[1-p0, p0], [p1, 1-p1]] (exact binomial tail below 1e-9)."""
    nb = NumpyBackend()
    flat = [q for r in regs for q in r]
    k = len(flat)
    psi = np.asarray(psi, dtype=complex)
    c = Circuit(n, density_matrix=dm)
    p0, p1 = [], []
    for r, (f0, f1) in zip(regs, forms):
        c.add(gates.M(*r, p0=mk_form(f0), p1=mk_form(f1)))
        a, b = doc_maps(list(r), False, f0, f1)
        p0 += [x / DEN for x in a]
        p1 += [x / DEN for x in b]
    nb.set_seed(seed)
    res = nb.execute_circuit(c, initial_state=(np.outer(psi, psi.conj()) if dm else psi.copy()), nshots=nshots)
    if first == "freqs":
        f0_ = dict(res.frequencies(binary=False))
    elif first == "probs":
        pr0 = np.asarray(res.probabilities(flat), dtype=float)
    rows = np.asarray(res.samples())
    if rows.shape != (nshots, k) or set(np.unique(rows).tolist()) - {0, 1}:
        return "samples malformed: shape %r values %r" % (rows.shape, np.unique(rows).tolist()[:4])
    dec = [int(x) for x in res.samples(binary=False)]
    if [int("".join(str(int(b)) for b in r), 2) for r in rows] != dec:
        return "decimal samples are not the binary rows read big-endian"
    fr = res.frequencies(binary=False)
    if sum(fr.values()) != nshots or dict(fr) != dict(collections.Counter(dec)):
        return "frequencies are not the histogram of the (noisy) samples"
    if first == "freqs" and f0_ != dict(fr):
        return "frequencies reported before the samples differ from the histogram of the samples"
    if {int(key, 2): v for key, v in res.frequencies(binary=True).items()} != dict(fr):
        return "binary-key frequencies differ from decimal-key frequencies"
    sr = res.samples(registers=True)
    frr = res.frequencies(binary=False, registers=True)
    pos = 0
    for i, r in enumerate(regs):
        nm = "register%d" % i
        cols = rows[:, pos:pos + len(r)]
        pos += len(r)
        if not np.array_equal(np.asarray(sr[nm]), cols):
            return "register %s samples are not the register's columns of the global samples" % nm
        if dict(frr[nm]) != dict(collections.Counter(int("".join(str(int(b)) for b in row), 2) for row in cols)):
            return "register %s frequencies are not the histogram of its samples" % nm
    emp = np.zeros(2 ** k)
    for d_ in dec:
        emp[d_] += 1.0 / nshots
    pr = np.asarray(res.probabilities(flat), dtype=float)
    noisy = any(x > 0 for x in p0 + p1)
    if noisy and not np.allclose(pr, emp, atol=1e-9):
        return "probabilities() of a noisy result are not frequencies / nshots"
    if first == "probs" and not np.allclose(pr0, pr, atol=1e-9):
        return "probabilities() changed between two calls"
    marg = born_np(psi, n, flat)
    marg = marg / marg.sum()
    for j in range(k):
        q1 = sum(marg[x] for x in range(2 ** k) if (x >> (k - 1 - j)) & 1)
        want = (1 - q1) * p0[j] + q1 * (1 - p1[j])
        ones = int(rows[:, j].sum())
        tail = binom_two_sided(nshots, min(max(want, 0.0), 1.0), ones)
        if tail < 1e-9:
            return "qubit %d (column %d): %d ones in %d shots; the Born marginal through the channel gives probability %.4f per shot (binomial tail %.1e)" % (
                flat[j], j, ones, nshots, want, tail)
    return None


def binom_two_sided(n, p, k):
    """exact min(P(X <= k), P(X >= k)) for X ~ Binomial(n, p)."""
    import math

    if p <= 1e-15:
        return 1.0 if k == 0 else 0.0
    if p >= 1 - 1e-15:
        return 1.0 if k == n else 0.0
    logs = [math.lgamma(n + 1) - math.lgamma(i + 1) - math.lgamma(n - i + 1) + i * math.log(p) + (n - i) * math.log(1 - p) for i in range(n + 1)]
    pm = [math.exp(x) for x in logs]
    return min(sum(pm[: k + 1]), sum(pm[k:]))
'''


def _base():
    from props import C03 as base

    return base


def header_src():
    return _base().HARNESS_SRC + "\n" + BF_SRC + "\n"


_NS = {}


def ns():
    if not _NS:
        exec(_base().HARNESS_SRC, _NS)
        exec(BF_SRC, _NS)
    return _NS


# ---------------------------------------------------------------------------
# forms


def form_tokens(f):
    k = f[0]
    if k == "N":
        return "N"
    if k in ("S", "Snp"):
        return f"S {f[1]}"
    if k in ("L", "T"):
        return f"L {len(f[1])} " + " ".join(str(a) for a in f[1]) if f[1] else "L 0"
    if k == "D":
        return f"D {len(f[1])} " + " ".join(f"{q} {a}" for q, a, _ in f[1]) if f[1] else "D 0"
    return "O"


def form_name(f):
    return {"N": "none", "S": "float", "Snp": "npfloat", "I": "int", "L": "list", "T": "tuple", "D": "dict", "A": "array", "X": "str"}[f[0]]


GRID = [0, 0, 8, 16, 32, 48, 64, 64]


def random_form(rng, targets, n, valid=True, allow_none=True):
    """a random form for a gate measuring `targets` (valid: constructor does not raise)."""
    k = len(targets)
    r = rng.random()
    if allow_none and r < 0.15:
        return ("N",)
    if r < 0.35:
        return (rng.choice(["S", "Snp"]), rng.choice(GRID))
    if r < 0.65:
        return (rng.choice(["L", "T"]), [rng.choice(GRID) for _ in range(k)])
    keys = [q for q in targets if rng.random() < 0.7]
    rng.shuffle(keys)
    items = [(q, rng.choice(GRID), rng.random() < 0.3) for q in keys]
    if items and rng.random() < 0.2:  # the same qubit as int and as str key: the later item wins
        q, a, s = items[0]
        items.append((q, rng.choice(GRID), not s))
    return ("D", items)


def invalid_forms(rng, targets, n):
    k = len(targets)
    out = [("I", 0), ("I", 1), ("S", 96), ("S", -16), ("A", [8] * k), ("X",),
           ("L", [8] * (k + 1)), ("T", [8] * max(k - 1, 0)), ("L", []),
           ("D", [(max(targets) + 1 + rng.randint(0, 2), 8, False)]),
           ("D", [(targets[0], 8, False), (n + 3, 16, True)])]
    return out


def u_chooser(rng, pnums):
    """uniform numerators, biased towards the thresholds (equality and neighbours)."""
    crit = sorted({x for p in pnums for x in (p - 1, p, p + 1) if 0 <= x < DEN} | {0, DEN - 1})

    def fn(shape):
        size = int(np.prod(shape)) if len(shape) else 1
        return np.array([rng.choice(crit) if rng.random() < 0.6 else rng.randrange(DEN) for _ in range(size)]).reshape(shape)

    return fn


# ---------------------------------------------------------------------------
# suite: gate construction


def bfmap_suite(ctx):
    base = _base()
    N = ns()
    rng = ctx.rng
    cases = []
    for n in range(1, 4):
        for ts in base.ordered_lists(n, allow_empty=False):
            forms = [("N",), ("S", 16), ("Snp", 64), ("S", 0), ("L", [rng.choice(GRID) for _ in ts]), ("T", [8 * (i + 1) for i in range(len(ts))]),
                     ("D", [(q, 8 + 8 * q, False) for q in reversed(ts)]), ("D", [(ts[-1], 24, True)]), ("D", []),
                     ("D", [(ts[0], 8, False), (ts[0], 40, True)]), ("L", [-16] + [8] * (len(ts) - 1)), ("L", [-16] * len(ts)),
                     ("T", [80] * len(ts))] + invalid_forms(rng, ts, n)
            pairs = [(a, ("N",)) for a in forms] + [(("N",), a) for a in forms[1:]]
            pairs += [(rng.choice(forms), rng.choice(forms)) for _ in range(10 if ctx.thorough else 4)]
            for f0, f1 in pairs:
                cases.append((ts, False, f0, f1))
            cases.append((ts, True, ("N",), ("N",)))
            cases.append((ts, True, rng.choice(forms[1:]), ("N",)))
            cases.append((ts, True, ("N",), rng.choice(forms[1:])))
    for _ in range(40 if ctx.thorough else 12):
        n = rng.randint(4, 6)
        ts = rng.sample(range(n), rng.randint(1, n))
        cases.append((ts, False, random_form(rng, ts, n), random_form(rng, ts, n)))
    lines = [f"BFMAP {base.nl(ts)} {int(col)} {form_tokens(f0)} {form_tokens(f1)}" for ts, col, f0, f1 in cases]
    mouts = run_driver(lines, driver=DRIVER)
    bad = 0
    for (ts, col, f0, f1), mout in zip(cases, mouts):
        ctx.case(("bfmap", tuple(ts), col, str(f0), str(f1)))
        ctx.stat(f"bfmap_{form_name(f0)}_{form_name(f1)}")
        model = " ".join(mout.split())
        try:
            real = " ".join(N["observe_m"](ts, col, f0, f1).split())
        except Exception as e:  # noqa
            real = f"raised {type(e).__name__}: {e}"
        spec = " ".join(N["spec_m"](ts, col, f0, f1).split())
        ctx.stat("bfmap_raises" if model.startswith("ERR") else "bfmap_ok")
        if len(ctx.samples) < 14 and rng.random() < 0.01:
            ctx.sample({"suite": "bfmap", "targets": ts, "p0": str(f0), "p1": str(f1), "observed": real})
        if real != model or spec != model:
            bad += 1
            py = (header_src() + f"obs = observe_m({ts!r}, {col}, {f0!r}, {f1!r})\nexp = spec_m({ts!r}, {col}, {f0!r}, {f1!r})\n"
                  "# maps 0->1 | 1->0 as qubit:numerator/64 in the order of the measured qubits | has_bitflip_noise, or the exception class\n"
                  "assert ' '.join(obs.split()) == ' '.join(exp.split()), (obs, exp)\n")
            ctx.fail(f"bitflip:map:{form_name(f0)}:{form_name(f1)}" + (":collapse" if col else ""),
                     f"gates.M{tuple(ts)} collapse={col} p0={N['mk_form'](f0)!r} p1={N['mk_form'](f1)!r}: bitflip maps / exception {real!r}, documented {spec!r}, model {model!r}",
                     py, expected=model, observed=real, broken=["C03_corr_bitflip_map"])
    ctx.ob("C03_corr_bitflip_map", bad == 0, "correspondence", f"{bad} disagreements" if bad else "")


# ---------------------------------------------------------------------------
# suite: accessor histories with noise


def bfviews_line(regs, forms, init, shots, batches, perm, u, k, ops):
    base = _base()
    lean_ops = [op for op in ops if op[0] != "probs"]
    rg = " ".join(f"{base.nl(r)} {form_tokens(f0)} {form_tokens(f1)}" for r, (f0, f1) in zip(regs, forms))
    urows = [list(r) for r in u]
    utoks = " ".join(str(int(x)) for r in urows for x in r)
    return (f"BFVIEWS {len(regs)} {rg} {init} {base.nl(shots)} {len(batches)} " + " ".join(base.nl(b) for b in batches)
            + f" {base.nl(perm)} {len(urows)} {utoks} {len(lean_ops)} " + " ".join(base.op_tokens(o) for o in lean_ops))


def bfviews_suite(ctx):
    base = _base()
    N = ns()
    rng = ctx.rng
    cases = []
    reps = 8 if ctx.thorough else 3
    for n in range(1, 4):
        for regs in base.layouts(n):
            ao = base.all_ops(len(regs))
            firsts = rng.sample(ao, min(len(ao), reps))
            for i in range(reps):
                forms = [(random_form(rng, r, n), random_form(rng, r, n)) for r in regs]
                if i == 0:  # make sure noise is on and asymmetric somewhere
                    forms[0] = (("L", [rng.choice([16, 32, 64]) for _ in regs[0]]), ("S", rng.choice([0, 8, 64])))
                ops = [firsts[i % len(firsts)]]
                for _ in range(rng.randint(0, 4)):
                    if rng.random() < 0.15:
                        flat = [q for r in regs for q in r]
                        ops.append(("probs", rng.sample(flat, rng.randint(1, len(flat)))))
                    else:
                        ops.append(rng.choice(ao))
                mode = "fresh" if rng.random() < 0.75 else rng.choice(["freq", "samples"])
                cases.append((n, regs, forms, ops, mode))
    for _ in range(60 if ctx.thorough else 15):
        n = rng.randint(4, 5)
        regs = rng.choice(base.layouts(4))
        if n == 5:
            regs = [[4 if q == regs[0][0] else q for q in r] for r in regs]
        forms = [(random_form(rng, r, n), random_form(rng, r, n)) for r in regs]
        ao = base.all_ops(len(regs))
        cases.append((n, regs, forms, [rng.choice(ao) for _ in range(rng.randint(1, 5))], "fresh"))
    runs = []
    for n, regs, forms, ops, mode in cases:
        flat = [q for r in regs for q in r]
        k = len(flat)
        psi = base.gi_state(rng, n, zeros=0.25)
        psi = psi / np.linalg.norm(psi)
        nshots = rng.randint(1, 9)
        dm = rng.random() < 0.2
        given = None
        if mode == "freq":
            T0 = [rng.randrange(2 ** k) for _ in range(nshots)]
            given = [T0.count(v) for v in range(2 ** k)]
            ops = [o for o in ops if o[0] != "probs"] or [("samples", True, False)]
            if any(f[0] != "N" for pair in forms for f in pair):
                # frequencies handed over from outside are reported as given, not recomputed from the
                # noisy samples: only the sample accessors are views of the flipped table
                ops = [o for o in ops if o[0] in ("samples", "rsamples")] or [("samples", True, False)]
            # per-gate accessors reach the result only through circuit.final_state: ask them after samples()
            seen = False
            fixed = []
            for o in ops:
                if o[0] in ("rsamples", "rfreqs") and not seen:
                    fixed.append(("samples", True, False))
                    seen = True
                if o[0] == "samples":
                    seen = True
                fixed.append(o)
            ops = fixed
        elif mode == "samples":
            given = [[rng.randint(0, 1) for _ in range(k)] for _ in range(nshots)]
            ops = [o for o in ops if o[0] != "probs"] or [("samples", True, False)]
        pn = []
        for r, (f0, f1) in zip(regs, forms):
            a, b = N["doc_maps"](list(r), False, f0, f1)
            pn += a + b
        if sum(pn[0::1]) <= 0 or not any(x > 0 for x in pn):
            # without noise probabilities() is the Born marginal of the final state (covered by the views suite)
            ops = [o for o in ops if o[0] != "probs"] or [("samples", True, False)]
        try:
            header, outs, calls, perms, us, final_rows = N["run_bf_views"](
                n, regs, forms, psi, nshots, ops, base.support_chooser(rng), lambda L: rng.sample(range(L), L),
                u_chooser(rng, pn), dm=dm, mode=mode, given=given)
            err = None
        except Exception as e:  # noqa
            header, outs, calls, perms, us, final_rows, err = "", [], [], [], [], None, f"{type(e).__name__}: {e}"
        runs.append((n, regs, forms, ops, mode, psi, nshots, dm, given, header, outs, calls, perms, us, final_rows, err))
    lines = []
    for (n, regs, forms, ops, mode, psi, nshots, dm, given, header, outs, calls, perms, us, final_rows, err) in runs:
        k = sum(len(r) for r in regs)
        lean_ops = [o for o in ops if o[0] != "probs"]
        first = lean_ops[0] if lean_ops else None
        u = us[0] if us else []
        perm = perms[0] if perms else []
        if mode == "freq":
            lines.append(bfviews_line(regs, forms, 2, given, [], perm, u, k, ops))
        elif mode == "samples":
            lines.append(bfviews_line(regs, forms, 1, N["dec_of"](given), [], perm, u, k, ops))
        else:
            # with noise the samples are always drawn with sample_shots; without, the freq-first path applies
            if us or not (first is not None and first[0] == "freqs"):
                shots, batches = (calls[0] if calls else []), []
            else:
                shots, batches = [], calls
            lines.append(bfviews_line(regs, forms, 0, shots, batches, perm, u, k, ops))
    mouts = run_driver(lines, driver=DRIVER)
    bad = 0
    for run, mout in zip(runs, mouts):
        (n, regs, forms, ops, mode, psi, nshots, dm, given, header, outs, calls, perms, us, final_rows, err) = run
        parts = [x.strip() for x in mout.split("|")]
        mheader = " ".join(parts[0].split())
        model = [" ".join(x.split()) for x in parts[1:]]
        lean_ops = [o for o in ops if o[0] != "probs"]
        on = mheader.endswith("1")
        ctx.case(("bfviews", n, tuple(map(tuple, regs)), str(forms), tuple(map(str, ops)), mode))
        ctx.stat(f"bfviews_{mode}_{'noisy' if on else 'quiet'}")
        ctx.stat(f"bfviews_n{n}_regs{len(regs)}")
        ctx.stat("bfviews_first_" + (ops[0][0] if ops else "none"))
        if len(ctx.samples) < 16 and on and rng.random() < 0.02:
            ctx.sample({"suite": "bfviews", "n": n, "registers": regs, "forms": str(forms), "history": [base.op_name(o) for o in ops], "uniform": us[:1]})
        problem = None
        # python SPEC from the draws actually made
        try:
            clean = N["clean_table"](mode, ops, calls, perms, given, noisy=bool(us))
            sheader, souts, srows = N["spec_bf_views"](regs, forms, clean, us[0] if us else [], ops, noisy_expected=(mode != "samples"))
        except Exception as e:  # noqa
            sheader, souts, srows = f"spec failed {type(e).__name__}: {e}", [], None
        expect_calls = 1 if (on and mode != "samples") else 0
        if err:
            problem = ("execution", "no exception", err)
        elif " ".join(header.split()) != mheader or " ".join(sheader.split()) != mheader:
            problem = ("global measurement gate (qubits ; p 0->1 ; p 1->0 ; has_bitflip_noise)", mheader, header)
        elif len(us) != expect_calls:
            problem = ("number of np.random.random calls", expect_calls, len(us))
        else:
            j = 0
            for i, (op, got) in enumerate(zip(ops, outs)):
                if op[0] == "probs":
                    if got != souts[i]:
                        problem = (f"call #{i} {base.op_name(op)}", souts[i], got)
                        break
                    continue
                exp = model[j] if j < len(model) else "?"
                j += 1
                if " ".join(got.split()) != exp or " ".join(souts[i].split()) != exp:
                    problem = (f"call #{i} {base.op_name(op)}", exp, got)
                    break
        if problem:
            bad += 1
            what, exp, got = problem
            first = ops[0] if ops else None
            key = f"bitflip:views:{mode}:{first[0] if first else 'none'}"
            py = (header_src() + f"psi = np.array({np.asarray(psi).tolist()})\nregs = {regs!r}\nforms = {forms!r}\nops = {ops!r}\nrecp = {perms!r}\n"
                  f"header, outs, calls, perms, us, rows = run_bf_views({n}, regs, forms, psi, {nshots}, ops, Tape({calls!r}), "
                  f"lambda L: (recp[0] if recp and len(recp[0]) == L else list(range(L))), TapeU({us!r}), dm={dm}, mode={mode!r}, given={given!r})\n"
                  f"clean = clean_table({mode!r}, ops, calls, perms, {given!r}, noisy=bool(us))\n"
                  f"sheader, souts, srows = spec_bf_views(regs, forms, clean, us[0] if us else [], ops, noisy_expected={mode != 'samples'})\n"
                  "assert ' '.join(header.split()) == ' '.join(sheader.split()), (header, sheader)\n"
                  f"assert len(us) == {expect_calls}, len(us)\n"
                  + ("assert [' '.join(o.split()) for o in outs] == [' '.join(o.split()) for o in souts], [(i, ops[i], a, b) for i, (a, b) in enumerate(zip(outs, souts)) if ' '.join(a.split()) != ' '.join(b.split())][:1]\n")
                  + "assert rows == srows, (rows, srows)\n")
            ctx.fail(key, f"registers {regs} with p0/p1 forms {[(N['mk_form'](a), N['mk_form'](b)) for a, b in forms]} ({mode}), history {[base.op_name(o) for o in ops]}: {what} is not the view of the flipped table",
                     py, expected=exp, observed=got, broken=["C03_corr_bitflip_views"])
    ctx.ob("C03_corr_bitflip_views", bad == 0, "correspondence", f"{bad} disagreements" if bad else "")


# ---------------------------------------------------------------------------
# suite: result.apply_bitflips


def bfapply_suite(ctx):
    base = _base()
    N = ns()
    rng = ctx.rng
    from qibo import Circuit, gates

    runs = []
    for _ in range(160 if ctx.thorough else 50):
        n = rng.randint(1, 3)
        regs = rng.choice(base.layouts(n))
        flat = [q for r in regs for q in r]
        k = len(flat)
        good = rng.random() < 0.75
        if good:
            f0 = random_form(rng, flat, n, allow_none=False)
            f1 = random_form(rng, flat, n) if rng.random() < 0.5 else ("N",)
        else:
            f0 = rng.choice(invalid_forms(rng, flat, n) + [("N",)])
            f1 = rng.choice([("N",), ("S", 8)] + invalid_forms(rng, flat, n)[:3])
        nshots = rng.randint(1, 6)
        psi = base.gi_state(rng, n, zeros=0.25)
        be = N["OracleBackend"](base.support_chooser(rng))
        c = Circuit(n)
        gate_noise = rng.random() < 0.3
        for r in regs:
            c.add(gates.M(*r, p0=(0.25 if gate_noise else None)))
        pn = [16]
        for f in (f0, f1):
            try:
                pn += N["doc_tuple"](flat, f)
            except LookupError:
                pass
        with N["FixedRandom"](u_chooser(rng, pn)) as fr:
            res = be.execute_circuit(c, initial_state=psi / np.linalg.norm(psi), nshots=nshots)
            before = [[int(b) for b in r] for r in np.asarray(res.samples())]
            ncalls0 = len(fr.calls)
            try:
                out = res.apply_bitflips(N["mk_form"](f0), N["mk_form"](f1))
                real = " ".join(str(int(b)) for r in np.asarray(out) for b in r)
                if np.asarray(out).shape != (nshots, k):
                    real = f"malformed: shape {np.asarray(out).shape}"
            except (ValueError, KeyError, TypeError, NotImplementedError) as e:
                real = "ERR " + type(e).__name__
            except Exception as e:  # noqa
                real = f"raised {type(e).__name__}: {e}"
            after = [[int(b) for b in r] for r in np.asarray(res.samples())]
            u = fr.calls[ncalls0].tolist() if len(fr.calls) > ncalls0 else [[DEN - 1] * k for _ in range(nshots)]
            extra = len(fr.calls) - ncalls0
        runs.append((n, regs, flat, f0, f1, nshots, before, after, u, real, extra))
    lines = []
    for (n, regs, flat, f0, f1, nshots, before, after, u, real, extra) in runs:
        lines.append(f"BFAPPLY {base.nl(flat)} {form_tokens(f0)} {form_tokens(f1)} {nshots} " + " ".join(str(b) for r in before for b in r)
                     + " " + " ".join(str(int(x)) for r in u for x in r))
    mouts = run_driver(lines, driver=DRIVER)
    bad = 0
    for run, mout in zip(runs, mouts):
        (n, regs, flat, f0, f1, nshots, before, after, u, real, extra) = run
        model = " ".join(mout.split())
        ctx.case(("bfapply", tuple(map(tuple, regs)), str(f0), str(f1), nshots))
        ctx.stat("bfapply_raises" if model.startswith("ERR") else "bfapply_ok")
        why = None
        if real != model:
            why = f"returned {real!r}, model {model!r}"
        elif after != before:
            why = "result.samples() changed after apply_bitflips"
        elif not model.startswith("ERR") and extra != 1:
            why = f"{extra} calls of np.random.random"
        if why:
            bad += 1
            py = (header_src() + f"be = OracleBackend(Tape([{N['dec_of'](before)!r}]))\nc = Circuit({n})\n"
                  + "".join(f"c.add(gates.M(*{r!r}))\n" for r in regs)
                  + f"res = be.execute_circuit(c, nshots={nshots})\nres._samples = np.array({before!r})\n"
                  f"with FixedRandom(TapeU([np.array({u!r})])) as fr:\n"
                  f"    try:\n        out = ' '.join(str(int(b)) for r in np.asarray(res.apply_bitflips(mk_form({f0!r}), mk_form({f1!r}))) for b in r)\n"
                  f"    except (ValueError, KeyError, TypeError) as e:\n        out = 'ERR ' + type(e).__name__\n"
                  f"assert out == {model!r}, out\nassert np.asarray(res.samples()).tolist() == {before!r}\n")
            ctx.fail("bitflip:apply_bitflips", f"result.apply_bitflips({N['mk_form'](f0)!r}, {N['mk_form'](f1)!r}) on registers {regs}: {why}", py,
                     expected=model, observed=real, broken=["C03_corr_bitflip_apply"])
    ctx.ob("C03_corr_bitflip_apply", bad == 0, "correspondence", f"{bad} disagreements" if bad else "")


# ---------------------------------------------------------------------------
# suite: noisy terminal measurements in a shot-by-shot execution


def bfrep_suite(ctx):
    base = _base()
    N = ns()
    rng = ctx.rng
    from qibo import Circuit, gates

    runs = []
    for _ in range(70 if ctx.thorough else 24):
        n = rng.randint(2, 4)
        lay = [l for l in base.layouts(min(n, 3)) if sum(len(r) for r in l) < n] or [[[0]]]
        regs = rng.choice(lay)
        flat = [q for r in regs for q in r]
        k = len(flat)
        forms = [(random_form(rng, r, n), random_form(rng, r, n)) for r in regs]
        forms[0] = (("L", [rng.choice([16, 32, 64]) for _ in regs[0]]), forms[0][1])
        other = [q for q in range(n) if q not in flat]
        dm = rng.random() < 0.4
        nshots = rng.randint(1, 6)
        c = Circuit(n, density_matrix=dm)
        for q in range(n):
            c.add(gates.H(q))
        cq = other[0]
        c.add(gates.M(cq, collapse=True))
        c.add(gates.H(cq))
        handles = [c.add(gates.M(*r, p0=N["mk_form"](f0), p1=N["mk_form"](f1))) for r, (f0, f1) in zip(regs, forms)]
        names = [m.register_name for m in c.measurements]
        ao = base.all_ops(len(regs))
        ops = [rng.choice(ao) for _ in range(rng.randint(1, 4))]
        pn = []
        for r, (f0, f1) in zip(regs, forms):
            a, b = N["doc_maps"](list(r), False, f0, f1)
            pn += a + b
        be = N["OracleBackend"](base.support_chooser(rng))
        err = None
        outs = []
        try:
            with N["FixedRandom"](u_chooser(rng, pn)) as fr:
                res = be.execute_circuit(c, nshots=nshots)
                for op in ops:
                    outs.append(N["canon"](op, N["call_op"](op, res, handles), regs, names, nshots))
                us = [a.tolist() for a in fr.calls]
        except Exception as e:  # noqa
            err, us = f"{type(e).__name__}: {e}", []
        runs.append((n, regs, forms, dm, nshots, ops, outs, be.calls, us, err))
    lines = []
    for (n, regs, forms, dm, nshots, ops, outs, calls, us, err) in runs:
        k = sum(len(r) for r in regs)
        clean = [c_[0] for c_ in calls[1::2]]
        u = [row for a in us for row in a]
        lines.append(bfviews_line(regs, forms, 0, clean, [], [], u, k, ops))
    mouts = run_driver(lines, driver=DRIVER)
    bad = 0
    for run, mout in zip(runs, mouts):
        (n, regs, forms, dm, nshots, ops, outs, calls, us, err) = run
        parts = [x.strip() for x in mout.split("|")]
        model = [" ".join(x.split()) for x in parts[1:]]
        ctx.case(("bfrep", n, tuple(map(tuple, regs)), str(forms), dm, nshots, tuple(map(str, ops))))
        ctx.stat("bfrep_" + ("dm" if dm else "sv"))
        why = None
        if err:
            why = err
        elif len(calls) != 2 * nshots or len(us) != nshots or any(np.asarray(a).shape != (1, sum(len(r) for r in regs)) for a in us):
            why = f"{len(calls)} sampler calls and {len(us)} np.random.random calls for {nshots} shots"
        elif [" ".join(o.split()) for o in outs] != model:
            i = next(i for i, (a, b) in enumerate(zip(outs, model)) if " ".join(a.split()) != b)
            why = f"call #{i} {base.op_name(ops[i])} returned {outs[i]!r}, the per-shot flipped table gives {model[i]!r}"
        if why:
            bad += 1
            clean = [c_[0] for c_ in calls[1::2]]
            u = [row for a in us for row in a]
            py = (header_src() + f"regs = {regs!r}\nforms = {forms!r}\nops = {ops!r}\n"
                  f"c = Circuit({n}, density_matrix={dm})\nfor q in range({n}):\n    c.add(gates.H(q))\n"
                  f"cq = [q for q in range({n}) if q not in [x for r in regs for x in r]][0]\nc.add(gates.M(cq, collapse=True)); c.add(gates.H(cq))\n"
                  "handles = [c.add(gates.M(*r, p0=mk_form(f0), p1=mk_form(f1))) for r, (f0, f1) in zip(regs, forms)]\n"
                  f"be = OracleBackend(Tape({calls!r}))\n"
                  f"with FixedRandom(TapeU({us!r})) as fr:\n    res = be.execute_circuit(c, nshots={nshots})\n"
                  f"    outs = [canon(op, call_op(op, res, handles), regs, [m.register_name for m in c.measurements], {nshots}) for op in ops]\n"
                  f"sheader, souts, srows = spec_bf_views(regs, forms, {clean!r}, {u!r}, ops)\n"
                  "assert [' '.join(o.split()) for o in outs] == [' '.join(o.split()) for o in souts], (outs, souts)\n")
            ctx.fail("bitflip:repeated:" + ("dm" if dm else "sv"), f"shot-by-shot execution with noisy registers {regs} (forms {forms}), nshots={nshots}: {why}", py,
                     expected=model, observed=outs, broken=["C03_corr_bitflip_repeated"])
    ctx.ob("C03_corr_bitflip_repeated", bad == 0, "correspondence", f"{bad} disagreements" if bad else "")


# ---------------------------------------------------------------------------
# suite: frequencies only, binary keys


def freqonly_suite(ctx):
    base = _base()
    N = ns()
    rng = ctx.rng
    from qibo.measurements import frequencies_to_binary

    cases = []
    for n in range(1, 4):
        for regs in base.layouts(n):
            ao = [o for o in base.all_ops(len(regs))]
            glob_ops = [o for o in ao if o[0] in ("samples", "freqs")]
            for _ in range(4 if ctx.thorough else 2):
                ops, seen = [], False
                for _ in range(rng.randint(1, 6)):
                    o = rng.choice(ao if seen else glob_ops)
                    seen = seen or o[0] == "samples"
                    ops.append(o)
                cases.append((n, regs, ops))
    runs = []
    none = ("N",)
    for n, regs, ops in cases:
        k = sum(len(r) for r in regs)
        nshots = rng.randint(1, 10)
        T0 = [rng.randrange(2 ** k) for _ in range(nshots)]
        given = [T0.count(v) for v in range(2 ** k)]
        forms = [(none, none) for _ in regs]
        try:
            header, outs, calls, perms, us, rows = N["run_bf_views"](n, regs, forms, np.ones(2 ** n), nshots, ops, base.support_chooser(rng),
                                                                   lambda L: rng.sample(range(L), L), lambda shape: np.zeros(shape), mode="freq", given=given)
            err = None
        except Exception as e:  # noqa
            outs, calls, perms, us, rows, err = [], [], [], [], None, f"{type(e).__name__}: {e}"
        runs.append((n, regs, ops, nshots, given, outs, calls, perms, us, rows, err))
    lines = []
    for (n, regs, ops, nshots, given, outs, calls, perms, us, rows, err) in runs:
        lines.append(base.views_line(regs, 2, given, [], perms[0] if perms else [], ops))
    keycases = [(k, v) for k in range(1, 5) for v in range(2 ** k)] + [(rng.randint(1, 4), rng.randrange(2 ** 8)) for _ in range(20)] + [(1, 2), (2, 4), (3, 8)]
    lines += [f"BINKEY {k} {v}" for k, v in keycases]
    mouts = run_driver(lines, driver=DRIVER)
    bad = 0
    for run, mout in zip(runs, mouts):
        (n, regs, ops, nshots, given, outs, calls, perms, us, rows, err) = run
        model = [" ".join(x.split()) for x in mout.split("|")]
        ctx.case(("freqonly", tuple(map(tuple, regs)), tuple(map(str, ops)), nshots))
        ctx.stat("freqonly_first_" + ops[0][0])
        why = None
        if err:
            why = err
        elif calls or us:
            why = f"a result holding frequencies drew new samples ({len(calls)} sampler calls)"
        elif [" ".join(o.split()) for o in outs] != model:
            i = next(i for i, (a, b) in enumerate(zip(outs, model)) if " ".join(a.split()) != b)
            why = f"call #{i} {base.op_name(ops[i])} returned {outs[i]!r}, expected {model[i]!r}"
        elif rows is not None and [N["dec_of"](rows).count(v) for v in range(len(given))] != given:
            why = "the histogram of the samples drawn from the frequencies is not the frequencies"
        if why:
            bad += 1
            py = (header_src() + f"regs = {regs!r}\nops = {ops!r}\nrecp = {perms!r}\ngiven = {given!r}\n"
                  f"header, outs, calls, perms, us, rows = run_bf_views({n}, regs, [(('N',), ('N',))] * len(regs), np.ones({2 ** n}), {nshots}, ops, Tape([]), "
                  "lambda L: (recp[0] if recp and len(recp[0]) == L else list(range(L))), TapeU([]), mode='freq', given=given)\n"
                  "T = clean_table('freq', ops, calls, perms, given)\nexp = spec_views(regs, T, ops)\n"
                  "assert not calls, calls\nassert [' '.join(o.split()) for o in outs] == [' '.join(o.split()) for o in exp], (outs, exp)\n"
                  "assert [dec_of(rows).count(v) for v in range(len(given))] == given\n")
            ctx.fail(f"freqonly:views:{ops[0][0]}", f"MeasurementOutcomes with frequencies only, registers {regs}, history {[base.op_name(o) for o in ops]}: {why}", py,
                     expected=model, observed=outs, broken=["C03_corr_freqonly"])
    ctx.ob("C03_corr_freqonly", bad == 0, "correspondence", f"{bad} disagreements" if bad else "")
    badk = 0
    for (k, v), mout in zip(keycases, mouts[len(runs):]):
        ctx.case(("binkey", k, v))
        real = frequencies_to_binary({v: 3}, k)
        key = next(iter(real))
        got = f"{key} {int(key, 2)}"
        if got != mout.strip() or real[key] != 3 or int(key, 2) != v:
            badk += 1
            ctx.fail("bits:frequencies_to_binary", f"frequencies_to_binary key of {v} on {k} qubits is {key!r}, model {mout.strip()!r}",
                     f"from qibo.measurements import frequencies_to_binary\nk = next(iter(frequencies_to_binary({{{v}: 3}}, {k})))\nassert k + ' ' + str(int(k, 2)) == {mout.strip()!r}, k\n",
                     expected=mout.strip(), observed=got, broken=["C03_corr_binkey"])
    ctx.ob("C03_corr_binkey", badk == 0, "correspondence", f"{badk} disagreements" if badk else "")


# ---------------------------------------------------------------------------
# suite: gates with symbolic parameters in execute_circuit_repeated


def gate_tokens(n, cls, qs, params, N):
    g = N["sym_gate"](cls, qs, params)
    m = np.asarray(g.matrix(N["NumpyBackend"]()))
    if cls == "CRX":
        m = m[2:, 2:]
        return f"1 1 {qs[1]} {qs[0]} {gi_tokens(np.round(m, 9))}"
    return f"1 0 {qs[0]} {gi_tokens(np.round(m, 9))}"


def random_poly(rng, nuses):
    subsets = [()] + [(i,) for i in range(nuses)] + [tuple(c) for c in itertools.combinations(range(nuses), 2)]
    out = [(S, rng.randint(-2, 3)) for S in subsets if rng.random() < 0.7]
    return out or [((0,), 1)]


def symbols_suite(ctx):
    base = _base()
    N = ns()
    rng = ctx.rng
    runs = []
    target = 120 if ctx.thorough else 45
    tries = 0
    while len(runs) < target and tries < 30 * target:
        tries += 1
        n = rng.randint(1, 4)
        dm = rng.random() < 0.4
        plan, msizes, cflags = [], [], []
        for _ in range(rng.randint(3, 8)):
            r = rng.random()
            if r < 0.3:
                g, tok, (m, qs) = base.int_gate(rng, n)
                plan.append(("G", m.tolist(), list(qs), tok))
            elif r < 0.6 or not any(cflags):
                ts = rng.sample(range(n), rng.randint(1, min(n, 3)))
                plan.append(("M", ts, True))
                msizes.append(len(ts)); cflags.append(True)
            else:
                avail = [(mi, j) for mi, (sz, cf) in enumerate(zip(msizes, cflags)) if cf for j in range(sz)]
                nuses = rng.randint(1, min(3, len(avail)))
                uses = [rng.choice(avail) for _ in range(nuses)]
                cls = rng.choice(["RX", "RY", "RZ", "U3", "CRX"] if n > 1 else ["RX", "RY", "RZ", "U3"])
                qs = rng.sample(range(n), 2 if cls == "CRX" else 1)
                nparams = 3 if cls == "U3" else 1
                plan.append(("P", cls, qs, uses, [random_poly(rng, nuses) for _ in range(nparams)]))
        if not any(it[0] == "P" for it in plan):
            continue
        status = N["plan_status2"](plan)
        mts = [it[1] for it in plan if it[0] == "M"]
        used = {q for ts, st in zip(mts, status) if not st for q in ts}
        free = [q for q in range(n) if q not in used]
        if free and (rng.random() < 0.85 or not dm):
            sub = rng.sample(free, rng.randint(1, len(free)))
            cut = rng.randint(1, len(sub))
            plan.append(("M", sub[:cut], False))
            if sub[cut:]:
                plan.append(("M", sub[cut:], False))
        status = N["plan_status2"](plan)
        mts = [it[1] for it in plan if it[0] == "M"]
        finals = [ts for ts, st in zip(mts, status) if not st]
        if (not dm and not finals):
            continue
        psi = base.gi_state(rng, n, zeros=0.1)
        nshots = rng.randint(1, 5)
        pl = [tuple(it[:3]) if it[0] == "G" else tuple(it) for it in plan]
        try:
            reports, bes = N["run_repeated_sym"](n, dm, pl, psi, nshots, [base.support_chooser(rng), base.support_chooser(rng)])
            err = None
        except Exception as e:  # noqa
            reports, bes, err = [], [], f"{type(e).__name__}: {e}"
        runs.append((n, dm, plan, pl, status, psi, nshots, reports, bes, err))
    lines = []
    for (n, dm, plan, pl, status, psi, nshots, reports, bes, err) in runs:
        toks, mi = [], 0
        for it in plan:
            if it[0] == "G":
                toks.append("G " + it[3])
            elif it[0] == "M":
                toks.append(f"M {base.nl(it[1])} {int(status[mi])}")
                mi += 1
            else:
                _, cls, qs, uses, exprs = it
                tab = []
                for idx in range(2 ** len(uses)):
                    vals = [(idx >> (len(uses) - 1 - i)) & 1 for i in range(len(uses))]
                    tab.append(gate_tokens(n, cls, qs, [np.pi * N["eval_expr"](e, vals) for e in exprs], N))
                toks.append(f"P {len(uses)} " + " ".join(f"{m} {j}" for m, j in uses) + f" {len(tab)} " + " ".join(tab))
        st = gi_tokens(np.outer(psi, psi.conj())) if dm else gi_tokens(psi)
        for be in (bes if bes else [None, None]):
            tape = [x for c_ in (be.calls if be else []) for x in c_]
            lines.append(f"REP {int(dm)} {n} {nshots} {len(toks)} {' '.join(toks)} {base.nl(tape)} {st}")
        lines.append(f"REPWF {len(toks)} {' '.join(toks)}")
    mouts = run_driver(lines, driver=DRIVER)
    bad = 0
    for i, run in enumerate(runs):
        (n, dm, plan, pl, status, psi, nshots, reports, bes, err) = run
        wf = mouts[3 * i + 2].split()
        descr = [("G%s" % (tuple(it[2]),) if it[0] == "G" else "M%s%s" % (tuple(it[1]), "c" if st_ else "") if it[0] == "M" else "%s%s(pi*poly(%s))" % (it[1], tuple(it[2]), ",".join("m%d[%d]" % u for u in it[3])))
                 for it, st_ in zip(plan, _status_iter(plan, status))]
        ctx.case(("symbols", n, dm, tuple(descr), nshots))
        ctx.stat("symbols_" + ("dm" if dm else "sv"))
        ctx.stat("symbols_uses%d" % max(len(it[3]) for it in plan if it[0] == "P"))
        if len({u[0] for it in plan if it[0] == "P" for u in it[3]}) > 1:
            ctx.stat("symbols_two_measurements")
        why = None
        if err:
            why = err
        elif wf[0] != "1":
            why = "harness: plan not well-formed for the model"
        else:
            need = int(wf[1])
            for e_, (rep, be) in enumerate(zip(reports, bes)):
                parts = [x.strip() for x in mouts[3 * i + e_].split("|")]
                model = " | ".join(" ".join(x.split()) for x in parts[:3])
                if " ".join(rep.split()) != model:
                    why = f"execution #{e_}: reported samples / per-gate samples / frequencies {rep!r}, model {model!r}"
                    break
                if parts[3] != "0" or len(be.calls) != nshots * need:
                    why = f"execution #{e_}: {len(be.calls)} sampler calls, the model consumes {nshots}*{need}"
                    break
                mseen = [[[int(t) for t in v.split()] for v in sh.split(",")] for sh in parts[4].split(";")] if parts[4].strip() else []
                flat_seen = [v for sh in mseen for v in sh]
                for di, (pm, pr) in enumerate(zip(flat_seen, be.asked)):
                    pm = np.asarray(pm, dtype=float)
                    pr = np.asarray(pr, dtype=float)
                    if pm.shape != pr.shape or pm.sum() <= 0 or not np.allclose(pm / pm.sum(), pr / pr.sum(), atol=1e-8):
                        why = (f"execution #{e_}, draw #{di} (shot {di // need}): the sampler was given {pr.tolist()}; with the gate built from THIS shot's "
                               f"recorded outcomes the state gives {(pm / max(pm.sum(), 1)).tolist()}")
                        break
                if why:
                    break
        if len(ctx.samples) < 18 and i < 2:
            ctx.sample({"suite": "symbols", "n": n, "density_matrix": dm, "circuit": descr, "nshots": nshots, "observed": reports[:1]})
        if why:
            bad += 1
            tapes = [be.calls for be in bes]
            py = (header_src() + "# circuit (qibo order): " + "; ".join(descr) + f"\nplan = {pl!r}\npsi = np.array({np.asarray(psi).tolist()})\n"
                  f"reports, bes = run_repeated_sym({n}, {dm}, plan, psi, {nshots}, [Tape(t) for t in {tapes!r}])\n"
                  f"status = plan_status2(plan)\ninit = np.outer(psi, psi.conj()) / np.vdot(psi, psi).real if {dm} else psi / np.linalg.norm(psi)\n"
                  "need = sum(status) + (0 if all(status) else 1)\n"
                  "for be, rep in zip(bes, reports):\n"
                  "    flat = [x for c_ in be.calls for x in c_]\n"
                  f"    for s in range({nshots}):\n"
                  "        recs, st = spec_sym_shot(" + f"{n}, {dm}" + ", plan, status, init, flat[s * need:(s + 1) * need])\n"
                  "        caches = rep.split('|')[1].split()\n"
                  "        for mi, r in enumerate(recs):\n"
                  "            if r is not None:\n"
                  "                assert caches[mi].split(',')[s] == ''.join(map(str, r)), (s, mi, caches, r)\n"
                  "        if not all(status):\n"
                  "            fq = [q for it, stt in zip([it for it in plan if it[0] == 'M'], status) if not stt for q in it[1]]\n"
                  "            p = born_np(st, " + f"{n}" + ", fq)\n"
                  "            asked = be.asked[s * need + need - 1]\n"
                  "            assert np.allclose(p / p.sum(), asked / asked.sum(), atol=1e-8), (s, p.tolist(), asked.tolist())\n")
            ctx.fail("symbols:substitution:" + ("dm" if dm else "sv"), f"circuit {descr} (n={n}, dm={dm}, nshots={nshots}): {why}", py,
                     observed=reports, broken=["C03_corr_symbols"])
    ctx.ob("C03_corr_symbols", bad == 0, "correspondence", f"{bad} disagreements" if bad else "")


def full_poly(rng, nuses, avoid=()):
    """integer polynomial that contains every symbol (so all parameters of a gate depend on the same symbols), different from those in `avoid`."""
    while True:
        out = [((), rng.randint(-1, 2))] + [((i,), rng.choice([-2, -1, 1, 2, 3])) for i in range(nuses)]
        if nuses > 1 and rng.random() < 0.5:
            out.append(((0, 1), rng.choice([-1, 1, 2])))
        if out not in avoid:
            return out


MULTI = {"U3": (1, 3), "U2": (1, 2), "U1q": (1, 2), "CU3": (2, 3), "CU2": (2, 2), "fSim": (2, 2)}


def classical_use_suite(ctx):
    """property-level (numpy SPEC, arbitrary angles): (a) gates with two or more parameters that are
    DIFFERENT expressions of the same measurement symbols, followed by a dense gate so that every
    parameter is observable in the terminal distribution; (b) the same circuits and plain
    collapse circuits after Circuit.fuse(): still simulated shot by shot."""
    base = _base()
    N = ns()
    rng = ctx.rng
    bad = {"C03_search_symbols_multiparam": 0, "C03_search_fused_collapse": 0}
    had = [[1, 1], [1, -1]]
    for it_ in range(90 if ctx.thorough else 36):
        n = rng.randint(2, 3)
        dm = rng.random() < 0.35
        fuse = it_ % 3 == 2
        with_p = not fuse or rng.random() < 0.3
        plan = []
        if rng.random() < 0.6:
            g, tok, (m, qs) = base.int_gate(rng, n)
            plan.append(("G", m.tolist(), list(qs)))
        nm = rng.randint(1, 2)
        msizes = []
        for _ in range(nm):
            ts = rng.sample(range(n), rng.randint(1, 2))
            plan.append(("M", ts, True))
            msizes.append(len(ts))
            if rng.random() < 0.5:
                plan.append(("G", had, [rng.randrange(n)]))
        scale = rng.choice([0.5, 1 / 3, 0.25, 0.2])
        if with_p:
            avail = [(mi, j) for mi, sz in enumerate(msizes) for j in range(sz)]
            for _ in range(rng.randint(1, 2)):
                cls = rng.choice(sorted(MULTI))
                nq, npar = MULTI[cls]
                uses = rng.sample(avail, min(len(avail), rng.randint(1, 2)))
                exprs = []
                for _ in range(npar):
                    exprs.append(full_poly(rng, len(uses), avoid=exprs))
                qs = rng.sample(range(n), nq)
                plan.append(("P", cls, qs, uses, exprs))
                for q in qs:   # make the phases observable
                    plan.append(("G", had, [q]))
        else:
            g, tok, (m, qs) = base.int_gate(rng, n)
            plan.append(("G", m.tolist(), list(qs)))
        sub = rng.sample(range(n), rng.randint(1, n))
        plan.append(("M", sub, False))
        psi = base.gi_state(rng, n, zeros=0.0, lo=1, hi=3)
        nshots = rng.randint(2, 5)
        log = []
        sup = base.support_chooser(rng)

        def chooser(p_, n_, log=log, sup=sup):
            o_ = sup(p_, n_)
            log.append(o_)
            return o_

        descr = [("G%s" % (tuple(x[2]),) if x[0] == "G" else "M%s%s" % (tuple(x[1]), "c" if x[2] else "") if x[0] == "M" else "%s%s(%g*pi*polys(%s))" % (x[1], tuple(x[2]), scale, ",".join("m%d[%d]" % u for u in x[3]))) for x in plan]
        ob = "C03_search_fused_collapse" if fuse else "C03_search_symbols_multiparam"
        ctx.case(("classical_use", n, dm, fuse, tuple(descr), nshots))
        ctx.stat("classical_use_" + ("fused" if fuse else "plain") + ("_P" if with_p else ""))
        try:
            why = N["check_sym_execution"](n, dm, plan, psi, nshots, chooser, fuse=fuse, scale=scale)
        except Exception as e:  # noqa
            why = f"{type(e).__name__}: {e}"
        if why:
            if fuse and with_p and FUSED_SYMBOLIC_PENDING:
                ctx.stat("pending_fused_symbolic_gate")
                continue
            bad[ob] += 1
            py = (header_src() + "# circuit (qibo order): " + "; ".join(descr) + (" ; then circuit.fuse(max_qubits=2)" if fuse else "") + f"\nplan = {plan!r}\n"
                  f"why = check_sym_execution({n}, {dm}, plan, np.array({np.asarray(psi).tolist()}), {nshots}, Tape({log!r}), fuse={fuse}, scale={scale!r})\nassert why is None, why\n")
            key = ("fused:collapse:" if fuse else "symbols:multiparam:") + ("dm" if dm else "sv")
            ctx.fail(key, f"circuit {descr}{' fused' if fuse else ''} (n={n}, dm={dm}, nshots={nshots}): {why}", py, observed=why, broken=[ob])
    for ob, b in bad.items():
        ctx.ob(ob, b == 0, "search", f"{b} failing inputs" if b else "")


# a FusedGate hides symbolic parameters from the shot loop: decided by the lead, counted only
FUSED_SYMBOLIC_PENDING = True


def _status_iter(plan, status):
    mi = 0
    for it in plan:
        if it[0] == "M":
            yield status[mi]
            mi += 1
        else:
            yield False


# ---------------------------------------------------------------------------
# direct searches


def on_qubits_search(ctx):
    base = _base()
    N = ns()
    rng = ctx.rng
    bad = 0
    cases = []
    for n in range(1, 4):
        for ts in base.ordered_lists(n, allow_empty=False):
            for new in itertools.permutations(range(n + 1), len(ts)):
                if rng.random() < (1.0 if len(ts) <= 2 else 0.35):
                    cases.append((ts, list(new)))
    if not ctx.thorough:
        cases = rng.sample(cases, min(len(cases), 120))
    for ts, new in cases:
        n = max(ts) + 1
        for f0, f1 in [(("D", [(q, 8 + 8 * i, False) for i, q in enumerate(ts)][: rng.randint(1, len(ts))]), ("N",)),
                       (random_form(rng, ts, n, allow_none=False), random_form(rng, ts, n))]:
            kind = "dict" if "D" in (f0[0], f1[0]) else "positional"
            ctx.case(("on_qubits", tuple(ts), tuple(new), str(f0), str(f1)))
            ctx.stat("on_qubits_" + kind)
            try:
                why = N["check_on_qubits"](ts, f0, f1, new)
            except Exception as e:  # noqa
                why = f"{type(e).__name__}: {e}"
            if why:
                bad += 1
                py = header_src() + f"why = check_on_qubits({ts!r}, {f0!r}, {f1!r}, {new!r})\nassert why is None, why\n"
                ctx.fail(f"bitflip:on_qubits:{kind}", f"M{tuple(ts)} with p0={N['mk_form'](f0)!r}, p1={N['mk_form'](f1)!r} moved to {tuple(new)}: {why}", py,
                         observed=why, broken=["C03_search_bitflip_on_qubits"])
    for _ in range(40 if ctx.thorough else 12):
        ts = rng.sample(range(5), rng.randint(1, 3))
        f0 = ("D", [(q, 8 + 8 * i, rng.random() < 0.3) for i, q in enumerate(ts) if rng.random() < 0.8] or [(ts[0], 16, False)])
        f1 = rng.choice([("N",), ("L", [rng.choice(GRID) for _ in ts])])
        seed = rng.randrange(2 ** 31)
        ctx.case(("star_router", tuple(ts), str(f0), seed))
        ctx.stat("on_qubits_router")
        try:
            why = N["check_star_router"](ts, f0, f1, seed)
        except Exception as e:  # noqa
            why = f"{type(e).__name__}: {e}"
        if why:
            bad += 1
            py = header_src() + f"why = check_star_router({ts!r}, {f0!r}, {f1!r}, {seed})\nassert why is None, why\n"
            ctx.fail("bitflip:on_qubits:dict", f"M{tuple(ts)} with p0={N['mk_form'](f0)!r} through StarConnectivityRouter: {why}", py,
                     observed=why, broken=["C03_search_bitflip_on_qubits"])
    ctx.ob("C03_search_bitflip_on_qubits", bad == 0, "search", f"{bad} failing inputs" if bad else "")


def noisy_sampler_search(ctx):
    base = _base()
    N = ns()
    rng = ctx.rng
    state0 = np.random.get_state()
    bad = 0
    try:
        for it in range(120 if ctx.thorough else 40):
            n = rng.randint(1, 4)
            regs = rng.choice(base.layouts(min(n, 3)))
            if n == 4 and rng.random() < 0.6:
                regs = [[3 if q == regs[0][0] else q for q in r] for r in regs]
            psi = base.gi_state(rng, n, zeros=0.5)
            psi = psi / np.linalg.norm(psi)
            if rng.random() < 0.3:  # a basis state: the clean table is deterministic
                x = rng.randrange(2 ** n)
                psi = np.zeros(2 ** n, dtype=complex)
                psi[x] = 1
            forms = []
            for r in regs:
                kind = rng.random()
                if kind < 0.25:   # extremes: exact behaviour
                    forms.append((("L", [rng.choice([0, 64]) for _ in r]), ("L", [rng.choice([0, 64]) for _ in r])))
                else:
                    forms.append((random_form(rng, r, n), random_form(rng, r, n)))
            dm = rng.random() < 0.3
            nshots = rng.choice([1, 3, 400, 2000, 4000])
            seed = rng.randrange(2 ** 31)
            first = rng.choice(["samples", "freqs", "probs"])
            ctx.case(("noisy_sampler", n, tuple(map(tuple, regs)), str(forms), nshots, first, seed))
            ctx.stat("noisy_sampler_" + first)
            try:
                why = N["check_noisy_sampler"](n, regs, forms, psi, dm, nshots, seed, first)
            except Exception as e:  # noqa
                why = f"{type(e).__name__}: {e}"
            if why:
                bad += 1
                py = header_src() + f"why = check_noisy_sampler({n}, {regs!r}, {forms!r}, np.array({np.asarray(psi).tolist()}), {dm}, {nshots}, {seed}, {first!r})\nassert why is None, why\n"
                ctx.fail(f"bitflip:sampler:{first}-first", f"registers {regs}, forms {forms}, nshots={nshots}, seed={seed}: {why}", py, observed=why,
                         broken=["C03_search_bitflip_sampler"])
    finally:
        np.random.set_state(state0)
    ctx.ob("C03_search_bitflip_sampler", bad == 0, "search", f"{bad} failing inputs" if bad else "")


def run_suites(ctx):
    bfmap_suite(ctx)
    bfviews_suite(ctx)
    bfapply_suite(ctx)
    bfrep_suite(ctx)
    freqonly_suite(ctx)
    symbols_suite(ctx)
    classical_use_suite(ctx)
    on_qubits_search(ctx)
    noisy_sampler_search(ctx)
    ctx.notes.append(
        "bit-flip noise: gates.M(p0, p1) maps / exception classes for every ordered target list n<=3 x all pairs of forms (None, float, np.float64, int, "
        "list, tuple, dict with int/str/partial/duplicate/foreign keys, wrong length, out of range, array, str) x collapse; accessor histories on every "
        "layout n<=3 with np.random.random, sample_shots and shuffle forced (uniform numbers on the grid k/64, thresholds hit at equality), incl. "
        "frequencies-only and samples-given results with noisy gates and probabilities(qs) under noise; result.apply_bitflips; shot-by-shot executions "
        "with noisy terminal registers; MeasurementOutcomes with _frequencies only (all layouts n<=3) and frequencies_to_binary keys; "
        "execute_circuit_repeated with RX/RY/RZ/U3/CRX gates whose parameters are integer polynomials in up to 3 symbols of several collapsing "
        "measurements, executed twice; searches: on_qubits / Circuit.on_qubits / StarConnectivityRouter keep flip probabilities, seeded real "
        "sampler against the channel-pushed Born marginal (exact binomial tail < 1e-9)")
