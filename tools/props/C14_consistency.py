"""C14, internal consistency of every result object — fresh AND after to_dict/from_dict and
dump/load_result: `nshots` = number of sample rows = sum of the frequencies; frequencies (binary
and decimal keys, global and per register) = histogram of the samples; decimal samples = value of
the binary rows; probabilities = frequencies / nshots where the result derives them from samples
(measurement bit-flip noise, results without a state), otherwise every sampled row lies in their
support; a reloaded result shows the same nshots, samples, frequencies, probabilities and state.
Circuits: state vectors and density matrices, noise channels / collapses (repeated execution),
several registers in any qubit order, bit-flip noise on the measurements, shot counts != 1000.
Obligation `C14_search_result_consistency`, keys `result-consistency:<fresh|from_dict|load>`.
"""
from __future__ import annotations

import json

CONS_SRC = r'''
import collections
import os
import tempfile

import numpy as np
from qibo import Circuit, gates
from qibo.backends import NumpyBackend
from qibo.result import load_result


def cons_build(spec):
    c = Circuit(spec["n"], density_matrix=bool(spec["dm"]))
    for g in spec["gates"]:
        nm = g[0]
        if nm in ("H", "X", "S"):
            c.add(getattr(gates, nm)(g[1]))
        elif nm == "RY":
            c.add(gates.RY(g[1], theta=g[2]))
        elif nm == "CNOT":
            c.add(gates.CNOT(g[1], g[2]))
        elif nm == "PN":
            c.add(gates.PauliNoiseChannel(g[1], [(g[2], g[3])]))
        elif nm == "MC":
            c.add(gates.M(*g[1], collapse=True))
        else:  # ["M", qubits, name, p0, p1]
            kw = {}
            if g[2] is not None:
                kw["register_name"] = g[2]
            if g[3] is not None:
                kw["p0"] = g[3]
            if g[4] is not None:
                kw["p1"] = g[4]
            c.add(gates.M(*g[1], **kw))
    return c


def cons_check(r, spec, nshots, freq_first):
    """problems of ONE result object (list of strings)."""
    bad = []
    regs = [g for g in spec["gates"] if g[0] == "M"]
    qubits = [q for g in regs for q in g[1]]
    k = len(qubits)
    noisy_m = any((g[3] or 0) > 0 or (g[4] or 0) > 0 for g in regs)  # = has_bitflip_noise()
    if freq_first:
        r.frequencies()
    rows = np.asarray(r.samples())
    if rows.shape != (nshots, k):
        bad.append("samples() has shape %r for %d shots on %d qubits" % (rows.shape, nshots, k))
        return bad
    if r.nshots != nshots:
        bad.append("nshots is %r, the execution had %d shots (%d sample rows)" % (r.nshots, nshots, len(rows)))
    strs = ["".join(str(int(b)) for b in row) for row in rows]
    f = r.frequencies()
    if sum(f.values()) != len(rows) or collections.Counter(f) != collections.Counter(strs):
        bad.append("frequencies() %r is not the histogram of the %d sample rows" % (dict(f), len(rows)))
    dec = [int(s, 2) for s in strs]
    if [int(x) for x in np.asarray(r.samples(binary=False))] != dec:
        bad.append("samples(binary=False) is not the value of the binary rows")
    if collections.Counter(r.frequencies(binary=False)) != collections.Counter(dec):
        bad.append("frequencies(binary=False) is not the histogram of the decimal samples")
    rs, rf = r.samples(registers=True), r.frequencies(registers=True)
    names = [m.register_name for m in r.measurements]
    off = 0
    for nm, g in zip(names, regs):
        w = len(g[1])
        part = rows[:, off:off + w]
        off += w
        if nm not in rs or not np.array_equal(np.asarray(rs[nm]), part):
            bad.append("samples(registers=True)[%r] is not the register's columns" % nm)
        pstr = ["".join(str(int(b)) for b in row) for row in part]
        if nm not in rf or collections.Counter(rf[nm]) != collections.Counter(pstr):
            bad.append("frequencies(registers=True)[%r] is not the histogram of the register's columns" % nm)
    # the combined measurement gate carries every register's own readout-noise maps
    mg = r.measurement_gate
    for m in r.measurements:
        for d in (0, 1):
            for q in m.target_qubits:
                if abs(float(mg.bitflip_map[d].get(q, 0.0)) - float(m.bitflip_map[d].get(q, 0.0))) > 1e-15:
                    bad.append("combined measurement gate: %d->%d flip probability of qubit %d is %r, register %r says %r"
                               % (d, 1 - d, q, mg.bitflip_map[d].get(q), m.register_name, m.bitflip_map[d].get(q)))
    if spec.get("expect") is not None and set(strs) != {spec["expect"]}:
        bad.append("samples contain %r, the only possible outcome is %r" % (sorted(set(strs)), spec["expect"]))
    try:
        p = np.asarray(r.probabilities(qubits), dtype=float).ravel()
    except Exception as e:
        bad.append("probabilities(%r) raises %s" % (qubits, type(e).__name__))
        return bad
    if p.shape != (2 ** k,) or abs(p.sum() - 1) > 1e-9:
        bad.append("probabilities has shape %r and sums to %r" % (p.shape, float(p.sum())))
    elif noisy_m or not hasattr(r, "state"):
        emp = np.zeros(2 ** k)
        for d in dec:
            emp[d] += 1
        if not np.allclose(p, emp / len(rows), atol=1e-12):
            bad.append("probabilities() %r is not frequencies / number of samples %r (nshots = %r)" % (np.round(p, 4).tolist(), np.round(emp / len(rows), 4).tolist(), r.nshots))
    elif any(p[d] <= 1e-12 for d in dec):
        bad.append("a sampled row has probability 0")
    return bad


def cons_same(a, b, spec):
    """what a reloaded result `b` must share with the saved one `a`."""
    bad = []
    qubits = [q for g in spec["gates"] if g[0] == "M" for q in g[1]]
    if a.nshots != b.nshots:
        bad.append("nshots %r, saved %r" % (b.nshots, a.nshots))
    if not np.array_equal(np.asarray(a.samples()), np.asarray(b.samples())):
        bad.append("the samples differ from the saved ones")
    if collections.Counter(a.frequencies()) != collections.Counter(b.frequencies()):
        bad.append("frequencies %r, saved %r" % (dict(b.frequencies()), dict(a.frequencies())))
    if not np.allclose(np.asarray(a.probabilities(qubits), dtype=float), np.asarray(b.probabilities(qubits), dtype=float), atol=1e-12):
        bad.append("probabilities %r, saved %r" % (np.round(np.asarray(b.probabilities(qubits), dtype=float), 4).tolist(), np.round(np.asarray(a.probabilities(qubits), dtype=float), 4).tolist()))
    if hasattr(a, "state") != hasattr(b, "state"):
        bad.append("type %s, saved %s" % (type(b).__name__, type(a).__name__))
    elif hasattr(a, "state") and not np.allclose(np.asarray(a.state()), np.asarray(b.state()), atol=1e-12):
        bad.append("the state differs from the saved one")
    return bad


def cons_run(spec, nshots, seed, freq_first, save_before, batch=None):
    """returns (stage, problems) of the first stage with problems, or None.
    `batch`: shot batch size set through the public qibo.set_batch_size for the duration."""
    if batch is not None:
        import qibo
        old = qibo.get_batch_size()
        qibo.set_batch_size(batch)
        try:
            return cons_run(spec, nshots, seed, freq_first, save_before)
        finally:
            qibo.set_batch_size(old)
    be = NumpyBackend()
    be.set_seed(seed)
    c = cons_build(spec)
    r = be.execute_circuit(c, nshots=nshots)
    early = r.to_dict() if save_before else None
    bad = cons_check(r, spec, nshots, freq_first)
    if bad:
        return "fresh", bad
    payload = r.to_dict()
    l1 = type(r).from_dict(payload)
    bad = cons_check(l1, spec, nshots, not freq_first) + cons_same(r, l1, spec)
    if bad:
        return "from_dict", bad
    fd, path = tempfile.mkstemp(suffix=".npy")
    os.close(fd)
    try:
        r.dump(path)
        l2 = load_result(path)
        l3 = type(r).load(path)
    finally:
        os.remove(path)
    for l in (l2, l3):
        bad = cons_check(l, spec, nshots, freq_first) + cons_same(r, l, spec)
        if bad:
            return "load", bad
    if early is not None:
        l4 = type(r).from_dict(early)  # saved before any accessor was called
        bad = cons_check(l4, spec, nshots, freq_first)
        if bad:
            return "from_dict", ["(saved before sampling) " + b for b in bad]
    return None
'''

_NS = {}
exec(compile(CONS_SRC, "<C14 consistency harness>", "exec"), _NS)  # noqa: S102
globals().update({k: v for k, v in _NS.items() if not k.startswith("__")})


def rand_spec(rng, kind):
    n = rng.choice([1, 2, 2, 3])
    dm = kind in ("plaindm", "collapsedm")
    gs = []

    def some(m):
        for _ in range(m):
            t = rng.random()
            if t < 0.5 or n == 1:
                gs.append([rng.choice(["H", "X", "S"]), rng.randrange(n)])
            elif t < 0.75:
                gs.append(["RY", rng.randrange(n), round(rng.uniform(0.3, 2.8), 3)])
            else:
                a, b = rng.sample(range(n), 2)
                gs.append(["CNOT", a, b])

    some(rng.randint(1, 4))
    if kind in ("noise", "plaindm") and (kind == "noise" or rng.random() < 0.5):
        gs.append(["PN", rng.randrange(n), rng.choice(["X", "Y", "Z"]), rng.choice([0.3, 0.5])])
    if kind in ("collapse", "collapsedm"):
        gs.append(["MC", rng.sample(range(n), rng.randint(1, min(2, n)))])
    some(rng.randint(0, 2))
    qs = rng.sample(range(n), rng.randint(1, n))
    nreg = rng.randint(1, min(2, len(qs)))
    parts = [qs] if nreg == 1 else [qs[: len(qs) // 2], qs[len(qs) // 2:]]
    flip = rng.random() < 0.5
    for i, p in enumerate(parts):
        # readout noise per register: none / symmetric through one keyword / asymmetric
        style = rng.choice(["none", "p0only", "p1only", "both", "both"]) if flip else "none"
        p0 = rng.choice([0.1, 0.25, 0.4]) if style in ("p0only", "both") else None
        p1 = rng.choice([0.0, 0.2, 0.35]) if style in ("p1only", "both") else None
        gs.append(["M", p, rng.choice([None, "reg%c" % (97 + i)]), p0, p1])
    return {"n": n, "dm": dm, "gates": gs}


def deterministic_spec(rng):
    """X gates only, 2..3 registers of one or two qubits, flip probabilities in {0, 1} given as
    p0 only / p1 only / both / none, in every register order: the outcome is known exactly."""
    nreg = rng.choice([2, 2, 3])
    widths = [rng.randint(1, 2) for _ in range(nreg)]
    n = sum(widths)
    qs = list(range(n))
    rng.shuffle(qs)
    ones = set(q for q in range(n) if rng.random() < 0.5)
    gs = [["X", q] for q in sorted(ones)]
    expect, off = "", 0
    for i, w in enumerate(widths):
        part = qs[off:off + w]
        off += w
        style = rng.choice(["none", "p0only", "p1only", "both", "both", "both"])
        a, b = rng.choice([0.0, 1.0]), rng.choice([0.0, 1.0])
        p0 = a if style in ("p0only", "both") else None
        p1 = b if style in ("p1only", "both") else None
        e0 = p0 if p0 is not None else (p1 if p1 is not None else 0.0)  # 0 -> 1
        e1 = p1 if p1 is not None else (p0 if p0 is not None else 0.0)  # 1 -> 0
        for q in part:
            bit = 1 if q in ones else 0
            flip = e1 if bit else e0
            expect += str(bit ^ int(flip))
        gs.append(["M", part, rng.choice([None, "reg%c" % (97 + i)]), p0, p1])
    if not gs or gs[0][0] != "X":
        gs.insert(0, ["X", 0]); gs.insert(0, ["X", 0])
    return {"n": n, "dm": rng.random() < 0.3, "gates": gs, "expect": expect}


def replay(spec, nshots, seed, freq_first, save_before, batch=None):
    return CONS_SRC + f"""
out = cons_run({spec!r}, {nshots}, {seed}, {freq_first}, {save_before}, {batch})
print(out)
raise SystemExit(1 if out else 0)
"""


def run_suites(ctx):
    rng = ctx.rng
    kinds = ["plain", "plaindm", "noise", "collapse", "collapsedm", "plain"]
    bad, reported = 0, set()
    total = 240 if ctx.thorough else 60
    for i in range(total):
        spec = rand_spec(rng, kinds[i % len(kinds)])
        nshots = rng.choice([1, 2, 3, 5, 8, 13, 40, 1000, 1200] if i % 10 == 0 else [1, 2, 3, 5, 8, 13, 40])
        args = (spec, nshots, rng.randrange(10 ** 6), rng.random() < 0.5, rng.random() < 0.5)
        ctx.case(("result-consistency", json.dumps(spec), nshots, args[3], args[4]))
        ctx.stat("consistency_%s" % kinds[i % len(kinds)])
        try:
            out = cons_run(*args)
        except Exception as e:  # an accessor or the reload raised
            out = ("raises", ["%s: %s" % (type(e).__name__, e)])
        if out:
            bad += 1
            stage, probs = out
            key = "result-consistency:%s" % stage
            if key not in reported:
                reported.add(key)
                ctx.fail(key, f"a result object ({stage}) of circuit {spec['gates']} (density_matrix={spec['dm']}, nshots={nshots}) is not consistent with itself / with the saved result: " + "; ".join(probs[:3]),
                         replay(*args), observed="; ".join(probs[:3]), broken=["C14_search_result_consistency"])
    # shot batches: nshots around exact multiples of a small batch size, either accessor first
    plans = []
    for j in range(40 if ctx.thorough else 14):
        B = rng.choice([2, 3, 4, 5, 7])
        nshots = rng.choice([B, 2 * B, 3 * B, B - 1, B + 1, 2 * B + 1]) or 1
        spec = rand_spec(rng, ["plain", "plaindm", "plain", "noise"][j % 4])
        plans.append((spec, nshots, rng.randrange(10 ** 6), j % 3 != 2, rng.random() < 0.3, B))
    # readout-noise maps of several registers, exact outcomes
    for j in range(60 if ctx.thorough else 24):
        plans.append((deterministic_spec(rng), rng.choice([1, 2, 3, 6]), rng.randrange(10 ** 6), rng.random() < 0.5, rng.random() < 0.3, None))
    for args in plans:
        spec, nshots = args[0], args[1]
        ctx.case(("result-consistency2", json.dumps(spec), nshots, args[3], args[4], args[5]))
        ctx.stat("consistency_batch" if args[5] else "consistency_readout_maps")
        total += 1
        try:
            out = cons_run(*args)
        except Exception as e:
            out = ("raises", ["%s: %s" % (type(e).__name__, e)])
        if out:
            bad += 1
            stage, probs = out
            key = "result-consistency:%s" % stage + (":batch" if args[5] else "")
            if key not in reported:
                reported.add(key)
                ctx.fail(key, f"a result object ({stage}) of circuit {spec['gates']} (density_matrix={spec['dm']}, nshots={nshots}, shot batch size {args[5] or 'default'}, frequencies first: {args[3]}) is not consistent: " + "; ".join(probs[:3]),
                         replay(*args), observed="; ".join(probs[:3]), broken=["C14_search_result_consistency"])
    ctx.ob("C14_search_result_consistency", bad == 0, "search",
           f"{bad} of {total} executions give a result object (fresh or reloaded) that is not consistent" if bad else "")
