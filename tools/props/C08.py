"""C08 — gate decompositions implement the same operator up to a global phase."""
from __future__ import annotations

import itertools
import math

import numpy as np

from vlib import gen, qgates
from vlib.driver import run_driver
from vlib.proofs import build_and_audit, registry
from vlib.symtrace import S, BranchOnSymbol, Untranslatable

PROP = "C08"
DRIVER = "DriverC08.lean"

PRE = (
    "from qibo import Circuit, gates; import numpy as np, math\n"
    "from qibo.backends import NumpyBackend\nnb = NumpyBackend()\n"
    "def full(g, n):\n"
    "    m = np.asarray(g.matrix(nb)); ts = list(g.target_qubits) if g.is_controlled_by else list(g.qubits)\n"
    "    cs = list(g.control_qubits) if g.is_controlled_by else []\n"
    "    N = 2**n; U = np.zeros((N, N), complex)\n"
    "    for i in range(N):\n"
    "        bi = [(i >> (n-1-q)) & 1 for q in range(n)]\n"
    "        if not all(bi[c] for c in cs): U[i, i] = 1; continue\n"
    "        li = int(''.join(str(bi[t]) for t in ts), 2)\n"
    "        for lj in range(2**len(ts)):\n"
    "            bj = list(bi)\n"
    "            for p, t in enumerate(ts): bj[t] = (lj >> (len(ts)-1-p)) & 1\n"
    "            U[i, int(''.join(map(str, bj)), 2)] = m[li, lj]\n"
    "    return U\n"
    "def prod(gs, n):\n"
    "    P = np.eye(2**n, dtype=complex)\n"
    "    for x in gs: P = full(x, n) @ P\n"
    "    return P\n"
    "def same_up_to_phase(P, R):\n"
    "    i = np.argmax(abs(R)); c = P.flat[i] / R.flat[i]\n"
    "    return abs(abs(c) - 1) < 1e-7 and np.allclose(P, c * R, atol=1e-8)\n"
)


def std_table():
    from qibo.transpiler import decompositions as D

    return D.standard_decompositions


def decomposable_infos():
    """generic classes that override `decompose` or have an entry in standard_decompositions."""
    from qibo.gates.abstract import Gate

    tab = std_table().decompositions
    out = {}
    for name, info in sorted(qgates.gate_infos().items()):
        if not info.generic:
            continue
        own = info.cls.decompose is not Gate.decompose
        if own or info.cls in tab:
            out[name] = (info, own, info.cls in tab)
    return out


def placements(k, thorough=False):
    """(label, n, qubits) for the symbolic obligations: ascending, descending, non-adjacent."""
    asc = list(range(k))
    out = [("asc", k, asc)]
    if k >= 2:
        out.append(("desc", k, asc[::-1]))
    if k == 1:
        out.append(("gap", 2, [1]))
    elif k == 2:
        out.append(("gap", 3, [2, 0]))
        out.append(("gap2", 3, [0, 2]))
    elif k == 3:
        out.append(("rot", 3, [1, 2, 0]))
        out.append(("gap", 4, [3, 0, 2]))
    return out


def obs_of(ctx, name):
    """names of the recorded obligations that belong to gate class `name`."""
    return [o["name"] for o in ctx.obligations
            if o["name"].startswith("C08_") and (f"_{name}_" in o["name"] or o["name"].endswith(f"_{name}"))]


def descr_list(gs):
    return [qgates.gate_descr(g) for g in gs]


# ---------------------------------------------------------------------------
# kernel obligations regenerated from the source (all parameter values)


def trace_obligations(ctx):
    G = qgates.gates_module()
    tab = gen.Table(PROP)
    tab.emit_single = True
    S.plan = qgates.assume_in_range_plan
    raised = []
    std = std_table()
    try:
        for name, (info, own, intab) in decomposable_infos().items():
            if name in ("X", "CNOT"):
                # X.decompose: multi-controlled recursion (Lean model + theorems); CNOT: itself
                pass
            k = info.np
            P0 = [S.par(i) for i in range(k)]
            P1 = [S.par(k + i) for i in range(k)]

            def attempt(label, fn):
                try:
                    fn()
                except (Untranslatable, BranchOnSymbol) as e:
                    ctx.ob(f"C08_{label}_{name}", False, "translator", f"{type(e).__name__}: {e}")
                except Exception as e:
                    raised.append((label, name, e))

            for pl, n, qs in placements(info.nq, ctx.thorough):
                def a(pl=pl, n=n, qs=qs):
                    g = info.make(qs, P0)
                    dec = g.decompose()
                    ref = info.make(qs, P0)
                    tab.ob_product(f"C08_dec_{name}_{pl}", k, n, [qgates.sgate_of(x) for x in dec],
                                   [qgates.sgate_of(ref)], phase=True, gate=name)
                    if intab:
                        g2 = info.make(qs, P0)
                        t = std(g2)
                        if descr_list(t) != descr_list(dec) or any(
                                repr(getattr(x, "parameters", ())) != repr(getattr(y, "parameters", ())) for x, y in zip(t, dec)):
                            tab.ob_product(f"C08_tab_{name}_{pl}", k, n, [qgates.sgate_of(x) for x in t],
                                           [qgates.sgate_of(info.make(qs, P0))], phase=True, gate=name)
                attempt(f"dec_{pl}", a)

            def lvl2():
                pl, n, qs = [p for p in placements(info.nq) if p[0] in ("gap", "rot")][0]
                g = info.make(qs, P0)
                dec2 = [h for x in g.decompose() for h in x.decompose()]
                tab.ob_product(f"C08_lvl2_{name}", k, n, [qgates.sgate_of(x) for x in dec2],
                               [qgates.sgate_of(info.make(qs, P0))], phase=True, gate=name)
            if name not in ("X", "CNOT", "TOFFOLI"):
                attempt("lvl2", lvl2)

            # EXACT mode (phase 1 for all parameter values?): the classes for which "decompose
            # the bare gate and attach the controls" would be right (QV/Props/C08d.lean)
            if name not in ("X", "CNOT"):
                def exact():
                    qs = list(range(info.nq))
                    g = info.make(qs, P0)
                    dec = std(g) if intab else g.decompose()
                    tab.ob_product(f"C08_exact_{name}", k, info.nq, [qgates.sgate_of(x) for x in dec],
                                   [qgates.sgate_of(info.make(qs, P0))], phase=False, gate=name, probe=True)
                attempt("exact", exact)

            if k:
                def upd():
                    qs = list(range(info.nq))[::-1]
                    g = info.make(qs, P0)
                    g.parameters = P1[0] if k == 1 else tuple(P1)
                    dec = g.decompose()
                    tab.ob_product(f"C08_cur_{name}", 2 * k, info.nq, [qgates.sgate_of(x) for x in dec],
                                   [qgates.sgate_of(info.make(qs, P1))], phase=True, gate=name)
                attempt("cur", upd)

        # TOFFOLI.congruent(use_toffolis=False) = TOFFOLI with the sign of |101> reversed (exact)
        for pl, n, qs in [("asc", 3, [0, 1, 2]), ("desc", 3, [2, 1, 0]), ("rot", 3, [1, 2, 0]), ("gap", 4, [3, 0, 2])]:
            try:
                t = qs[2]
                c0, c1 = G.TOFFOLI(*qs).control_qubits  # sorted by qibo
                lst = G.TOFFOLI(*qs).congruent(use_toffolis=False)
                # TOFFOLI after reversing the sign of |c0 c1 t> = |1 0 0>
                rhs = [G.X(c1), G.X(t), G.CCZ(c0, c1, t), G.X(c1), G.X(t), G.TOFFOLI(c0, c1, t)]
                tab.ob_product(f"C08_congruent_{pl}", 0, n, [qgates.sgate_of(x) for x in lst],
                               [qgates.sgate_of(x) for x in rhs], phase=False, gate="TOFFOLI.congruent")
                one = G.TOFFOLI(*qs).congruent(use_toffolis=True)
                tab.ob_product(f"C08_congruent_true_{pl}", 0, n, [qgates.sgate_of(x) for x in one],
                               [qgates.sgate_of(G.TOFFOLI(c0, c1, t))], phase=False, gate="TOFFOLI.congruent")
            except (Untranslatable, BranchOnSymbol) as e:
                ctx.ob(f"C08_congruent_{pl}", False, "translator", f"{type(e).__name__}: {e}")
            except Exception as e:
                raised.append(("congruent", "TOFFOLI", e))

        # GeneralizedRBS on small layouts (symbolic theta, phi; and the phi == 0.0 branch)
        layouts = [("1_1", 2, [0], [1]), ("1_1r", 2, [1], [0]), ("2_1", 3, [0, 1], [2]), ("1_2", 3, [2], [0, 1]), ("2_1p", 3, [2, 0], [1])]
        if ctx.thorough:
            layouts.append(("2_2", 4, [3, 0], [2, 1]))
        for lab, n, qi, qo in layouts:
            for branch in ("phi", "phi0"):
                nm = f"C08_grbs_{lab}_{branch}"
                try:
                    if branch == "phi":
                        g = G.GeneralizedRBS(qi, qo, S.par(0), S.par(1))
                        ref = G.GeneralizedRBS(qi, qo, S.par(0), S.par(1))
                        npar = 2
                    else:
                        g = G.GeneralizedRBS(qi, qo, S.par(0), 0.0)
                        ref = G.GeneralizedRBS(qi, qo, S.par(0), 0.0)
                        npar = 1
                    dec = g.decompose()
                    tab.ob_product(nm, npar, n, [qgates.sgate_of(x) for x in dec], [qgates.sgate_of(ref)],
                                   phase=True, gate="GeneralizedRBS")
                except (Untranslatable, BranchOnSymbol) as e:
                    ctx.ob(nm, False, "translator", f"{type(e).__name__}: {e}")
                except Exception as e:
                    raised.append((f"grbs_{lab}", "GeneralizedRBS", e))
    finally:
        S.plan = None
    # end to end (generated, because the class list is read from the source): a circuit built
    # from instances of the classes whose decomposition obligation holds equals its decomposed
    # circuit up to one unit-modulus scalar — QV.Props.C08.T08_decompose_of_classes
    tab.class_table("C08_classes", "QV.Ob.SingleStmt",
                    [(n, f"{n}_single") for n, _, m in tab.obs if m.get("run") and n.startswith(("C08_dec_", "C08_tab_", "C08_cur_", "C08_grbs_"))])
    tab.corollary(
        "C08_decompose_circuit",
        "∀ (is : List QV.Props.C05.Inst),\n"
        "    (∀ i ∈ is, i.o ∈ C08_classes ∧ (∀ q, i.σ (i.τ q) = q) ∧ (∀ q, i.τ (i.σ q) = q)) →\n"
        "    ∃ c : ℂ, ‖c‖ = 1 ∧ ∀ (ψ : Lab → ℂ) (x : Lab),\n"
        "      runCircuit (is.flatMap QV.Props.C08.decInst) ψ x = c * runCircuit (is.map QV.Props.C08.refInst) ψ x",
        "QV.Props.C08.T08_decompose_of_classes C08_classes C08_classes_ok",
        needs=["C08_classes_ok"], imports=["QV.Props.C08c"])
    # glue (QV/Props/C08d.lean, C08e.lean): attach-controls is exact for the classes whose exact
    # obligation holds; Circuit.decompose(*free) over the generated class table
    exact_names = [n for n, _, m in tab.obs if m.get("probe") and m.get("run")]
    for n in exact_names:
        tab.corollary(f"{n}_both", f"QV.Props.C08.ExactClass o_{n}", f"⟨{n}_single, rfl⟩", needs=[f"{n}_single"], imports=["QV.Props.C08d"])
    tab.class_table("C08_exact_classes", "QV.Props.C08.ExactClass", [(n, f"{n}_both") for n in exact_names])
    tab.corollary(
        "C08_attach_controls_exact",
        "∀ o ∈ C08_exact_classes, ∀ (θ : Nat → ℝ) (σ τ : Nat → Nat), (∀ q, σ (τ q) = q) → (∀ q, τ (σ q) = q) →\n"
        "    ∀ cs : List Nat, QV.Props.C08.ControlsOff cs (relabelCircuit σ (o.lsRun θ)) → ∀ (ψ : Lab → ℂ) (x : Lab),\n"
        "      runCircuit ((relabelCircuit σ (o.lsRun θ)).map (MGate.ctrl cs)) ψ x\n"
        "        = applyGate (((o.refGate.toMGate θ).relabel σ).ctrl cs) ψ x",
        "fun o ho θ σ τ h1 h2 cs hd ψ x =>\n"
        "    QV.Props.C08.T08_attach_of_exact_classes C08_exact_classes C08_exact_classes_ok o ho θ σ τ h1 h2 cs hd ψ x",
        needs=["C08_exact_classes_ok"], imports=["QV.Props.C08d"])
    tab.corollary(
        "C08_decompose_circuit_free",
        "∀ (ut : Bool) (free : List Nat) (queue : List QV.Props.C08.QEntry),\n"
        "    (∀ e ∈ queue, e.Admissible C08_classes free) →\n"
        "    ∃ out, QV.Props.C08.decomposeQueue ut free queue = some out ∧ ∃ c : ℂ, ‖c‖ = 1 ∧ ∀ (ψ : Lab → ℂ) (x : Lab),\n"
        "      runCircuit out ψ x = c * runCircuit (queue.map QV.Props.C08.QEntry.ref) ψ x",
        "QV.Props.C08.T08_circuit_free C08_classes C08_classes_ok",
        needs=["C08_classes_ok"], imports=["QV.Props.C08e"])
    status, passed = tab.emit()
    ctx.stats["classes_in_generated_decompose_circuit"] = len([c for c in tab.cor_names if c.endswith("_single") and c.startswith(("C08_dec_", "C08_tab_", "C08_cur_", "C08_grbs_"))])
    exact_yes, exact_no = [], []
    for name, expr, meta in tab.obs:
        ok, sup = status.get(name, (False, False))
        if meta.get("probe"):
            # a census, not a requirement: a decomposition may hold up to a phase only
            (exact_yes if ok else exact_no).append(name[len("C08_exact_"):])
            if ok:
                ctx.ob(name, True, "generated-kernel", "")
                ctx.case(("table", name))
            continue
        ctx.ob(name, ok, "generated-kernel", "" if ok else ("outside the symbolic fragment" if not sup else "stage-1 evaluation is false"))
        ctx.case(("table", name))
    ctx.stats["classes_with_phase_exactly_one_kernel"] = sorted(exact_yes)
    ctx.stats["classes_with_phase_not_proved_one"] = sorted(exact_no)
    ctx.exact_classes = set(exact_yes)
    ctx.sample({"obligation": "C08_dec_CRY_gap", "meaning": "CRY(2,0,θ).decompose() run on a symbolic θ: ∀θ, product of the returned gates on 3 qubits = e^{iα}·CRY(2,0,θ), decided by `decide +kernel`"})
    return raised


# ---------------------------------------------------------------------------
# numeric search on the real code

GRID = [0.0, math.pi / 2, -math.pi / 2, math.pi, -math.pi, 2 * math.pi, math.pi / 4, 3 * math.pi / 2, 0.3, -1.1, 2.0, -2.7]


def param_points(ctx, k, count):
    if k == 0:
        return [[]]
    pts = []
    if k == 1:
        pts = [[v] for v in GRID]
    else:
        pts.append([0.0] * k)
        pts.append([math.pi] * k)
        pts.append([-math.pi / 2] * k)
    while len(pts) < count:
        pts.append([ctx.rng.choice(GRID) if ctx.rng.random() < 0.5 else round(ctx.rng.uniform(-6.5, 6.5), 4) for _ in range(k)])
    return pts


def product(gs, n):
    U = np.eye(2**n, dtype=complex)
    for x in gs:
        U = qgates.gate_full_matrix(x, n) @ U
    return U


def gate_expr(name, qs, vals, cs=()):
    s = f"gates.{name}(*{list(qs)}, *{list(vals)})"
    if cs:
        s += f".controlled_by(*{list(cs)})"
    return s


def class_search(ctx, raised):
    """every class with a decomposition × parameter grid × every placement in n ≤ 4."""
    for label, name, e in raised:
        ctx.fail(f"raises:{label}:{name}", f"tracing {label} of {name} raises {type(e).__name__}: {e}",
                 PRE + f"# symbolic run of {label} for gates.{name} raised {type(e).__name__}: {e}\nraise SystemExit(1)",
                 observed=f"{type(e).__name__}: {e}", broken=[f"C08_{label}_{name}"])
    std = std_table()
    nmax = 4
    for name, (info, own, intab) in decomposable_infos().items():
        k, nq = info.np, info.nq
        pts = param_points(ctx, k, (24 if ctx.thorough else 10) if k else 1)
        all_pl = [(n, list(qs)) for n in range(nq, nmax + 1) for qs in itertools.permutations(range(n), nq)]
        for vi, vals in enumerate(pts):
            # every placement for the first points, a seeded sample afterwards
            pls = all_pl if (vi < 3 or ctx.thorough) else ctx.rng.sample(all_pl, min(len(all_pl), 6))
            for n, qs in pls:
                try:
                    g = info.make(qs, vals)
                except Exception:
                    ctx.stat("ctor_reject")
                    continue
                ctx.case(("dec", name, n, tuple(qs), tuple(round(v, 4) for v in vals)))
                R = qgates.gate_full_matrix(g, n)
                q_before = list(g.qubits)
                calls = [("decompose", lambda g=g: g.decompose(), "g.decompose()")]
                if intab:
                    calls.append(("table", lambda g=g: std(g), "standard_decompositions(g)"))
                for kind, fn, src in calls:
                    key = f"{kind}:{name}"
                    code = (PRE + "from qibo.transpiler.decompositions import standard_decompositions\n"
                            f"g = {gate_expr(name, qs, vals)}\nR = full(g, {n})\ndec = {src}\n"
                            f"assert same_up_to_phase(prod(dec, {n}), R)\n"
                            f"assert np.allclose(full(g, {n}), R)  # the gate itself is unchanged\n")
                    try:
                        dec = fn()
                        Pm = product(dec, n)
                    except Exception as e:
                        ctx.fail(f"raises:{key}", f"{src} of {gate_expr(name, qs, vals)} raises {type(e).__name__}: {e}", code,
                                 observed=f"{type(e).__name__}: {e}", broken=obs_of(ctx, name))
                        continue
                    ok = qgates.phase_equal(Pm, R)
                    same = np.allclose(qgates.gate_full_matrix(g, n), R, atol=1e-12) and list(g.qubits) == q_before
                    if not (ok and same):
                        ctx.fail(key, f"{src} of {gate_expr(name, qs, vals)} on {n} qubits is not the gate's operator up to a global phase"
                                 + ("" if same else " (the gate object was modified by the call)"), code,
                                 expected=str(np.round(R, 5).tolist()), observed=str(np.round(Pm, 5).tolist()),
                                 broken=obs_of(ctx, name))
            # second call and parameter update, on a non-ascending placement
            if k and nq <= 3:
                qs = list(range(nq))[::-1]
                v1 = [ctx.rng.choice(GRID) + 0.1 for _ in range(k)]
                try:
                    g = info.make(qs, vals)
                    g.decompose()
                    g.parameters = v1[0] if k == 1 else tuple(v1)
                    d2 = g.decompose()
                    R = qgates.gate_full_matrix(info.make(qs, v1), nq)
                    if not (qgates.phase_equal(product(d2, nq), R) and qgates.phase_equal(product(g.decompose(), nq), R)):
                        ctx.fail(f"cur_decompose:{name}", f"decompose after a parameter update of {name} does not use the current parameters",
                                 PRE + f"g = {gate_expr(name, qs, vals)}\ng.decompose()\ng.parameters = {v1[0] if k == 1 else tuple(v1)}\n"
                                 f"R = full({gate_expr(name, qs, v1)}, {nq})\nassert same_up_to_phase(prod(g.decompose(), {nq}), R)\n",
                                 broken=[f"C08_cur_{name}"])
                except Exception as e:
                    ctx.fail(f"raises:cur_decompose:{name}", f"decompose after update raises {type(e).__name__}: {e}",
                             PRE + f"g = {gate_expr(name, qs, vals)}\ng.parameters = {v1[0] if k == 1 else tuple(v1)}\ng.decompose()\n",
                             broken=[f"C08_cur_{name}"])


def controlled_search(ctx):
    """`controlled_by` gates of every generic class: the decomposition must keep the controls
    (DESIGN §4 F11) — product = controlled operator up to a global phase."""
    infos = {k: v for k, v in qgates.gate_infos().items() if v.generic}
    bad = 0
    for name, info in sorted(infos.items()):
        try:
            probe = info.make(list(range(info.nq)), [0.4] * info.np)
        except Exception:
            continue
        if probe.control_qubits and name not in ("CNOT", "TOFFOLI"):
            continue  # classes with built-in controls refuse controlled_by
        if name in ("CNOT", "TOFFOLI"):
            continue
        for rep in range(3 if ctx.thorough else 2):
            nc = 1 + rep % 2
            n = min(info.nq + nc + (rep % 2), 5)
            lab = ctx.rng.sample(range(n), info.nq + nc)
            qs, cs = lab[: info.nq], lab[info.nq:]
            vals = [ctx.rng.choice(GRID[:8]) if ctx.rng.random() < 0.4 else round(ctx.rng.uniform(-3, 3), 3) for _ in range(info.np)]
            code = PRE + f"g = {gate_expr(name, qs, vals, cs)}\nR = full(g, {n})\nassert same_up_to_phase(prod(g.decompose(), {n}), R)\n"
            try:
                g = info.make(qs, vals)
            except Exception:
                ctx.stat("ctor_reject")
                continue
            try:
                g = g.controlled_by(*cs)
                R = qgates.gate_full_matrix(g, n)
                dec = g.decompose() if name != "X" else g.decompose(*[q for q in range(n) if q not in lab])
                Pm = product(dec, n)
            except NotImplementedError:
                ctx.stat("documented_refusal")
                continue
            except Exception as e:
                bad += 1
                ctx.fail(f"raises:decompose_cb:{name}", f"decompose of {gate_expr(name, qs, vals, cs)} raises {type(e).__name__}: {e}", code,
                         observed=f"{type(e).__name__}: {e}", broken=["C08_search_controlled"])
                continue
            ctx.case(("cb", name, n, tuple(qs), tuple(cs)))
            if not qgates.phase_equal(Pm, R):
                bad += 1
                ctx.fail(f"decompose_cb:{name}", f"decompose of {gate_expr(name, qs, vals, cs)} is not the controlled operator up to a global phase "
                         f"(returned {descr_list(dec)})", code, expected=str(np.round(R, 4).tolist()), observed=str(np.round(Pm, 4).tolist()),
                         broken=["C08_search_controlled"])
    ctx.ob("C08_search_controlled", bad == 0, "search", f"{bad} failing controlled gates" if bad else "")


# -- multi-controlled X -------------------------------------------------------


def mcx_cases(ctx):
    """(m, controls, target, free, n) : all m ≤ M, |free| 0..m(+1), identity and permuted labels."""
    M = 8 if ctx.thorough else 7
    out = []
    for m in range(0, M + 1):
        for f in range(0, m + 2):
            n = m + 1 + f
            if n > (17 if ctx.thorough else 15):
                continue
            labs = [list(range(n))]
            p = list(range(n)); ctx.rng.shuffle(p); labs.append(p)
            if ctx.thorough or m <= 5:
                labs.append(list(range(n))[::-1])
            for lab in labs:
                # a larger register: labels drawn from range(n + 2) half of the time
                if lab is p and ctx.rng.random() < 0.5:
                    lab = ctx.rng.sample(range(n + 2), n)
                out.append((m, lab[:m], lab[m], lab[m + 1:], max(lab) + 1))
    return out


def gate_tok(g):
    nm = g.name
    if nm in ("x", "cx", "ccx") and not (g.is_controlled_by and nm == "x" and len(g.control_qubits) > 0):
        return f"{nm} " + " ".join(str(q) for q in g.qubits)
    if nm == "ry" and not g.is_controlled_by:
        th = float(g.parameters[0]) / (math.pi / 4)
        if abs(th - round(th)) < 1e-12:
            return f"ry {g.qubits[0]} {round(th)}"
        return f"ry {g.qubits[0]} ?{g.parameters[0]!r}"
    return "?" + qgates.gate_descr(g)


def to_cgates(dec):
    """real gate list → driver encoding of classical gates; the 7-gate block returned by
    TOFFOLI.congruent(False) is recognised as one `rccx`.  None if something else occurs."""
    toks = [gate_tok(g) for g in dec]
    out = []
    i = 0
    while i < len(toks):
        t = toks[i].split()
        if t[0] == "x" and len(t) == 2:
            out.append(f"0 {t[1]}"); i += 1
        elif t[0] == "cx" and len(t) == 3:
            out.append(f"1 {t[1]} {t[2]}"); i += 1
        elif t[0] == "ccx" and len(t) == 4:
            out.append(f"2 {t[1]} {t[2]} {t[3]}"); i += 1
        elif t[0] == "ry" and i + 6 < len(toks):
            blk = [x.split() for x in toks[i:i + 7]]
            tq = t[1]
            try:
                ok = (blk[0] == ["ry", tq, "-1"] and blk[2] == ["ry", tq, "-1"] and blk[4] == ["ry", tq, "1"] and blk[6] == ["ry", tq, "1"]
                      and blk[1][0] == "cx" and blk[3][0] == "cx" and blk[5] == blk[1] and blk[1][2] == tq and blk[3][2] == tq)
            except IndexError:
                ok = False
            if not ok:
                return None
            out.append(f"3 {blk[3][1]} {blk[1][1]} {tq}"); i += 7
        else:
            return None
    return out


_NB = None


def real_unitary(gs, n):
    """full matrix of a gate list through the REAL engine: the identity matrix is a state of
    2n qubits on whose first n qubits the gates are applied with backend.apply_gate."""
    nb = qgates.np_backend()
    st = np.eye(2**n, dtype=complex).reshape(-1)
    for g in gs:
        st = nb.apply_gate(g, st, 2 * n)
    return np.asarray(st).reshape(2**n, 2**n)


def mcx_perm(n, cs, t):
    idx = np.arange(2**n)
    allc = np.ones(2**n, dtype=bool)
    for c in cs:
        allc &= ((idx >> (n - 1 - c)) & 1).astype(bool)
    return np.where(allc, idx ^ (1 << (n - 1 - t)), idx)


def mcx_search(ctx):
    """X(t).controlled_by(c…).decompose(*free, use_toffolis): exact unitary against
    controlled-X ⊗ identity-on-free through the real engine; gate lists against the Lean model;
    the classical action of the REAL list through the Lean semantics."""
    from qibo import gates

    nb = qgates.np_backend()
    lines, meta = [], []
    bad_corr = bad_act = bad_search = 0
    full_max = 10 if ctx.thorough else 9
    for (m, cs, t, fs, n) in mcx_cases(ctx):
        for ut in (True, False):
            key = f"mcx:{'toffoli' if ut else 'congruent'}"
            code = (PRE + f"n = {n}; cs = {cs}; t = {t}; free = {fs}\n"
                    f"dec = gates.X(t).controlled_by(*cs).decompose(*free, use_toffolis={ut})\n"
                    "c = Circuit(n); c.add(dec)\nidx = np.arange(2**n); allc = np.ones(2**n, bool)\n"
                    "for q in cs: allc &= ((idx >> (n-1-q)) & 1).astype(bool)\nperm = np.where(allc, idx ^ (1 << (n-1-t)), idx)\n"
                    "rng = np.random.default_rng(0)\n"
                    "for i in ([int(x) for x in rng.integers(0, 2**n, 40)] + [2**n - 1, int(sum(1 << (n-1-q) for q in cs))]):\n"
                    "    out = nb.execute_circuit(c, initial_state=np.eye(2**n, dtype=complex)[i]).state()\n"
                    "    assert abs(out[perm[i]] - 1) < 1e-9, (i, int(np.argmax(abs(out))), out[np.argmax(abs(out))])\n")
            try:
                g = gates.X(t).controlled_by(*cs)
                dec = g.decompose(*fs, use_toffolis=ut)
                real = " | ".join(gate_tok(x) for x in dec)
            except NotImplementedError:
                real, dec = "NotImplementedError", None
                ctx.stat("mcx_not_implemented")
            except ValueError:
                real, dec = "ValueError", None
            except Exception as e:
                bad_search += 1
                ctx.fail(f"raises:{key}", f"X.decompose raises {type(e).__name__}: {e} for m={m}, free={fs}", code,
                         observed=f"{type(e).__name__}: {e}", broken=["C08_search_mcx"])
                continue
            scs = sorted(cs)  # the gate object's control_qubits
            lines.append(f"XDEC {int(ut)} {m} " + " ".join(map(str, scs)) + f" {t} {len(fs)} " + " ".join(map(str, fs)))
            meta.append(("XDEC", m, cs, t, fs, ut, real, code, key))
            ctx.case(("mcx", m, len(fs), tuple(cs), t, ut))
            ctx.stat(f"mcx_m{m}")
            if dec is None:
                if m < 3 or fs:
                    bad_search += 1
                    ctx.fail(key, f"X.decompose refuses m={m} controls with free={fs} ({real})", code, observed=real, broken=["C08_search_mcx"])
                continue
            # direct search: exact operator
            perm = mcx_perm(n, cs, t)
            if n <= full_max:
                U = real_unitary(dec, n)
                E = np.zeros((2**n, 2**n)); E[perm, np.arange(2**n)] = 1
                ok = np.array_equal(U, E) if ut else np.allclose(U, E, atol=1e-9)
                where = None
                if not ok:
                    j = int(np.argmax(np.abs(U - E).max(axis=0)))
                    where = (j, int(perm[j]), int(np.argmax(np.abs(U[:, j]))), complex(U[np.argmax(np.abs(U[:, j])), j]))
                ctx.stat("mcx_full_unitary")
            else:
                ok, where = True, None
                base = sum(1 << (n - 1 - q) for q in cs)
                picks = [base, 2**n - 1, base | (1 << (n - 1 - t))]
                picks += [base | sum((ctx.rng.random() < 0.5) << (n - 1 - q) for q in fs + [t]) for _ in range(6)]
                picks += [ctx.rng.randrange(2**n) for _ in range(6)]
                for i in picks:
                    st = np.zeros(2**n, dtype=complex); st[i] = 1
                    for x in dec:
                        st = nb.apply_gate(x, st, n)
                    if abs(st[perm[i]] - 1) > 1e-9:
                        ok, where = False, (i, int(perm[i]), int(np.argmax(np.abs(st))), complex(st[np.argmax(np.abs(st))]))
                        break
                ctx.stat("mcx_sampled_states")
            if not ok:
                bad_search += 1
                ctx.fail(key, f"X({t}).controlled_by{tuple(cs)}.decompose(*{fs}, use_toffolis={ut}) is not controlled-X ⊗ identity: "
                         f"basis state {where[0]} should go to {where[1]} but goes to {where[2]} with amplitude {where[3]}", code,
                         expected=f"|{where[1]}>", observed=f"{where[3]}|{where[2]}>", broken=["C08_search_mcx", "C08_corr_mcx_gatelist", "C08_corr_mcx_action", "C08_corr_circuit"])
            # the REAL list through the Lean semantics (runS): all basis states for small n
            enc = to_cgates(dec)
            if enc is not None:
                if n <= (11 if ctx.thorough else 9):
                    sel = "0"
                else:
                    base = sum(1 << (n - 1 - q) for q in cs)
                    pk = [base, 2**n - 1] + [base | sum((ctx.rng.random() < 0.5) << (n - 1 - q) for q in fs + [t]) for _ in range(10)] \
                        + [ctx.rng.randrange(2**n) for _ in range(8)]
                    sel = f"{len(pk)} " + " ".join(map(str, pk))
                lines.append(f"ACT {n} {len(enc)} " + " ".join(enc) + f" {m} " + " ".join(map(str, cs)) + f" {t} {sel}")
                meta.append(("ACT", m, cs, t, fs, ut, ok, code, key))
            else:
                ctx.stat("mcx_list_not_classical")
    # ValueError class: free overlapping the gate's qubits, duplicated free qubits
    for (cs, t, fs) in [([1, 2, 3], 0, [3]), ([1, 2, 3], 0, [0, 4]), ([1, 2], 0, [2]), ([4, 2, 6], 1, [0, 6]), ([], 3, [3]), ([], 3, [1])]:
        for ut in (True, False):
            try:
                dec = gates.X(t).controlled_by(*cs).decompose(*fs, use_toffolis=ut)
                real = " | ".join(gate_tok(x) for x in dec)
            except ValueError:
                real = "ValueError"
            except NotImplementedError:
                real = "NotImplementedError"
            except Exception as e:
                real = type(e).__name__
            lines.append(f"XDEC {int(ut)} {len(cs)} " + " ".join(map(str, sorted(cs))) + f" {t} {len(fs)} " + " ".join(map(str, fs)))
            meta.append(("XDEC", len(cs), cs, t, fs, ut, real, "", "mcx:valueerror"))
    res = run_driver(lines, driver=DRIVER)
    first = None
    for (kind, m, cs, t, fs, ut, real, code, key), ans in zip(meta, res):
        if kind == "XDEC":
            if ans != real:
                bad_corr += 1
                first = first or f"m={m} cs={cs} t={t} free={fs} use_toffolis={ut}: model `{ans[:120]}` real `{real[:120]}`"
        else:
            if not ans.startswith("ok"):
                bad_act += 1
                first = first or f"classical action of the real list m={m} cs={cs} t={t} free={fs} use_toffolis={ut}: {ans}"
                if real:  # python's own comparison passed but the Lean semantics disagree
                    ctx.fail(key, f"the gate list of X.decompose (m={m}, free={fs}, use_toffolis={ut}) does not act as controlled-X ⊗ identity ({ans})",
                             code, observed=ans, broken=["C08_corr_mcx_action"])
    ctx.sample({"suite": "mcx", "case": "X(0).controlled_by(1,2,3,4).decompose(5)", "model": "ccx 3 4 5 | ccx 1 2 4 | ccx 3 4 5 | ccx 1 2 4 | ccx 4 5 0 (twice)"})
    ctx.ob("C08_corr_mcx_gatelist", bad_corr == 0, "correspondence", first or "")
    ctx.ob("C08_corr_mcx_action", bad_act == 0, "correspondence", first or "")
    ctx.ob("C08_search_mcx", bad_search == 0, "search", f"{bad_search} failing cases" if bad_search else "")
    ctx.stat("mcx_driver_lines", len(lines))


def congruent_search(ctx):
    from qibo import gates

    bad = 0
    for n in (3, 4):
        for qs in itertools.permutations(range(n), 3):
            t = qs[2]
            c0, c1 = sorted(qs[:2])
            ctx.case(("congruent", n, qs))
            T = qgates.gate_full_matrix(gates.TOFFOLI(*qs), n)
            D = np.eye(2**n)
            for i in range(2**n):
                b = [(i >> (n - 1 - q)) & 1 for q in range(n)]
                if b[c0] == 1 and b[c1] == 0 and b[t] == 0:
                    D[i, i] = -1
            for ut, E in ((True, T), (False, T @ D)):
                lst = gates.TOFFOLI(*qs).congruent(use_toffolis=ut)
                Pm = product(lst, n)
                if not np.allclose(Pm, E, atol=1e-9):
                    bad += 1
                    ctx.fail("congruent", f"TOFFOLI{qs}.congruent(use_toffolis={ut}) is not TOFFOLI" + ("" if ut else " with the sign of |c0 c1 t> = |100> reversed"),
                             PRE + f"qs = {qs}; t = qs[2]; c0, c1 = sorted(qs[:2]); n = {n}\nT = full(gates.TOFFOLI(*qs), n); D = np.eye(2**n)\n"
                             "for i in range(2**n):\n    b = [(i >> (n-1-q)) & 1 for q in range(n)]\n    if b[c0] == 1 and b[c1] == 0 and b[t] == 0: D[i, i] = -1\n"
                             f"E = T if {ut} else T @ D\nassert np.allclose(prod(gates.TOFFOLI(*qs).congruent(use_toffolis={ut}), n), E, atol=1e-9)\n",
                             broken=obs_of(ctx, "congruent") + ["C08_search_congruent", "C08_corr_mcx_action"])
    ctx.ob("C08_search_congruent", bad == 0, "search", "")


def grbs_search(ctx):
    """GeneralizedRBS.decompose (`_decomposition_generalized_RBS`) for m, m' ≤ 3, shuffled
    placements, parameter grid including phi = 0."""
    from qibo import gates

    bad = 0
    sizes = [(a, b) for a in (1, 2, 3) for b in (1, 2, 3) if a + b <= (5 if ctx.thorough else 4)]
    for (a, b) in sizes:
        for rep in range(6 if ctx.thorough else 3):
            n = a + b + (rep % 2)
            lab = ctx.rng.sample(range(n), a + b) if rep else list(range(a + b))
            qi, qo = lab[:a], lab[a:]
            th = ctx.rng.choice(GRID) if rep % 2 else round(ctx.rng.uniform(-3, 3), 3)
            ph = [0.0, ctx.rng.choice(GRID), round(ctx.rng.uniform(-3, 3), 3)][rep % 3]
            code = PRE + f"g = gates.GeneralizedRBS({qi}, {qo}, {th}, {ph})\nassert same_up_to_phase(prod(g.decompose(), {n}), full(g, {n}))\n"
            ctx.case(("grbs", a, b, tuple(lab), th, ph))
            try:
                g = gates.GeneralizedRBS(qi, qo, th, ph)
                R = qgates.gate_full_matrix(g, n)
                ok = qgates.phase_equal(product(g.decompose(), n), R)
            except Exception as e:
                bad += 1
                ctx.fail("raises:decompose:GeneralizedRBS", f"GeneralizedRBS({qi},{qo},{th},{ph}).decompose() raises {type(e).__name__}: {e}", code,
                         observed=f"{type(e).__name__}: {e}", broken=["C08_search_grbs"])
                continue
            if not ok:
                bad += 1
                ctx.fail("decompose:GeneralizedRBS", f"GeneralizedRBS({qi},{qo},{th},{ph}).decompose() is not the gate's operator up to a global phase",
                         code, broken=obs_of(ctx, "grbs") + ["C08_search_grbs"])
    ctx.ob("C08_search_grbs", bad == 0, "search", "")


def circuit_search(ctx):
    """Circuit.decompose(*free) on random circuits mixing decomposable gates, controlled_by
    gates and multi-controlled X gates; gate lists of the MCX part against the Lean model."""
    from qibo import Circuit, gates

    dinfos = decomposable_infos()
    ginfos = {k: v for k, v in qgates.gate_infos().items() if v.generic}
    names_d = sorted(k for k in dinfos if k not in ("X",))
    names_g = sorted(ginfos)
    rng = ctx.rng
    bad = 0
    lines, meta = [], []
    for it in range(40 if ctx.thorough else 16):
        n = rng.randint(3, 6)
        nfree = rng.randint(0, 2)
        free = rng.sample(range(n), nfree)
        work = [q for q in range(n) if q not in free]
        recipe = []
        for _ in range(rng.randint(1, 6)):
            r = rng.random()
            if r < 0.3 and len(work) >= 2:
                m = rng.randint(1, len(work) - 1)
                if m >= 3 and not free:
                    m = 2
                lab = rng.sample(work, m + 1)
                recipe.append(("X", [lab[m]], [], lab[:m]))
            else:
                nm = rng.choice(names_d if r < 0.75 else names_g)
                info = ginfos[nm]
                if info.nq > len(work):
                    continue
                qs = rng.sample(work, info.nq)
                vals = [rng.choice(GRID) if rng.random() < 0.4 else round(rng.uniform(-3, 3), 3) for _ in range(info.np)]
                cs = []
                rest = [q for q in work if q not in qs]
                try:
                    has_c = bool(info.make(qs, vals).control_qubits)
                except Exception:
                    continue
                if rest and not has_c and rng.random() < 0.3:
                    cs = rng.sample(rest, 1)
                recipe.append((nm, qs, vals, cs))
        if not recipe:
            continue
        build = f"c = Circuit({n})\n" + "".join(f"c.add({gate_expr(nm, qs, vals, cs)})\n" for nm, qs, vals, cs in recipe)
        code = (PRE + build + f"free = {free}\nU = prod(c.queue, {n})\nd = c.decompose(*free)\n"
                f"assert same_up_to_phase(prod(d.queue, {n}), U)\nassert np.allclose(prod(c.queue, {n}), U)\n"
                f"assert same_up_to_phase(prod(c.decompose(*free).queue, {n}), U)\n")
        try:
            c = Circuit(n)
            for nm, qs, vals, cs in recipe:
                g = ginfos[nm].make(qs, vals)
                if cs:
                    g = g.controlled_by(*cs)
                c.add(g)
            U = product(c.queue, n)
            before = descr_list(c.queue)
            d = c.decompose(*free)
            V = product(d.queue, n)
            ok = qgates.phase_equal(V, U) and d.nqubits == n
            ok2 = descr_list(c.queue) == before and np.allclose(product(c.queue, n), U, atol=1e-12)
            ok3 = qgates.phase_equal(product(c.decompose(*free).queue, n), U)
            # concatenation of the per-gate decompositions
            cat = []
            for g in c.queue:
                cat += descr_list(g.decompose(*free))
            ok4 = cat == descr_list(d.queue)
        except Exception as e:
            bad += 1
            ctx.fail(f"circuit_decompose:raises:{type(e).__name__}", f"Circuit.decompose(*{free}) raises {type(e).__name__}: {e}", code,
                     observed=f"{type(e).__name__}: {e}", broken=["C08_search_circuit"])
            continue
        ctx.case(("circuit", n, tuple(free), tuple((r[0], tuple(r[1]), tuple(r[3])) for r in recipe)))
        if not (ok and ok2 and ok3 and ok4):
            bad += 1
            what = ("is not the circuit's operator up to a global phase" if not ok else
                    "modified the original circuit" if not ok2 else "differs on the second call" if not ok3 else
                    "is not the concatenation of the gates' decompositions")
            ctx.fail("circuit_decompose", f"Circuit.decompose(*{free}) {what}", code, broken=["C08_search_circuit"])
    # correspondence with the Lean model of Circuit.decompose: queues of multi-controlled X
    # gates and one-element ("opaque") gates, tagged by their angle
    for it in range(30 if ctx.thorough else 12):
        n = rng.randint(5, 9)
        free = rng.sample(range(n), rng.randint(1, 3))
        work = [q for q in range(n) if q not in free]
        c = Circuit(n)
        toks = []
        for gi in range(rng.randint(2, 5)):
            if rng.random() < 0.7:
                m = rng.randint(0, min(len(work) - 1, 6))
                lab = rng.sample(work, m + 1)
                c.add(gates.X(lab[m]).controlled_by(*lab[:m]))
                toks.append(f"1 {m} " + " ".join(map(str, sorted(lab[:m]))) + f" {lab[m]}")
            else:
                c.add(gates.RX(rng.choice(work), float(gi + 1)))
                toks.append(f"0 {gi + 1}")
        try:
            d = c.decompose(*free)
            real_line = " | ".join((f"g{round(x.parameters[0])}" if x.name == "rx" else gate_tok(x)) for x in d.queue)
        except Exception as e:
            real_line = type(e).__name__
        lines.append(f"CDEC 1 {len(free)} " + " ".join(map(str, free)) + f" {len(toks)} " + " ".join(toks))
        meta.append((real_line, [(g.name, g.qubits) for g in c.queue], free))
        ctx.case(("cdec", n, tuple(free), tuple(toks)))
    res = run_driver(lines, driver=DRIVER)
    mism = [(m, a) for m, a in zip(meta, res) if m[0] != a]
    ctx.ob("C08_corr_circuit", not mism, "correspondence",
           "" if not mism else f"queue {mism[0][0][1]} free={mism[0][0][2]}: real `{mism[0][0][0][:150]}` model `{mism[0][1][:150]}`")
    ctx.stat("circuit_driver_lines", len(lines))
    ctx.ob("C08_search_circuit", bad == 0, "search", f"{bad} failing circuits" if bad else "")


# -- independence of the returned gates -----------------------------------------

IND_HELP = (
    "from qibo.gates.abstract import ParametrizedGate\n"
    "def flat(gs):\n"
    "    out = []\n"
    "    for x in gs:\n"
    "        if isinstance(x, (list, tuple)): out += flat(x)\n"
    "        else:\n"
    "            out.append(x)\n"
    "            if hasattr(x, 'gates') and not isinstance(x, Circuit): out += flat(list(x.gates))\n"
    "    return out\n"
    "def ids(gs): return {id(x) for x in flat(gs)}\n"
    "def snap(gs): return [(id(x), x.name, tuple(x.qubits), repr(tuple(getattr(x, 'parameters', ())))) for x in flat(gs)]\n"
    "def mutate(gs, n):\n"
    "    k = 0\n"
    "    for x in flat(gs):\n"
    "        if isinstance(x, ParametrizedGate):\n"
    "            try:\n"
    "                m = len(x.parameters)\n"
    "                x.parameters = (0.37 + 0.1 * k) if m == 1 else tuple(0.37 + 0.1 * (k + j) for j in range(m))\n"
    "                k += 1\n"
    "            except Exception: pass\n"
    "    try:\n"
    "        c = Circuit(n); c.add(list(gs)); p = c.get_parameters(format='flatlist')\n"
    "        if len(p): c.set_parameters([0.21 + 0.05 * i for i in range(len(p))])\n"
    "    except Exception: pass\n"
)
_IND = {}


def _ind():
    """the helper functions of the replay snippets, executed once so that the check and the
    replay run literally the same code."""
    if not _IND:
        exec(PRE + IND_HELP, _IND)
    return _IND


def independence_search(ctx):
    """a decomposition must not hand out gate objects it will hand out again: call once, modify
    the returned gates (`.parameters`, `Circuit.set_parameters`), call again on a fresh equal
    gate and on the same gate object — the later results must be correct, share no gate object
    with the first result, and must leave the first list as the user left it."""
    from qibo import Circuit, gates

    H = _ind()
    flat, ids, snap, mutate = H["flat"], H["ids"], H["snap"], H["mutate"]
    std = std_table()
    bad = 0
    rng = ctx.rng

    def scenario(what, setup, mk, call, n, expected, exact, others=()):
        """setup: python source defining `mk` (fresh equal input), `call`, `n`, `E` (expected
        operator) and `exact`; mk/call/expected: the same objects for the in-process run."""
        nonlocal bad
        key = f"decompose:shared-objects:{what}"
        code = (PRE + IND_HELP + "from qibo.transpiler.decompositions import standard_decompositions\n" + setup +
                "ok = (lambda P: np.allclose(P, E, atol=1e-9)) if exact else (lambda P: same_up_to_phase(P, E))\n"
                "g1 = mk(); first = call(g1)\nassert ok(prod(flat(first), n)), 'first call is wrong'\n"
                "mutate(first, n); kept = snap(first)\n"
                "second = call(mk()); third = call(g1)\n"
                "assert ok(prod(flat(second), n)), 'decomposition of a fresh equal gate is wrong after the gates returned earlier were modified'\n"
                "assert ok(prod(flat(third), n)), 'second decomposition of the same gate is wrong after the gates returned earlier were modified'\n"
                "assert not (ids(first) & ids(second)) and not (ids(first) & ids(third)) and not (ids(second) & ids(third)), 'gate objects are shared between results'\n"
                "assert snap(first) == kept, 'the list returned first was changed by a later call'\n"
                + "".join(o[0] for o in others))
        ctx.case(("independence", what))
        try:
            g1 = mk()
            first = call(g1)
            okf = (lambda P: np.allclose(P, expected, atol=1e-9)) if exact else (lambda P: qgates.phase_equal(P, expected))
            if not okf(product(flat(first), n)):
                return  # a wrong first call is the business of the other suites
            mutate(first, n)
            kept = snap(first)
            second = call(mk())
            third = call(g1)
            problems = []
            if not okf(product(flat(second), n)):
                problems.append("the decomposition of a fresh equal gate is wrong after the gates returned earlier were modified")
            if not okf(product(flat(third), n)):
                problems.append("the second decomposition of the same gate object is wrong after the gates returned earlier were modified")
            if (ids(first) & ids(second)) or (ids(first) & ids(third)) or (ids(second) & ids(third)):
                sh = [x for x in flat(second) + flat(third) if id(x) in ids(first)]
                problems.append("results of different calls share gate objects" + (f" (e.g. {qgates.gate_descr(sh[0])})" if sh else ""))
            if snap(first) != kept:
                problems.append("the list returned by the first call was changed by a later call")
            for _, omk, ocall, oexp in others:
                if not np.allclose(product(flat(ocall(omk())), n), oexp, atol=1e-9):
                    problems.append("a different gate on part of the same register decomposes wrongly afterwards")
        except Exception as e:
            bad += 1
            ctx.fail(f"{key}:raises", f"independence scenario for {what} raises {type(e).__name__}: {e}", code,
                     observed=f"{type(e).__name__}: {e}", broken=["C08_search_independence"])
            return
        if problems:
            bad += 1
            ctx.fail(key, f"{what}: " + "; ".join(problems), code, observed="; ".join(problems),
                     broken=["C08_search_independence"])

    def mat_src(E):
        return "np.array(" + repr(np.round(E, 12).tolist()) + ")"

    # every decomposable class: decompose() and the table call, on a shuffled placement
    for name, (info, own, intab) in decomposable_infos().items():
        nq = info.nq
        n = nq + 1
        qs = rng.sample(range(n), nq)
        vals = [round(rng.uniform(-3, 3), 3) for _ in range(info.np)]
        try:
            E = qgates.gate_full_matrix(info.make(qs, vals), n)
        except Exception:
            continue
        expr = gate_expr(name, qs, vals)
        calls = [(name, "g.decompose()", lambda g: g.decompose())]
        if intab:
            calls.append((f"table:{name}", "standard_decompositions(g)", lambda g: std(g)))
        for what, src, fn in calls:
            scenario(what, f"mk = lambda: {expr}\ncall = lambda g: {src}\nn = {n}\nE = full(mk(), n); exact = False\n",
                     lambda info=info, qs=qs, vals=vals: info.make(qs, vals), fn, n, E, False)

    # GeneralizedRBS (qubit-list constructor)
    for qi, qo in (([0], [1]), ([2, 0], [1])):
        n = len(qi) + len(qo)
        th, ph = 0.6, -0.9
        E = qgates.gate_full_matrix(gates.GeneralizedRBS(qi, qo, th, ph), n)
        scenario(f"GeneralizedRBS_{len(qi)}_{len(qo)}",
                 f"mk = lambda: gates.GeneralizedRBS({qi}, {qo}, {th}, {ph})\ncall = lambda g: g.decompose()\nn = {n}\nE = full(mk(), n); exact = False\n",
                 lambda qi=qi, qo=qo: gates.GeneralizedRBS(qi, qo, th, ph), lambda g: g.decompose(), n, E, False)

    # TOFFOLI.congruent, both flags, two placements
    for qs in ((0, 1, 2), (3, 0, 2)):
        n = max(qs) + 1
        t = qs[2]
        c0, c1 = sorted(qs[:2])
        T = qgates.gate_full_matrix(gates.TOFFOLI(*qs), n)
        D = np.eye(2**n)
        for i in range(2**n):
            b = [(i >> (n - 1 - q)) & 1 for q in range(n)]
            if b[c0] == 1 and b[c1] == 0 and b[t] == 0:
                D[i, i] = -1
        for ut, E in ((True, T), (False, T @ D)):
            scenario(f"TOFFOLI.congruent:{'toffoli' if ut else 'congruent'}",
                     f"mk = lambda: gates.TOFFOLI(*{qs})\ncall = lambda g: g.congruent(use_toffolis={ut})\nn = {n}\nE = {mat_src(E)}; exact = True\n",
                     lambda qs=qs: gates.TOFFOLI(*qs), lambda g, ut=ut: g.congruent(use_toffolis=ut), n, E, True)

    # multi-controlled X with m >= 3 controls: ladder and splitting branches, shuffled labels
    combos = [(3, 1), (4, 1), (4, 2), (5, 2)] + ([(5, 3), (6, 2)] if ctx.thorough else [])
    for (m, f) in combos:
        n = m + 1 + f
        lab = list(range(n))
        rng.shuffle(lab)
        cs, t, fs = lab[:m], lab[m], lab[m + 1:]
        perm = mcx_perm(n, cs, t)
        E = np.zeros((2**n, 2**n)); E[perm, np.arange(2**n)] = 1
        for ut in (True, False):
            what = f"mcx:{'toffoli' if ut else 'congruent'}"
            setup = (f"n = {n}; cs = {cs}; t = {t}; free = {fs}\nmk = lambda: gates.X(t).controlled_by(*cs)\n"
                     f"call = lambda g: g.decompose(*free, use_toffolis={ut})\n"
                     "idx = np.arange(2**n); allc = np.ones(2**n, bool)\n"
                     "for q in cs: allc &= ((idx >> (n-1-q)) & 1).astype(bool)\n"
                     "E = np.zeros((2**n, 2**n)); E[np.where(allc, idx ^ (1 << (n-1-t)), idx), idx] = 1; exact = True\n")
            # a different gate on part of the same register, decomposed after the mutation
            cs2, t2, fs2 = sorted(cs)[:3], fs[-1], [t]
            perm2 = mcx_perm(n, cs2, t2)
            E2 = np.zeros((2**n, 2**n)); E2[perm2, np.arange(2**n)] = 1
            osrc = (f"cs2 = {cs2}; t2 = {t2}; allc = np.ones(2**n, bool)\n"
                    "for q in cs2: allc &= ((idx >> (n-1-q)) & 1).astype(bool)\n"
                    "E2 = np.zeros((2**n, 2**n)); E2[np.where(allc, idx ^ (1 << (n-1-t2)), idx), idx] = 1\n"
                    f"assert np.allclose(prod(gates.X(t2).controlled_by(*cs2).decompose(*{fs2}, use_toffolis={ut}), n), E2, atol=1e-9), "
                    "'a different gate on part of the same register decomposes wrongly afterwards'\n")
            others = [(osrc, lambda cs2=cs2, t2=t2: gates.X(t2).controlled_by(*cs2),
                       lambda g, fs2=fs2, ut=ut: g.decompose(*fs2, use_toffolis=ut), E2)]
            scenario(what, setup, lambda cs=cs, t=t: gates.X(t).controlled_by(*cs),
                     lambda g, fs=fs, ut=ut: g.decompose(*fs, use_toffolis=ut), n, E, True, others=others)

    # Circuit.decompose: the returned circuit's gates are the user's
    for it in range(4 if ctx.thorough else 2):
        n = 6
        free = [5] if it % 2 == 0 else [0, 3]
        work = [q for q in range(n) if q not in free]
        lab = rng.sample(work, 4)
        recipe = [f"gates.X({lab[3]}).controlled_by({lab[0]}, {lab[1]}, {lab[2]})",
                  f"gates.CRY({lab[1]}, {lab[0]}, 0.7)", f"gates.U3({lab[2]}, 0.3, -1.2, 2.1)",
                  f"gates.RXXYY({lab[0]}, {lab[3]}, -0.8)", f"gates.H({lab[1]}).controlled_by({lab[2]})",
                  f"gates.RZ({lab[0]}, 1.9)"]
        build = f"def mk():\n    c = Circuit({n})\n" + "".join(f"    c.add({r})\n" for r in recipe) + "    return c\n"
        loc = {}
        exec("from qibo import Circuit, gates\n" + build, loc)
        E = product(loc["mk"]().queue, n)
        scenario("Circuit.decompose", build + f"call = lambda c: list(c.decompose(*{free}).queue)\nn = {n}\nE = prod(mk().queue, n); exact = False\n",
                 loc["mk"], lambda c, free=free: list(c.decompose(*free).queue), n, E, False)
    ctx.ob("C08_search_independence", bad == 0, "search", f"{bad} failing scenarios" if bad else "")



# -- the returned gates behave like freshly built gates ---------------------------

FRESH_HELP = (
    "import copy\n"
    "from qibo.gates.abstract import Gate\n"
    "def perm_conj(U, n, sigma):\n"
    "    # operator after moving qubit q to sigma[q]\n"
    "    N = 2**n; idx = []\n"
    "    for i in range(N):\n"
    "        j = 0\n"
    "        for q in range(n):\n"
    "            if (i >> (n-1-q)) & 1: j |= 1 << (n-1-sigma[q])\n"
    "        idx.append(j)\n"
    "    V = np.zeros_like(U)\n"
    "    V[np.ix_(idx, idx)] = U\n"
    "    return V\n"
    "def derived(x, n, sigma):\n"
    "    # (label, gate list, expected operator, exact?) for everything that rebuilds gate x\n"
    "    U = full(x, n); I = {q: q for q in range(n)}\n"
    "    out = [('dagger()', lambda: [x.dagger()], U.conj().T, True),\n"
    "           ('copy.deepcopy', lambda: [copy.deepcopy(x)], U, True),\n"
    "           ('on_qubits(identity map)', lambda: [x.on_qubits(I)], U, True),\n"
    "           ('on_qubits(permutation)', lambda: [x.on_qubits({q: sigma[q] for q in range(n)})], perm_conj(U, n, sigma), True),\n"
    "           ('Gate.from_dict(raw)', lambda: [Gate.from_dict(x.raw)], U, True),\n"
    "           ('decompose() (second level)', lambda: x.decompose(), U, False)]\n"
    "    return out\n"
    "def check_fresh(dec, n, sigma, R):\n"
    "    # every returned gate, then the list as a circuit; returns the first problem or None\n"
    "    for k, x in enumerate(dec):\n"
    "        for label, fn, E, exact in derived(x, n, sigma):\n"
    "            try: P = prod(fn(), n)\n"
    "            except NotImplementedError: continue\n"
    "            good = np.allclose(P, E, atol=1e-9) if exact else same_up_to_phase(P, E)\n"
    "            if not good: return f'{label} of returned gate #{k} {x.name}{tuple(x.qubits)} (init_args {x.init_args}) is not the operator of that gate'\n"
    "    c = Circuit(n); c.add(list(dec)); U = prod(c.queue, n)\n"
    "    if not same_up_to_phase(U, R): return 'the returned list is not the gate up to a global phase'\n"
    "    tests = [('Circuit.decompose() of the decomposed circuit (second pass)', lambda: prod(c.decompose().queue, n), U, False),\n"
    "             ('invert() of the decomposed circuit', lambda: prod(c.invert().queue, n) @ U, np.eye(2**n), True),\n"
    "             ('copy(deep=True) of the decomposed circuit', lambda: prod(c.copy(deep=True).queue, n), U, True),\n"
    "             ('Circuit.from_dict(raw) of the decomposed circuit', lambda: prod(Circuit.from_dict(c.raw).queue, n), U, True),\n"
    "             ('unitary() of the decomposed circuit', lambda: np.asarray(c.unitary(nb)), U, True)]\n"
    "    for label, fn, E, exact in tests:\n"
    "        try: P = fn()\n"
    "        except NotImplementedError: continue\n"
    "        good = np.allclose(P, E, atol=1e-9) if exact else same_up_to_phase(P, E)\n"
    "        if not good: return f'{label} is not the expected operator'\n"
    "    return None\n"
)
_FR = {}


def _fresh():
    if not _FR:
        exec(PRE + FRESH_HELP, _FR)
    return _FR


def fresh_search(ctx):
    """the gates returned by decompose / standard_decompositions / Circuit.decompose must be
    like freshly built gates: whatever rebuilds them (dagger, deepcopy, on_qubits, raw,
    a second decompose level, invert / deep copy / second pass of the decomposed circuit)
    must give the operator the returned gate has — on descending, non-adjacent and offset
    placements of every decomposable class."""
    from qibo import Circuit, gates

    F = _fresh()
    check_fresh = F["check_fresh"]
    std = std_table()
    rng = ctx.rng
    bad = 0

    def run_one(what, setup, dec_fn, n, R, broken):
        nonlocal bad
        sigma = list(range(n))
        rng.shuffle(sigma)
        key = f"decompose:stale-gates:{what}"
        code = (PRE + FRESH_HELP + "from qibo.transpiler.decompositions import standard_decompositions\n" + setup +
                f"sigma = {sigma}\nproblem = check_fresh(dec, n, sigma, R)\nassert problem is None, problem\n")
        ctx.case(("fresh", what, n, tuple(sigma)))
        try:
            problem = check_fresh(dec_fn(), n, sigma, R)
        except Exception as e:
            bad += 1
            ctx.fail(f"{key}:raises", f"rebuilding the gates returned for {what} raises {type(e).__name__}: {e}", code,
                     observed=f"{type(e).__name__}: {e}", broken=["C08_search_fresh"] + broken)
            return
        if problem:
            bad += 1
            ctx.fail(key, f"{what}: {problem}", code, observed=problem, broken=["C08_search_fresh"] + broken)

    for name, (info, own, intab) in decomposable_infos().items():
        nq = info.nq
        n = nq + 2
        pls = [list(range(nq))[::-1], [q + 2 for q in range(nq)], [n - 1 - 2 * q if n - 1 - 2 * q >= 0 else q for q in range(nq)] if nq <= 2 else [3, 0, 2]]
        if nq == 3:
            n = 5
            pls = [[2, 1, 0], [2, 3, 4], [4, 0, 2]]
        pls.append(rng.sample(range(n), nq))
        if not ctx.thorough:
            pls = [pls[rng.randrange(3)], pls[3]]
        for qs in pls:
            if len(set(qs)) != nq:
                continue
            vals = [round(rng.uniform(-3, 3), 3) for _ in range(info.np)]
            try:
                g = info.make(qs, vals)
                R = qgates.gate_full_matrix(g, n)
            except Exception:
                continue
            expr = gate_expr(name, qs, vals)
            calls = [(name, "g.decompose()", lambda g=g: g.decompose())]
            if intab:
                calls.append((f"table:{name}", "standard_decompositions(g)", lambda g=g: std(g)))
            for what, src, fn in calls:
                run_one(what, f"n = {n}\ng = {expr}\nR = full(g, n)\ndec = {src}\n", fn, n, R, obs_of(ctx, name))

    # GeneralizedRBS away from the template qubits
    for qi, qo in (([3], [1]), ([2, 0], [3]), ([1], [3, 2])):
        n = 4
        th, ph = round(rng.uniform(-3, 3), 3), round(rng.uniform(-3, 3), 3)
        g = gates.GeneralizedRBS(qi, qo, th, ph)
        run_one("GeneralizedRBS", f"n = {n}\ng = gates.GeneralizedRBS({qi}, {qo}, {th}, {ph})\nR = full(g, n)\ndec = g.decompose()\n",
                lambda g=g: g.decompose(), n, qgates.gate_full_matrix(g, n), obs_of(ctx, "grbs"))

    # multi-controlled X and the congruent Toffoli on shuffled labels
    for (m, f) in ((3, 1), (4, 1)):
        n = m + 1 + f
        lab = list(range(n))
        rng.shuffle(lab)
        cs, t, fs = lab[:m], lab[m], lab[m + 1:]
        for ut in (True, False):
            g = gates.X(t).controlled_by(*cs)
            run_one(f"mcx:{'toffoli' if ut else 'congruent'}",
                    f"n = {n}\ng = gates.X({t}).controlled_by(*{cs})\nR = full(g, n)\ndec = g.decompose(*{fs}, use_toffolis={ut})\n",
                    lambda g=g, fs=fs, ut=ut: g.decompose(*fs, use_toffolis=ut), n, qgates.gate_full_matrix(g, n), [])

    # Circuit.decompose of a circuit placed away from qubits 0,1,…
    for it in range(3 if ctx.thorough else 2):
        n = 5
        lab = rng.sample(range(1, n), 3)
        recipe = [f"gates.CRY({lab[0]}, {lab[1]}, 0.7)", f"gates.U3({lab[2]}, 0.3, -1.2, 2.1)", f"gates.GIVENS({lab[2]}, {lab[0]}, -0.8)",
                  f"gates.RZX({lab[1]}, {lab[2]}, 1.1)", f"gates.PRX({lab[0]}, 0.4, 2.2)", f"gates.CZ({lab[2]}, {lab[1]})"]
        rng.shuffle(recipe)
        build = f"n = {n}\nc0 = Circuit(n)\n" + "".join(f"c0.add({r})\n" for r in recipe)
        loc = {}
        exec("from qibo import Circuit, gates\n" + build, loc)
        R = product(loc["c0"].queue, n)
        run_one("Circuit.decompose", build + "R = prod(c0.queue, n)\ndec = list(c0.decompose().queue)\n",
                lambda c0=loc["c0"]: list(c0.decompose().queue), n, R, [])
    ctx.ob("C08_search_fresh", bad == 0, "search", f"{bad} failing cases" if bad else "")



def run(ctx):
    MODULES, THEOREMS = registry(PROP)
    ctx.theorems = THEOREMS
    raised = trace_obligations(ctx)
    build_and_audit(ctx, PROP, MODULES, THEOREMS, gen_obs=True)
    class_search(ctx, raised)
    controlled_search(ctx)
    mcx_search(ctx)
    congruent_search(ctx)
    grbs_search(ctx)
    circuit_search(ctx)
    independence_search(ctx)
    fresh_search(ctx)
    from props import C08_dispatch
    C08_dispatch.run_suites(ctx)
    from props import basis_meas
    basis_meas.run(ctx, PROP, ['decompose'])
    ctx.trusted.append("the multi-controlled-X recursion is a hand model (QV/Model/XDecompose.lean) tied by exact gate-list equality with the real X.decompose for all m ≤ 7 (8 thorough), |free| ≤ m+1, permuted labels, both use_toffolis values, on every run")
    ctx.notes.append("per class with a decomposition: kernel obligations 'product of the real decompose() on symbolic parameters = phase • matrix' on ascending, descending, non-adjacent placements (and after a parameter update); numeric search over a parameter grid (0, ±π/2, ±π, 2π, …) × every placement in n ≤ 4 for decompose() and standard_decompositions(); controlled_by gates of every class; MCX exact unitaries through the real engine for m ≤ 7/8 with 0..m+1 free qubits; TOFFOLI.congruent; GeneralizedRBS up to 3+2 qubits; Circuit.decompose on random mixed circuits")
