"""C11 — the full transpilation pipeline (padding, placer, router, unroller) is
meaning-preserving end to end and its output passes the pipeline's own acceptance check.

Three ingredients (see tools/README.md):
  * theorems  lean/QV/Props/C11.lean over the model lean/QV/Model/Pipeline.lean (padding,
              placers as wire-name permutations, acceptance predicates, Passes.__call__
              sequencing, composition with the C09 router contract and the C10 unroller
              contract);
  * tie       PAD / ASSERT / STARP / RESTRICT / SORT: Preprocessing, assert_placement /
              assert_connectivity / assert_decomposition / is_satisfied,
              StarConnectivityPlacer, restrict_connectivity_qubits side by side with the
              model; PIPE: every pass of a real Passes.__call__ is recorded in-process and
              the model replays the pipeline with the passes' answers as validated oracles;
  * search    the property itself on the real pipeline (see SPEC_SRC.check_output).

Deepening (lean/QV/Props/C11b.lean, Proofs/PipelineUnroll.lean, Proofs/PipelineFold.lean):
  * LOCAL / DISPATCH: the unroller is inside the model — locality of the real tables' shapes is
    decided on every run, C10's dispatch model replays the real Unroller calls recorded inside
    real pipeline runs, and the contract `unrollOk` is derived (T11_unrollOk_derived);
  * PIPE lines carry arbitrary pass lists (extra Preprocessing / Unroller passes anywhere); the
    driver evaluates the fold flags placedAfter / connAfter / decAfter / layoutAfter
    (T11_fold_invariants, T11_fold_layout) against the real verdicts;
  * histories: pass OBJECTS shared by several Passes objects / built with another device's
    graph (run_shared, recorded hand-over: T11_handover_history_free), and one circuit object
    executed through the installed transpiler, its parameters updated, executed again
    (run_params).
"""
from __future__ import annotations

import itertools
import json

from vlib.driver import run_driver
from vlib.proofs import build_and_audit, registry

PROP = "C11"
DRIVER = "DriverC11.lean"

# ---------------------------------------------------------------------------
# executable SPEC (also the body of every replay snippet)

SPEC_SRC = r'''
import random, copy, re
import numpy as np, networkx as nx
from qibo import Circuit, gates
from qibo.backends import NumpyBackend
from qibo.transpiler.pipeline import Passes, restrict_connectivity_qubits
from qibo.transpiler.optimizer import Preprocessing, Rearrange
from qibo.transpiler.placer import Random, Subgraph, ReverseTraversal, StarConnectivityPlacer
from qibo.transpiler.router import ShortestPaths, Sabre, StarConnectivityRouter
from qibo.transpiler.unroller import Unroller, NativeGates
from qibo.transpiler.asserts import assert_placement, assert_connectivity, assert_decomposition

import signal, contextlib


class PassTimeout(Exception):
    pass


@contextlib.contextmanager
def time_limit(seconds):
    """a pipeline call that does not return is a failure, not a hang of the check."""
    def handler(signum, frame):
        raise PassTimeout(f"no result after {seconds} s")
    old = signal.signal(signal.SIGALRM, handler)
    signal.setitimer(signal.ITIMER_REAL, seconds)
    try:
        yield
    finally:
        signal.setitimer(signal.ITIMER_REAL, 0)
        signal.signal(signal.SIGALRM, old)


_NB = NumpyBackend()
MARK = np.array([[2, 1], [1, 0]], dtype=complex)   # stand-in operator of a measurement

_BASE = "NativeGates.I | NativeGates.Z | NativeGates.RZ | NativeGates.M | "
NATIVES = {
    "default": "NativeGates.default()",
    "cz_u3": _BASE + "NativeGates.CZ | NativeGates.U3",
    "iswap_gpi2": _BASE + "NativeGates.iSWAP | NativeGates.GPI2",
    "iswap_u3": _BASE + "NativeGates.iSWAP | NativeGates.U3",
    "cz_iswap_gpi2": _BASE + "NativeGates.CZ | NativeGates.iSWAP | NativeGates.GPI2",
    "cz_iswap_u3": _BASE + "NativeGates.CZ | NativeGates.iSWAP | NativeGates.U3",
    "cnot_gpi2": _BASE + "NativeGates.CNOT | NativeGates.GPI2",
    "cnot_u3": _BASE + "NativeGates.CNOT | NativeGates.U3",
}


def natives_of(name):
    return eval(NATIVES[name], {"NativeGates": NativeGates})


def local_matrix(g):
    """(matrix, ordered qubits) of a gate; measurements act as MARK on each qubit."""
    if isinstance(g, gates.M):
        m = np.array([[1]], dtype=complex)
        for _ in g.qubits:
            m = np.kron(m, MARK)
        return m, list(g.qubits)
    m = np.asarray(g.matrix(_NB), dtype=complex)
    if g.is_controlled_by:
        ts, cs = list(g.target_qubits), list(g.control_qubits)
        d = 2 ** (len(ts) + len(cs))
        full = np.eye(d, dtype=complex)
        k = 2 ** len(ts)
        full[d - k:, d - k:] = m
        return full, cs + ts
    return m, list(g.qubits)


def operator(queue, n):
    """operator of a gate list as a tensor with axes (out_0..out_{n-1}, in) ."""
    U = np.eye(2 ** n, dtype=complex).reshape((2,) * n + (2 ** n,))
    for g in queue:
        m, qs = local_matrix(g)
        k = len(qs)
        U = np.tensordot(m.reshape((2,) * (2 * k)), U, axes=(list(range(k, 2 * k)), qs))
        U = np.moveaxis(U, list(range(k)), qs)
    return U


def pad_operator(U, n, N):
    """U (x) identity on N-n further qubits, as a tensor with axes (out_0..out_{N-1}, in)."""
    M = np.kron(U.reshape(2 ** n, 2 ** n), np.eye(2 ** (N - n), dtype=complex))
    return M.reshape((2,) * N + (2 ** N,))


def equal_up_to_phase(A, B, exact):
    if exact:
        return np.array_equal(A, B)
    a, b = A.reshape(-1), B.reshape(-1)
    k = int(np.argmax(np.abs(b)))
    if abs(b[k]) < 1e-12 or abs(abs(a[k]) - abs(b[k])) > 1e-7:
        return False
    ph = a[k] / b[k]
    return bool(np.allclose(a, ph * b, atol=1e-7, rtol=0))


def sig(g):
    """class + parameters of a gate (no qubits)."""
    if isinstance(g, gates.M):
        # every constructor argument of the entry, readout-error maps in the order of its qubits
        return ("M", tuple(map(str, g.init_kwargs.get("basis") or ())), bool(g.collapse), regname(g),
                tuple(float(g.bitflip_map[0].get(q, 0)) for q in g.qubits), tuple(float(g.bitflip_map[1].get(q, 0)) for q in g.qubits))
    if isinstance(g, gates.Unitary):
        pars = tuple(np.round(np.asarray(g.parameters[0], dtype=complex).reshape(-1), 9).tolist())
    else:
        pars = tuple(np.round(np.asarray(p, dtype=complex).reshape(-1), 9).tolist().__repr__() for p in g.parameters)
    return (type(g).__name__, pars, len(g.control_qubits) if g.is_controlled_by else -1)


def regname(m):
    """explicit register names are compared exactly, default ones (register<k>) by order."""
    r = m.register_name
    return None if r is None or re.fullmatch(r"register\d+", str(r)) else r


def trailing(queue):
    out = []
    for g in reversed(list(queue)):
        if isinstance(g, gates.M):
            out.append(g)
        else:
            break
    return out[::-1]


def snapshot(circuit, names=True):
    return (circuit.nqubits, tuple(map(repr, circuit.wire_names)) if names else None,
            tuple((sig(g), tuple(g.qubits), getattr(g, "register_name", None)) for g in circuit.queue))


def build_graph(nodes, edges):
    G = nx.Graph()
    G.add_nodes_from(nodes)
    G.add_edges_from(edges)
    return G


def graph_key(G):
    return (frozenset(map(repr, G.nodes)), frozenset(frozenset(map(repr, e)) for e in G.edges))


def build_circuit(n, wire_names, gate_codes, density_matrix=False):
    c = Circuit(n, wire_names=None if wire_names is None else list(wire_names), density_matrix=bool(density_matrix))
    for code in gate_codes:
        c.add(eval(code, {"gates": gates, "np": np}))
    return c


def make_router(kind, opts, conn=None):
    if kind == "ShortestPaths":
        return ShortestPaths(connectivity=conn, seed=opts.get("seed"))
    if kind == "Sabre":
        return Sabre(connectivity=conn, **opts)
    return StarConnectivityRouter(connectivity=conn)


def make_pass(desc, conn=None):
    """pass descriptors: ["pre"], ["placer", kind, opts], ["router", kind, opts], ["unroller", natives name];
    conn: a connectivity graph given to the constructor (None: the pass gets it from the pipeline)."""
    if desc[0] == "pre":
        return Preprocessing(connectivity=conn)
    if desc[0] == "placer":
        kind, opts = desc[1], dict(desc[2])
        if kind == "Random":
            return Random(connectivity=conn, **opts)
        if kind == "Subgraph":
            return Subgraph(connectivity=conn)
        if kind == "Star":
            return StarConnectivityPlacer(connectivity=conn)
        if kind == "ReverseTraversal":
            r = opts.pop("router")
            return ReverseTraversal(make_router(r[0], r[1], conn), connectivity=conn, **opts)
    if desc[0] == "router":
        return make_router(desc[1], dict(desc[2]), conn)
    if desc[0] == "unroller":
        return Unroller(natives_of(desc[1]))
    if desc[0] == "rearrange":
        return Rearrange(max_qubits=desc[1])
    raise ValueError(desc)


def build_passes(case):
    G = build_graph(case["nodes"], case["edges"])
    P = Passes([make_pass(d) for d in case["passes"]], connectivity=G,
               native_gates=natives_of(case.get("natives", "default")), on_qubits=case.get("on_qubits"))
    return G, P


def device_graph(case):
    """the device the pipeline works on, computed independently of the code under test."""
    G = build_graph(case["nodes"], case["edges"])
    if case.get("on_qubits") is not None:
        G = G.subgraph(case["on_qubits"]).copy()
    return G


def basis_state(bits):
    v = np.zeros(2 ** len(bits), dtype=complex)
    v[int("".join(map(str, bits)), 2) if bits else 0] = 1
    return v


def frequencies(circuit, bits, nshots=8):
    """frequency tables (flat and per register) of a fresh deep copy executed on a basis state."""
    c = circuit.copy(deep=True)
    r = _NB.execute_circuit(c, initial_state=basis_state(bits), nshots=nshots)
    flat = dict(r.frequencies(binary=True))
    regs = {(regname_str(k)): dict(v) for k, v in r.frequencies(binary=True, registers=True).items()}
    return flat, regs


def final_state(queue, n, bits):
    """state tensor (axes = qubits) after the non-measurement gates of the queue, from a basis
    state; computed with explicit matrices, not with qibo's execution."""
    psi = np.zeros((2,) * n, dtype=complex)
    psi[tuple(bits)] = 1
    for g in queue:
        if isinstance(g, gates.M):
            continue
        m, qs = local_matrix(g)
        k = len(qs)
        psi = np.tensordot(m.reshape((2,) * (2 * k)), psi, axes=(list(range(k, 2 * k)), qs))
        psi = np.moveaxis(psi, list(range(k)), qs)
    return psi


def register_distribution(psi, m):
    """exact outcome distribution of one reporting measurement entry: marginal of the final
    state on the entry's own qubits (in its order), pushed through its own readout-error maps
    (bitflip_map[0][q]: 0 -> 1, bitflip_map[1][q]: 1 -> 0)."""
    n = psi.ndim
    pr = np.abs(psi) ** 2
    qs = list(m.qubits)
    pr = pr.sum(axis=tuple(a for a in range(n) if a not in qs)) if len(qs) < n else pr
    rest = sorted(qs)
    pr = np.transpose(pr, [rest.index(q) for q in qs])
    for i, q in enumerate(qs):
        p0, p1 = float(m.bitflip_map[0].get(q, 0)), float(m.bitflip_map[1].get(q, 0))
        flip = np.array([[1 - p0, p1], [p0, 1 - p1]])
        pr = np.moveaxis(np.tensordot(flip, pr, axes=(1, i)), 0, i)
    return pr.reshape(-1)


def regname_str(r):
    return "<default>" if re.fullmatch(r"register\d+", str(r)) else str(r)


def check_output(case, c, before, out, layout, P, D):
    """the property C11 for one call of the pipeline; list of (kind, detail)."""
    bad = []
    kinds = [d[0] for d in case["passes"]]
    n = c.nqubits if before is None else before[0]
    nodes = list(D.nodes)
    N = len(nodes) if "pre" in kinds else n
    orig_names = list(case["wire_names"]) if case["wire_names"] is not None else list(range(n))
    # shape of the result
    if not isinstance(out, Circuit):
        return [("result", f"pipeline returned {type(out).__name__} instead of a circuit")]
    wn = list(out.wire_names)
    if out.nqubits != N or len(wn) != N or set(wn) != set(nodes):
        return [("placement", f"output has nqubits={out.nqubits}, wire_names={wn}; device nodes {nodes}")]
    if "placer" not in kinds and wn[:n] != orig_names:
        bad.append(("padding", f"the circuit's own wires {orig_names} moved: output wire_names {wn}"))
    # layout
    if layout is None:
        if "router" in kinds:
            return bad + [("layout", "a pipeline with a router returned no final layout")]
        f = list(range(N))
    else:
        if not isinstance(layout, dict) or set(layout.keys()) != set(wn) or sorted(layout.values()) != list(range(N)):
            return bad + [("layout", f"final layout {layout} is not a bijection from {wn} onto 0..{N-1}")]
        f = [layout[wn[l]] for l in range(N)]
    # acceptance predicates, each on its own and together
    acc = {}
    for name, fn in (("placement", lambda: assert_placement(out, D)),
                     ("connectivity", lambda: assert_connectivity(D, out)),
                     ("decomposition", lambda: assert_decomposition(out, natives_of(case.get("natives", "default"))))):
        try:
            fn()
            acc[name] = True
        except Exception as e:
            acc[name] = False
            acc[name + "_err"] = f"{type(e).__name__}: {e}"[:200]
    last = lambda k: max([i for i, x in enumerate(kinds) if x == k], default=-1)
    want_conn = "router" in kinds and last("router") > last("placer")     # a later placer renames the wires
    want_dec = "unroller" in kinds and last("unroller") > last("router")  # a later router inserts SWAPs
    if not acc["placement"]:
        bad.append(("accept:placement", acc["placement_err"]))
    if want_conn and not acc["connectivity"]:
        bad.append(("accept:connectivity", acc["connectivity_err"]))
    if want_dec and not acc["decomposition"]:
        bad.append(("accept:decomposition", acc["decomposition_err"]))
    sat = P.is_satisfied(out)
    if sat != (acc["placement"] and acc["connectivity"] and acc["decomposition"]):
        bad.append(("accept:is_satisfied", f"is_satisfied={sat} but the three assertions say {acc}"))
    if want_conn and want_dec and sat is not True:
        bad.append(("accept:is_satisfied", f"is_satisfied(output) = {sat}: {acc}"))
    # independent connectivity / native check (not through qibo's assertions)
    if want_conn:
        for g in out.queue:
            if isinstance(g, gates.M):
                continue
            if len(g.qubits) > 2 or (len(g.qubits) == 2 and not D.has_edge(wn[g.qubits[0]], wn[g.qubits[1]])):
                bad.append(("connectivity", f"{g.name} on positions {g.qubits} = physical {[wn[q] for q in g.qubits]} is not on an edge"))
                break
    if want_dec:
        nat = natives_of(case.get("natives", "default"))
        for g in out.queue:
            if isinstance(g, gates.M):
                continue
            if not (getattr(NativeGates, type(g).__name__, NativeGates.NONE) & nat) or g.is_controlled_by:
                bad.append(("decomposition", f"{g.name} on {g.qubits} is not native for {case.get('natives')}"))
                break
    # operator: out == P_f . (in (x) 1) up to a global phase
    exact = bool(case.get("exact")) and "unroller" not in kinds
    Uin = operator(build_circuit(n, case["wire_names"], case["gates"], case.get("density_matrix")).queue, n)
    Upad = pad_operator(Uin, n, N)
    want = np.moveaxis(Upad, list(range(N)), f)
    Uout = operator(out.queue, N)
    if not equal_up_to_phase(Uout, want, exact):
        bad.append(("operator", f"output operator differs from P.(U (x) 1) with layout {f} (wire_names {wn})"))
    # measurements: same registers, same order of qubits, moved through the layout
    ref = build_circuit(n, case["wire_names"], case["gates"], case.get("density_matrix"))
    # (a collapsing measurement inside the trailing block may change place with a reporting one on
    # the same qubit — routers re-attach the reporting ones last; its position enters the operator
    # identity and the multiset comparison below)
    tin, tout = [m for m in trailing(ref.queue) if not m.collapse], [m for m in trailing(out.queue) if not m.collapse]
    win = [(regname(m), tuple(f[q] for q in m.qubits)) for m in tin]
    wout = [(regname(m), tuple(m.qubits)) for m in tout[len(tout) - len(tin):]] if len(tout) >= len(tin) else None
    if wout != win:
        bad.append(("measurements", f"trailing measurements {[(m.register_name, m.qubits) for m in tout]}, expected {win}"))
    min_, mout = [g for g in ref.queue if isinstance(g, gates.M)], [g for g in out.queue if isinstance(g, gates.M)]
    # measurements that end up in the result (not collapsing): same order (it is the bit order of
    # the outcomes), same registers; collapsing ones may be reordered with gates on other qubits
    keep = lambda ms: [(regname(m), len(m.qubits)) for m in ms if not m.collapse]
    coll = lambda ms: sorted((str(regname(m)), len(m.qubits)) for m in ms if m.collapse)
    if len(keep(mout)) < len(keep(min_)) and len(mout) == len(min_):
        bad.append(("registers-dropped", f"a measurement that reports in the results of the input is a collapsing one in the output "
                    f"(its register is missing from the results): input {[(m.register_name, m.qubits, m.collapse) for m in min_]}, "
                    f"output {[(m.register_name, m.qubits, m.collapse) for m in mout]}"))
    elif keep(min_) != keep(mout) or coll(min_) != coll(mout):
        bad.append(("measurements", f"measurement gates of the output {[(m.register_name, m.qubits, m.collapse) for m in mout]} "
                                    f"do not match those of the input {[(m.register_name, m.qubits, m.collapse) for m in min_]}"))
    # every reporting measurement entry: readout-error maps re-keyed to the physical qubits, and the
    # exact outcome distribution of its register = that of the input's entry (final-state marginal)
    rin, rout = [m for m in min_ if not m.collapse], [m for m in mout if not m.collapse]
    if len(rin) == len(rout) and not any(k in ("measurements", "registers-dropped") for k, _ in bad):
        for a, b in zip(rin, rout):
            if tuple(b.qubits) == tuple(f[q] for q in a.qubits):
                for k in (0, 1):
                    if {f[q]: float(v) for q, v in a.bitflip_map[k].items()} != {q: float(v) for q, v in b.bitflip_map[k].items()}:
                        bad.append(("measurement-attributes", f"register {a.register_name} on {a.qubits}: readout-error map p{k} {a.bitflip_map[k]} "
                                    f"became {b.bitflip_map[k]} on {b.qubits} (layout {f})"))
                        break
        if not any(m.collapse for m in min_) and N <= 6:
            for bits in ([[0] * n] + list(case.get("inputs", []))[:1]):
                pa, pb = final_state(ref.queue, n, bits), final_state(out.queue, N, list(bits) + [0] * (N - n))
                for a, b in zip(rin, rout):
                    da, db = register_distribution(pa, a), register_distribution(pb, b)
                    if da.shape != db.shape or not np.allclose(da, db, atol=1e-7, rtol=0):
                        bad.append(("register-distribution", f"input bits {bits}: register {a.register_name} (qubits {a.qubits}, readout error {a.bitflip_map}) "
                                    f"has outcome distribution {np.round(da, 4).tolist()}, the transpiled entry (qubits {b.qubits}, readout error "
                                    f"{b.bitflip_map}) {np.round(db, 4).tolist()}"))
                        break
                else:
                    continue
                break
    if case.get("density_matrix") is not None and bool(out.density_matrix) != bool(case["density_matrix"]):
        bad.append(("density-matrix", f"the input circuit has density_matrix={case['density_matrix']}, the transpiled one {out.density_matrix}"))
    # the circuit given by the caller is not changed (placers work in place on wire_names
    # only, and only when the pipeline did not have to pad)
    if before is not None:
        names_kept = ("placer" not in kinds) or ("pre" in kinds and n < N)
        if snapshot(c, names_kept) != (before if names_kept else (before[0], None, before[2])):
            bad.append(("mutation", f"the input circuit was modified: {snapshot(c)} != {before}"))
    # outcomes on basis states (deterministic circuits only)
    if case.get("det") and not bad and min_:
        for bits in case.get("inputs", [[0] * n]):
            try:
                fa = frequencies(ref, bits)
            except Exception:
                break    # the untranspiled circuit cannot be executed (e.g. a qubit measured twice): nothing to compare
            try:
                fb = frequencies(out, list(bits) + [0] * (N - n))
                fc = frequencies(c, bits) if c.nqubits == n else fa
            except Exception as e:
                bad.append(("samples", f"execution raises {type(e).__name__}: {e}"))
                break
            if fa != fb:
                bad.append(("samples", f"input bits {bits}: frequencies {fb} of the transpiled circuit, {fa} of the original"))
                break
            if fa != fc:
                bad.append(("mutation", f"input bits {bits}: the circuit given to the pipeline now yields {fc}, before {fa}"))
                break
    return bad


def expected_refusal(case, e):
    """documented refusals: Subgraph needs two two-qubit gates, ReverseTraversal with a
    depth needs one."""
    ref = build_circuit(case["n"], case["wire_names"], case["gates"], case.get("density_matrix"))
    two = sum(1 for g in ref.queue if len(g.qubits) == 2 and not isinstance(g, gates.M))
    for d in case["passes"]:
        if d[0] == "placer" and d[1] == "Subgraph" and two < 2 and isinstance(e, ValueError) and "at least two two-qubit gates" in str(e):
            return True
        if d[0] == "placer" and d[1] == "ReverseTraversal" and d[2].get("depth") is not None and two == 0 \
                and isinstance(e, ValueError) and "at least a two-qubit gate" in str(e):
            return True
    return False


def run_case(case, calls=1, same_circuit=False):
    """build everything from plain data, call the pipeline `calls` times (same Passes
    object; a fresh circuit each time, or the same circuit object again), check every
    call; returns list of (kind, detail)."""
    G, P = build_passes(case)
    G0 = graph_key(G)
    D = device_graph(case)
    bad = []
    c = None
    case0 = case
    for k in range(calls):
        # later calls of the SAME Passes object get circuits whose wire_names list the device qubits in another order
        case = case0 if k == 0 or same_circuit or not case0.get("alt_wires") else dict(case0, wire_names=case0["alt_wires"][(k - 1) % len(case0["alt_wires"])])
        if c is None or not same_circuit:
            c = build_circuit(case["n"], case["wire_names"], case["gates"], case.get("density_matrix"))
        before = snapshot(c)
        if k > 0 and same_circuit and any(d[0] == "placer" for d in case["passes"]) and c.nqubits == len(D.nodes):
            before = None      # a placer already renamed the wires of this very circuit (documented: in place)
        try:
            with time_limit(30):
                out, layout = P(c)
        except Exception as e:
            if expected_refusal(case, e):
                break
            bad.append(("raises:" + type(e).__name__ if k == 0 else "reuse", f"call {k+1} (wire_names {case['wire_names']}): {type(e).__name__}: {e}"))
            break
        r = check_output(case, c, before, out, layout, P, D)
        if k > 0:
            r = [("reuse", f"call {k+1} of the same Passes object (wire_names {case['wire_names']}, first call {case0['wire_names']}): {kind}: {d}") for kind, d in r]
        bad += r
        if graph_key(G) != G0:
            bad.append(("mutation", "the connectivity graph passed by the caller was modified"))
        if graph_key(P.connectivity) != graph_key(D):
            bad.append(("mutation" if k else "restrict", f"Passes.connectivity has nodes {list(P.connectivity.nodes)} edges {list(P.connectivity.edges)}"))
        if bad:
            break
    return bad


def run_shared(case):
    """the same pass OBJECTS used by several Passes objects (other devices, other labels,
    on_qubits restrictions), in any interleaving, or built with the connectivity of another
    device: every call of every pipeline satisfies C11 for ITS OWN device.
    case: passes, natives, pipelines = [sub-cases], schedule = [indices], ctor = index of the
    pipeline whose graph is handed to the pass constructors (None: no constructor graph)."""
    subs = [dict(p, passes=case["passes"], natives=case.get("natives", "default")) for p in case["pipelines"]]
    conn0 = None
    if case.get("ctor") is not None:
        c0 = subs[case["ctor"]]
        conn0 = build_graph(c0["nodes"], c0["edges"])
        key0 = graph_key(conn0)
    objs = [make_pass(d, conn0) for d in case["passes"]]
    pipes = []
    for sub in subs:
        G = build_graph(sub["nodes"], sub["edges"])
        pipes.append((G, graph_key(G), Passes(objs, connectivity=G, native_gates=natives_of(sub["natives"]),
                                              on_qubits=sub.get("on_qubits")), device_graph(sub)))
    bad = []
    for step, k in enumerate(case["schedule"]):
        sub = subs[k]
        seen_k = case["schedule"][:step].count(k)
        if seen_k and sub.get("alt_wires"):
            sub = dict(sub, wire_names=sub["alt_wires"][(seen_k - 1) % len(sub["alt_wires"])])
        G, G0, P, D = pipes[k]
        c = build_circuit(sub["n"], sub["wire_names"], sub["gates"])
        before = snapshot(c)
        where = f"step {step+1} of schedule {case['schedule']} (pipeline {k}, device nodes {list(D.nodes)}, constructor graph {case.get('ctor')})"
        try:
            with time_limit(30):
                out, layout = P(c)
        except Exception as e:
            if expected_refusal(sub, e):
                continue
            bad.append(("shared:raises", f"{where}: {type(e).__name__}: {e}"))
            break
        bad += [("shared:" + kind, f"{where}: {d}") for kind, d in check_output(sub, c, before, out, layout, P, D)]
        if graph_key(G) != G0 or (conn0 is not None and graph_key(conn0) != key0):
            bad.append(("shared:mutation", f"{where}: a connectivity graph passed by the caller was modified"))
        if graph_key(P.connectivity) != graph_key(D):
            bad.append(("shared:mutation", f"{where}: Passes.connectivity has nodes {list(P.connectivity.nodes)}"))
        if bad:
            break
    return bad
'''


SPEC = {}
exec(compile(SPEC_SRC, "<C11 spec>", "exec"), SPEC)
gates = SPEC["gates"]
Circuit = SPEC["Circuit"]
nx = SPEC["nx"]


def replay_code(case, calls, kinds, same=False):
    return (SPEC_SRC + "\ncase = " + repr(case) + f"\nbad = run_case(case, calls={calls}, same_circuit={same})\nprint(bad)\n"
            + f"assert not [b for b in bad if b[0] in {sorted(kinds)!r}], bad\n")


# ---------------------------------------------------------------------------
# generators

INT_1Q = ["gates.X({0})", "gates.Y({0})", "gates.Z({0})", "gates.S({0})", "gates.SDG({0})"]
INT_2Q = ["gates.CNOT({0},{1})", "gates.CZ({0},{1})", "gates.CY({0},{1})", "gates.SWAP({0},{1})",
          "gates.iSWAP({0},{1})", "gates.FSWAP({0},{1})"]
FLT_1Q = ["gates.H({0})", "gates.RX({0}, {t})", "gates.U3({0}, {t}, 0.3, -1.1)", "gates.T({0})", "gates.GPI2({0}, {t})",
          "gates.RZ({0}, {t})", "gates.SX({0})", "gates.U1({0}, {t})"]
FLT_2Q = ["gates.CRZ({0},{1}, {t})", "gates.RZZ({0},{1}, {t})", "gates.CU3({0},{1}, {t}, 0.2, 0.9)", "gates.CRY({0},{1}, {t})",
          "gates.CRX({0},{1}, {t})", "gates.CU1({0},{1}, {t})", "gates.RXX({0},{1}, {t})", "gates.RYY({0},{1}, {t})",
          "gates.CU2({0},{1}, {t}, 0.7)"]
# everything the translation tables know (gates outside them are refused by the unroller: C10)
UNR_2Q = FLT_2Q + ["gates.CNOT({0},{1})", "gates.CZ({0},{1})", "gates.SWAP({0},{1})", "gates.iSWAP({0},{1})", "gates.FSWAP({0},{1})"]
UNR_1Q = FLT_1Q + ["gates.X({0})", "gates.Y({0})", "gates.Z({0})", "gates.S({0})", "gates.SDG({0})", "gates.TDG({0})",
                   "gates.RY({0}, {t})", "gates.U2({0}, {t}, 0.4)", "gates.I({0})"]
DET_1Q = ["gates.X({0})", "gates.Z({0})", "gates.Y({0})"]
DET_2Q = ["gates.CNOT({0},{1})", "gates.SWAP({0},{1})", "gates.CZ({0},{1})", "gates.iSWAP({0},{1})", "gates.FSWAP({0},{1})"]
CNOT_2Q = ["gates.CNOT({0},{1})", "gates.SWAP({0},{1})", "gates.CZ({0},{1})"]
PH = [1, -1, 1j, -1j]
NATIVE_NAMES = ["default", "cz_u3", "iswap_gpi2", "iswap_u3", "cz_iswap_gpi2", "cz_iswap_u3", "cnot_gpi2", "cnot_u3"]
FLAGS = ["I", "Z", "RZ", "M", "GPI2", "U3", "CZ", "iSWAP", "CNOT"]


def _cstr(z):
    z = complex(z)
    if z.imag == 0:
        return str(int(z.real))
    if z.real == 0:
        return f"{int(z.imag)}j"
    return f"({int(z.real)}{int(z.imag):+d}j)"


def int_matrix(rng, d):
    """invertible, non-symmetric in general: monomial matrix plus one off-support entry."""
    perm = list(range(d))
    rng.shuffle(perm)
    m = [[0] * d for _ in range(d)]
    for i in range(d):
        m[i][perm[i]] = rng.choice(PH)
    if rng.random() < 0.6:
        i = rng.randrange(d)
        j = rng.choice([j for j in range(d) if j != perm[i]])
        m[i][j] = rng.choice([1, -1])
    return "[" + ",".join("[" + ",".join(_cstr(x) for x in row) + "]" for row in m) + "]"


def random_gate(rng, n, mode, on=None):
    """on: the qubits the gate may act on (default: all n)."""
    on = list(range(n)) if on is None else list(on)
    two = len(on) >= 2 and rng.random() < 0.6
    t = round(rng.uniform(-3, 3), 3)
    if mode == "det":
        pool = DET_2Q if two else DET_1Q
    elif mode == "detcnot":
        pool = CNOT_2Q if two else DET_1Q
    elif mode == "cnot":
        pool = CNOT_2Q if two else UNR_1Q
    elif mode == "named":
        pool = UNR_2Q if two else UNR_1Q
    elif rng.random() < 0.45:
        d = 4 if two else 2
        pool = ["gates.Unitary(np.array(" + int_matrix(rng, d) + "), " + ("{0},{1}" if two else "{0}") + ", check_unitary=False)"]
    else:
        pool = INT_2Q if two else INT_1Q
    code = rng.choice(pool)
    if two:
        a, b = rng.sample(on, 2)
        return code.format(a, b, t=t)
    return code.format(rng.choice(on), t=t)


def noise_arg(rng, part, det):
    """a readout-error argument in one of its three forms (float / list / dict keyed by qubit)."""
    val = (lambda: rng.choice([0.0, 1.0])) if det else (lambda: rng.choice([0.0, 1.0, 0.25, 0.1, round(rng.uniform(0, 1), 3)]))
    form = rng.choice(["float", "list", "dict"])
    if form == "float":
        return repr(float(val()))
    if form == "list":
        return "[" + ", ".join(repr(float(val())) for _ in part) + "]"
    keys = rng.sample(list(part), rng.randint(1, len(part)))
    return "{" + ", ".join(f"{q}: {float(val())!r}" for q in keys) + "}"


def meas_code(rng, part, reg, det, basis=None):
    """a reporting measurement entry with register name, readout-error maps and bases
    (bases only where the operator identity is compared with a tolerance)."""
    basis = (not det) if basis is None else basis
    kw = ""
    if rng.random() < 0.7:
        kw += f", register_name='r{reg}'"
    r = rng.random()
    if r < 0.35:
        kw += f", p0={noise_arg(rng, part, det)}"
    elif r < 0.55:
        kw += f", p0={noise_arg(rng, part, det)}, p1={noise_arg(rng, part, det)}"
    elif r < 0.62:
        kw += f", p1={noise_arg(rng, part, det)}"
    if basis and rng.random() < 0.35:
        kw += ", basis=[" + ", ".join(rng.choice(["gates.X", "gates.Y", "gates.Z"]) for _ in part) + "]"
    return f"gates.M({','.join(map(str, part))}{kw})"


def random_recipe(rng, n, ngates, mode, meas):
    """meas: 'none' | 'trailing' | 'mid' (one-qubit mid-circuit measurements and trailing
    registers with unsorted qubits) | 'rich' (reporting entries at the start, in the middle and at
    the end — final but not trailing —, every wire measured at most once, with register names,
    readout-error maps in float / list / dict form and, for non-deterministic circuits, X / Y bases;
    now and then a collapsing one)."""
    codes = []
    reg = 0
    if meas == "rich":
        # (qibo turns a measurement into a collapsing one when a later gate touches its qubits:
        # a reporting entry is final for its wires, so later gates stay off them)
        det = mode in ("det", "detcnot")
        free = list(range(n))
        # a TRAILING measurement built with collapse=True on two or three wires (shot-by-shot
        # execution asked for by the user): its register, order and flag must survive
        tcoll = rng.sample(range(n), rng.randint(2, min(3, n))) if n >= 2 and rng.random() < 0.3 else []
        rest = [q for q in range(n) if q not in tcoll]
        todo = rng.sample(rest, rng.randint(1 if rest and not tcoll else 0, len(rest)))
        slots = sorted(rng.choice([0, ngates, rng.randint(0, ngates), rng.randint(0, ngates)]) for _ in range(len(todo)))
        for step in range(ngates + 1):
            k = slots.count(step)
            if k:
                part, todo = todo[:k], todo[k:]
                while part:
                    j = rng.randint(1, min(len(part), 3))
                    codes.append(meas_code(rng, part[:j], reg, det, basis=mode in ("named", "cnot")))
                    free = [q for q in free if q not in part[:j]]
                    part = part[j:]
                    reg += 1
            if step < ngates and free:
                if rng.random() < 0.06 and len(free) > 1:
                    q = rng.choice(free)
                    codes.append(f"gates.M({q}, collapse=True)")
                codes.append(random_gate(rng, n, mode, on=free))
        if tcoll:
            first = len(codes)
            while first > 0 and codes[first - 1].startswith("gates.M("):
                first -= 1
            name = f", register_name='c{reg}'" if rng.random() < 0.7 else ""
            # (a measurement in another basis brings a rotation gate: behind the collapsing entry it would make
            # it a mid-circuit one, which the routers split or refuse — K09-1 class, counted by collapse_split_probe)
            pos = len(codes) if any("basis=" in c for c in codes[first:]) else rng.choice([first, len(codes)])
            codes.insert(pos, f"gates.M({','.join(map(str, tcoll))}{name}, collapse=True)")
        return codes
    for _ in range(ngates):
        if meas == "mid" and rng.random() < 0.12:
            q = rng.randrange(n)
            kw = ""
            r = rng.random()
            if r < 0.3:
                kw = f", register_name='m{reg}'"
                reg += 1
            elif r < 0.6:
                kw = ", collapse=True"
            codes.append(f"gates.M({q}{kw})")
        else:
            codes.append(random_gate(rng, n, mode))
    if meas in ("trailing", "mid"):
        qs = list(range(n))
        rng.shuffle(qs)
        qs = qs[: rng.randint(1, n)]
        while qs:
            k = rng.randint(1, len(qs))
            part, qs = qs[:k], qs[k:]
            kw = f", register_name='r{reg}'" if rng.random() < 0.7 else ""
            reg += 1
            codes.append(f"gates.M({','.join(map(str, part))}{kw})")
    return codes


SHAPES = {
    "star5": (5, [(2, 0), (2, 1), (2, 3), (2, 4)]),
    "line5": (5, [(0, 1), (1, 2), (2, 3), (3, 4)]),
    "ring5": (5, [(0, 1), (1, 2), (2, 3), (3, 4), (4, 0)]),
    "tee5": (5, [(0, 1), (1, 2), (1, 3), (3, 4)]),
    "line3": (3, [(0, 1), (1, 2)]),
    "line4": (4, [(0, 1), (1, 2), (2, 3)]),
    "ring4": (4, [(0, 1), (1, 2), (2, 3), (3, 0)]),
    "grid6": (6, [(0, 1), (1, 2), (3, 4), (4, 5), (0, 3), (1, 4), (2, 5)]),
    "line2": (2, [(0, 1)]),
}
MAIN_SHAPES = ["star5", "line5", "ring5", "tee5"]
STR_NAMES = [["q%d" % i for i in range(8)], ["A", "b", "C3", "d_", "E", "f", "G", "h9"], ["q4", "q0", "q3", "q1", "q2", "q7", "q5", "q6"]]


def label_device(rng, shape, style):
    """'id': 0..k-1 in order; 'perm': permuted integers; 'gap': integers with gaps; 'str'."""
    k, edges = SHAPES[shape]
    if style == "id":
        names = list(range(k))
    elif style == "perm":
        names = list(range(k))
        rng.shuffle(names)
    elif style == "gap":
        names = rng.sample(range(0, 12), k)
    else:
        names = list(rng.choice(STR_NAMES)[:k])
        rng.shuffle(names)
    E = [(names[a], names[b]) for a, b in edges]
    rng.shuffle(E)
    E = [e if rng.random() < 0.5 else (e[1], e[0]) for e in E]
    nodes = list(names)
    if style != "id":
        rng.shuffle(nodes)
    return nodes, E


def connected_subsets(nodes, edges, k):
    G = nx.Graph()
    G.add_nodes_from(nodes)
    G.add_edges_from(edges)
    return [list(s) for s in itertools.combinations(nodes, k) if nx.is_connected(G.subgraph(s))]


def sabre_opts(rng):
    return {"lookahead": rng.choice([0, 1, 2, 2, 3]), "decay_lookahead": rng.choice([0.0, 0.6, 0.6, 1.0]),
            "delta": rng.choice([0.001, 0.001, 0.5]), "swap_threshold": rng.choice([0.1, 0.4, 1.5, 1.5, 3.0]),
            "seed": rng.randrange(1000)}


def router_desc(rng, kind):
    if kind == "Sabre":
        return ["router", "Sabre", sabre_opts(rng)]
    if kind == "ShortestPaths":
        return ["router", "ShortestPaths", ({"seed": rng.randrange(1000)} if rng.random() < 0.8 else {})]
    return ["router", "Star", {}]


def placer_desc(rng, kind):
    if kind == "Random":
        return ["placer", "Random", {"seed": rng.randrange(1000), "samples": rng.choice([1, 5, 100])}]
    if kind in ("Subgraph", "Star"):
        return ["placer", kind, {}]
    rd = router_desc(rng, rng.choice(["Sabre", "ShortestPaths"]))
    return ["placer", "ReverseTraversal", {"router": [rd[1], rd[2]], "depth": rng.choice([None, 1, 3, 5, 9])}]


def make_case(rng, shape=None, style=None, placer="auto", router="auto", unroll="auto", pre="auto", mode=None,
              meas=None, restrict="auto", ngates=None, small=None):
    shape = shape or rng.choice(MAIN_SHAPES * 3 + list(SHAPES))
    style = style or rng.choice(["id", "perm", "gap", "str"])
    nodes, edges = label_device(rng, shape, style)
    on = None
    dev = list(nodes)
    if restrict == "auto":
        restrict = rng.random() < 0.25 and len(nodes) >= 4
    if restrict:
        subs = connected_subsets(nodes, edges, rng.choice([k for k in (3, 4, 5) if k < len(nodes)] or [len(nodes)]))
        if subs:
            on = rng.choice(subs)
            rng.shuffle(on)
            dev = list(on)
    N = len(dev)
    is_star = shape == "star5" and on is None
    if pre == "auto":
        pre = rng.random() < 0.75
    n = rng.randint(1, N) if pre else N
    if pre and (small is False or (small is None and rng.random() < 0.3)):
        n = N
    if pre and small is True and N > 1:
        n = rng.randint(1, N - 1)
    wn = rng.sample(dev, n)
    if all(isinstance(x, int) for x in dev) and set(range(n)) <= set(dev) and rng.random() < 0.3:
        wn = None   # default wire names 0..n-1
    if rng.random() < 0.15 and n == N:
        wn = list(dev)
    if placer == "auto":
        placer = rng.choice(["none", "Random", "Subgraph", "ReverseTraversal"] + (["Star"] * 2 if is_star else []))
    if router == "auto":
        router = rng.choice(["ShortestPaths", "Sabre", "none"] + (["Star"] * 2 if is_star else []))
    if (placer == "Star" or router == "Star") and not is_star:
        placer = "none" if placer == "Star" else placer
        router = "Sabre" if router == "Star" else router
    if unroll == "auto":
        unroll = rng.choice(["none"] + NATIVE_NAMES)
    if mode is None:
        mode = rng.choice(["int", "det", "named"]) if unroll == "none" else rng.choice(["named", "det"])
    if unroll.startswith("cnot"):
        mode = "detcnot" if mode in ("det", "detcnot") else "cnot"
    if unroll != "none" and mode == "int":
        mode = "named"
    if meas is None:
        meas = rng.choice(["none", "trailing", "trailing", "mid", "rich", "rich"])
    ng = ngates if ngates is not None else rng.randint(0, 10)
    gl = random_recipe(rng, n, ng, mode, meas)
    passes = []
    if pre:
        passes.append(["pre"])
    if placer != "none":
        passes.append(placer_desc(rng, placer))
    if router != "none":
        passes.append(router_desc(rng, router))
    if unroll != "none":
        passes.append(["unroller", unroll])
    case = {"shape": shape, "nodes": nodes, "edges": edges, "on_qubits": on, "n": n, "wire_names": wn, "gates": gl,
            "passes": passes, "natives": unroll if unroll != "none" else "default",
            "exact": mode in ("int", "det", "detcnot"), "det": mode in ("det", "detcnot"), "mode": mode}
    if case["det"]:
        case["inputs"] = [[rng.randrange(2) for _ in range(n)] for _ in range(2)]
    # wire names for later calls of the same Passes object: the device qubits in other orders / other subsets
    case["alt_wires"] = [rng.sample(dev, n) for _ in range(2)]
    return case


# pass lists with TWO routers: Passes returns only the last router's layout (reported to the lead
# with /tmp/patches/c11_4.diff: the layouts must be composed, cf. T11_fold_semantics / T11_fold_layout);
# switch on once the patch is applied (or the finding is listed): key `two-routers:layout`
TWO_ROUTERS = False


def make_two_routers(rng):
    case = make_case(rng, shape=rng.choice(["line5", "ring5", "tee5", "line4"]), placer=rng.choice(["none", "Random"]),
                     router=rng.choice(["ShortestPaths", "Sabre"]), unroll="none", mode="det", meas="trailing", restrict=False,
                     ngates=rng.randint(3, 8))
    i = next(k for k, d in enumerate(case["passes"]) if d[0] == "router")
    case["passes"].insert(i + 1, router_desc(rng, rng.choice(["ShortestPaths", "Sabre"])))
    return case


def make_star_mid(rng):
    """star device, StarConnectivityRouter: a reporting measurement (final, not trailing) of the
    logical qubit that sits on the centre when it is met, then two-qubit gates between leaves (the
    router swaps the centre away), then more gates and registers."""
    det = rng.random() < 0.6
    case = make_case(rng, shape="star5", placer=rng.choice(["none", "none", "Star"]), router="Star",
                     unroll=rng.choice(["none", "none", "default", "cz_u3", "iswap_gpi2"]), pre=True, mode="det" if det else "named",
                     meas="none", restrict=False, ngates=0)
    n, wn = case["n"], case["wire_names"] if case["wire_names"] is not None else list(range(case["n"]))
    deg = {}
    for a, b in case["edges"]:
        deg[a] = deg.get(a, 0) + 1
        deg[b] = deg.get(b, 0) + 1
    centre = max(deg, key=deg.get)
    mode = case["mode"]
    qc = wn.index(centre) if centre in wn else rng.randrange(n)
    others = [q for q in range(n) if q != qc]
    codes = [random_gate(rng, n, mode) for _ in range(rng.randint(0, 2))]
    codes.append(rng.choice(DET_1Q).format(qc))
    codes.append(meas_code(rng, [qc], 0, det))
    reg = 1
    for _ in range(rng.randint(1, 4)):
        if len(others) >= 2 and rng.random() < 0.7:
            a, b = rng.sample(others, 2)
            codes.append(rng.choice(CNOT_2Q if mode in ("detcnot", "cnot") else DET_2Q).format(a, b))
        else:
            codes.append(random_gate(rng, n, mode))
        if others and rng.random() < 0.3:
            q = others.pop(rng.randrange(len(others)))
            codes.append(meas_code(rng, [q], reg, det))
            reg += 1
    rest = list(others)
    rng.shuffle(rest)
    rest = rest[: rng.randint(0, len(rest))]
    if rest:
        codes.append(meas_code(rng, rest, reg, det))
    case["gates"] = codes
    return case


# Preprocessing / Rearrange / StarConnectivityRouter drop the circuit's density_matrix flag (reported to
# the lead with /tmp/patches/d11_density_matrix_flag.diff); switch on once repaired: key `<passes>:density-matrix`
DM_FLAG = True


def make_rearrange(rng):
    """a pipeline with the optimizer pass Rearrange (fusion into Unitary gates) in front."""
    k = rng.choice([1, 2])
    case = make_case(rng, placer=rng.choice(["none", "Random"]), router=rng.choice(["ShortestPaths", "Sabre", "none"]),
                     unroll=rng.choice(["none", "default", "cz_u3"]) if k == 1 else "none",   # (numerical KAK of fused 2-qubit unitaries: C10)
                     mode=rng.choice(["det", "named"]), meas=rng.choice(["trailing", "rich", "rich"]), ngates=rng.randint(2, 8))
    i = 1 if case["passes"] and case["passes"][0][0] == "pre" and rng.random() < 0.6 else 0
    case["passes"].insert(i, ["rearrange", k])
    case["exact"] = False
    return case


def make_odd(rng, case):
    """the same pipeline with extra Preprocessing / Unroller passes at arbitrary positions
    (`Passes.__call__` is a fold over ANY pass list: T11_fold_invariants)."""
    case = dict(case)
    passes = [list(p) for p in case["passes"]]
    unr = [p for p in passes if p[0] == "unroller"]
    for _ in range(rng.randint(1, 2)):
        extra = ["pre"] if (not unr or rng.random() < 0.5) else list(unr[0])
        passes.insert(rng.randint(0, len(passes)), extra)
    case["passes"] = passes
    return case


def make_shared(rng):
    """several pipelines that SHARE their pass objects (see SPEC run_shared)."""
    placer = rng.choice(["none", "none", "Random", "Subgraph", "ReverseTraversal"])
    router = rng.choice(["ShortestPaths", "Sabre", "Sabre", "none"])
    unroll = rng.choice(["none", "default", "default"] + NATIVE_NAMES)
    pre = rng.random() < 0.8
    variant = rng.choice(["restrict", "restrict", "devices", "labels"])
    shape = rng.choice(["ring5", "line5", "tee5", "grid6"])
    style = rng.choice(["id", "perm", "gap", "str"])
    mode = rng.choice(["det", "det", "named"]) if unroll != "none" else rng.choice(["int", "det"])
    kw = dict(placer=placer, router=router, unroll=unroll, pre=pre, mode=mode, ngates=rng.randint(1, 7))
    a = make_case(rng, shape=shape, style=style, restrict=False, **kw)
    if variant == "restrict":
        # the same device restricted with on_qubits to a connected subset
        subs = connected_subsets(a["nodes"], a["edges"], rng.choice([3, 4]))
        on = list(rng.choice(subs))
        rng.shuffle(on)
        n = rng.randint(1, len(on)) if pre else len(on)
        b = dict(a, on_qubits=on, n=n, wire_names=rng.sample(on, n),
                 gates=random_recipe(rng, n, rng.randint(1, 7), a["mode"], rng.choice(["none", "trailing"])))
        if b["det"]:
            b["inputs"] = [[rng.randrange(2) for _ in range(n)] for _ in range(2)]
        b["alt_wires"] = [rng.sample(on, n) for _ in range(2)]
    elif variant == "devices":
        b = make_case(rng, shape=rng.choice([x for x in ["ring5", "line5", "tee5", "line4", "ring4", "line3", "grid6"] if x != shape]),
                      restrict=False, **kw)
    else:
        b = make_case(rng, shape=shape, style=rng.choice(["perm", "gap", "str"]), restrict=False, **kw)
    ctor = rng.choice([None, None, 0, 1])
    schedule = rng.choice([[0, 1], [1, 0], [0, 1, 0], [1, 0, 1], [0, 0, 1], [0, 0], [1, 1, 0], [0, 1, 1, 0]]) if ctor is None else rng.choice([[1 - ctor], [1 - ctor, ctor], [ctor, 1 - ctor]])
    keep = ("shape", "nodes", "edges", "on_qubits", "n", "wire_names", "gates", "exact", "det", "inputs", "alt_wires")
    return {"passes": a["passes"], "natives": a["natives"], "pipelines": [{k: x[k] for k in keep if k in x} for x in (a, b)],
            "schedule": schedule, "ctor": ctor, "variant": variant}


def case_label(case):
    return "+".join(d[0] if d[0] == "pre" else ("Rearrange" if d[0] == "rearrange" else d[1] if d[0] != "unroller" else "Unroller") for d in case["passes"]) or "empty"


# ---------------------------------------------------------------------------
# encoding for the Lean driver


class Enc:
    """names -> naturals, gates -> (cls, tag, qubits) in the class ids of C10's model."""

    def __init__(self):
        self.names = {}
        self.cls = {f: i for i, f in enumerate(FLAGS)}
        self.cls["Align"] = 9
        self.tags = {}

    def name(self, x):
        key = (type(x).__name__, repr(x))
        return self.names.setdefault(key, 10 + len(self.names))

    def gate(self, g):
        s = SPEC["sig"](g)
        c = self.cls.setdefault(type(g).__name__, 10 + len(self.cls))
        t = self.tags.setdefault(s, len(self.tags) + 1)   # a measurement's tag stands for ALL its constructor arguments
        return (c, t, tuple(int(q) for q in g.qubits))

    def gtoks(self, g):
        return f"{g[0]} {g[1]} {len(g[2])} " + " ".join(map(str, g[2]))

    def gates_toks(self, gs):
        return f"{len(gs)} " + " ".join(self.gtoks(g) for g in gs)

    def device(self, nodes, edges):
        return (f"{len(nodes)} " + " ".join(str(self.name(v)) for v in nodes) + f" {len(edges)} "
                + " ".join(f"{self.name(a)} {self.name(b)}" for a, b in edges))

    def circ(self, n, wires, glist):
        return f"{n} {len(wires)} " + " ".join(str(self.name(w)) for w in wires) + " " + self.gates_toks(glist)


def mask_of(ns):
    NG = SPEC["NativeGates"]
    m = 0
    for k, f in enumerate(FLAGS):
        if getattr(NG, f) & ns:
            m |= 1 << k
    return m


class Suite:
    def __init__(self, ctx):
        self.ctx = ctx
        self.lines = []
        self.expect = []   # (suite, expected, info)
        self.bad = {}
        self.detail = {}
        self.cases = {}    # suite -> failing info list
        self.unroll_log = []  # (case, natives name, gates entering a real Unroller call, gates leaving it | None)

    def add(self, suite, line, expected, info=None):
        self.lines.append(line)
        self.expect.append((suite, expected, info))

    def note(self, suite, msg, info=None):
        self.bad[suite] = self.bad.get(suite, 0) + 1
        self.detail.setdefault(suite, msg)
        if info is not None:
            self.cases.setdefault(suite, []).append(info)


# ---------------------------------------------------------------------------
# correspondence suites


def real_outcome(fn):
    try:
        return ("ok", fn())
    except Exception as e:  # the model says `none` for every raise
        return ("err", e)


def pad_suite(ctx, st, rng):
    """Preprocessing against `pad`: every shape x labelling, every circuit size, wire-name
    subsets in arbitrary order, names outside the device, too many qubits."""
    Pre = SPEC["Preprocessing"]
    cases = []
    for shape in SHAPES:
        for style in ("id", "perm", "gap", "str"):
            nodes, edges = label_device(rng, shape, style)
            N = len(nodes)
            for n in range(1, N + 2):
                for rep in range(6 if ctx.thorough else 2):
                    kind = rng.choice(["sub", "sub", "sub", "default", "foreign"])
                    if n > N:
                        wn = (list(nodes) + ["zz%d" % i for i in range(n)])[:n] if rng.random() < 0.5 else None
                    elif kind == "sub":
                        wn = rng.sample(nodes, n)
                    elif kind == "default":
                        wn = None
                    else:
                        wn = rng.sample(nodes, n)
                        wn[rng.randrange(n)] = "zz" if style == "str" else 99
                    cases.append((nodes, edges, n, wn, random_recipe(rng, n, rng.randint(0, 5), "int", rng.choice(["none", "trailing", "mid", "rich", "rich"]))))
    for nodes, edges, n, wn, gl in cases:
        enc = Enc()
        G = SPEC["build_graph"](nodes, edges)
        c = SPEC["build_circuit"](n, wn, gl)
        before = SPEC["snapshot"](c)
        ids_before = [id(g) for g in c.queue]
        kind, r = real_outcome(lambda: Pre(G)(c))
        wires = list(c.wire_names)
        line = "PAD " + enc.device(list(G.nodes), edges) + " " + enc.circ(n, wires, [enc.gate(g) for g in c.queue])
        info = {"nodes": nodes, "edges": edges, "n": n, "wire_names": wn, "gates": gl}
        if kind == "err":
            exp = ("ERR", None)
            ctx.stat("pad_refused")
        else:
            exp = (r.nqubits, [enc.name(w) for w in r.wire_names], [enc.gate(g) for g in r.queue] == [enc.gate(g) for g in c.queue])
            ctx.stat("pad_padded" if r.nqubits > n else "pad_same_size")
            # direct property (c): own wires in position, device nodes appended, queue unchanged, input untouched
            okc = (list(r.wire_names[:n]) == wires and set(r.wire_names) == set(nodes) and len(r.wire_names) == len(nodes)
                   and r.nqubits == len(nodes) and SPEC["snapshot"](r)[2] == before[2]
                   and SPEC["snapshot"](c) == before and [id(g) for g in c.queue] == ids_before)
            if not okc:
                st.note("padprop", f"Preprocessing on nodes {nodes}, circuit n={n} wire_names={wn}: result wire_names {r.wire_names}, nqubits {r.nqubits}", info)
        st.add("pad", line, (exp, n), info)
        ctx.case(("pad", len(nodes), n, kind, wn is None))


def assert_suite(ctx, st, rng):
    """assert_placement / assert_connectivity / assert_decomposition / is_satisfied against
    the model, on accepted and rejected circuits (wrong names, duplicated names, fewer
    qubits, off-edge gates, 3-qubit gates, 2- and 3-qubit measurements, non-native gates)."""
    NG = SPEC["NativeGates"]
    count = 900 if ctx.thorough else 300
    for i in range(count):
        enc = Enc()
        shape = rng.choice(list(SHAPES))
        nodes, edges = label_device(rng, shape, rng.choice(["id", "perm", "gap", "str"]))
        N = len(nodes)
        G = SPEC["build_graph"](nodes, edges)
        r = rng.random()
        n = N
        wn = rng.sample(nodes, N)
        if r < 0.12 and N > 1:
            n = N - 1
            wn = rng.sample(nodes, n)
        elif r < 0.24:
            wn[rng.randrange(N)] = rng.choice(wn)       # duplicate (or unchanged)
        elif r < 0.34:
            wn[rng.randrange(N)] = "zz" if isinstance(nodes[0], str) else 77
        natname = rng.choice(NATIVE_NAMES)
        nat = SPEC["natives_of"](natname)
        if rng.random() < 0.2:
            nat = NG.from_gatelist([getattr(gates, f) for f in rng.sample(FLAGS, rng.randint(0, 4))]) if rng.random() < 0.8 else NG(0)
        gl = []
        style = rng.choice(["native_on_edges", "native_on_edges", "any", "any3"])
        idx = {w: k for k, w in enumerate(wn)}
        e_idx = [(idx[a], idx[b]) for a, b in edges if a in idx and b in idx and idx[a] != idx[b] and max(idx[a], idx[b]) < n]
        two_nat = [f for f in ("CZ", "iSWAP", "CNOT") if getattr(NG, f) & nat] or ["CZ"]
        one_nat = [f for f in ("GPI2", "U3", "RZ", "Z", "I") if getattr(NG, f) & nat] or ["Z"]
        par = {"GPI2": ", 0.3", "U3": ", 0.1, 0.2, 0.3", "RZ": ", 0.4"}
        for _ in range(rng.randint(0, 7)):
            if style == "native_on_edges" and rng.random() < 0.9:
                if e_idx and rng.random() < 0.5:
                    a, b = rng.choice(e_idx)
                    if rng.random() < 0.5:
                        a, b = b, a
                    gl.append(f"gates.{rng.choice(two_nat)}({a},{b})")
                else:
                    f = rng.choice(one_nat)
                    gl.append(f"gates.{f}({rng.randrange(n)}{par.get(f, '')})")
            else:
                x = rng.random()
                if x < 0.15 and n >= 3 and style == "any3":
                    a, b, c3 = rng.sample(range(n), 3)
                    gl.append(rng.choice([f"gates.TOFFOLI({a},{b},{c3})", f"gates.M({a},{b},{c3})", f"gates.Z({a}).controlled_by({b},{c3})"]))
                elif x < 0.3 and n >= 2:
                    a, b = rng.sample(range(n), 2)
                    gl.append(f"gates.M({a},{b})")
                else:
                    gl.append(random_gate(rng, n, "named"))
        if rng.random() < 0.4:
            gl.append(f"gates.M({','.join(map(str, rng.sample(range(n), rng.randint(1, n))))})")
        try:
            c = SPEC["build_circuit"](n, wn, gl)
        except Exception:
            continue
        P = SPEC["Passes"]([], connectivity=G, native_gates=nat)
        res = []
        for fn in (lambda: SPEC["assert_placement"](c, G), lambda: SPEC["assert_connectivity"](G, c),
                   lambda: SPEC["assert_decomposition"](c, nat)):
            res.append(real_outcome(fn)[0] == "ok")
        res.append(bool(P.is_satisfied(c)))
        line = "ASSERT " + enc.device(list(G.nodes), edges) + f" {mask_of(nat)} " + enc.circ(n, list(c.wire_names), [enc.gate(g) for g in c.queue])
        info = {"nodes": nodes, "edges": edges, "n": n, "wire_names": wn, "gates": gl, "natives": [f for f in FLAGS if getattr(NG, f) & nat]}
        st.add("assert", line, " ".join("1" if b else "0" for b in res), info)
        ctx.case(("assert", tuple(res), shape))
        ctx.stat("assert_verdict_" + "".join("1" if b else "0" for b in res))


def star_suite(ctx, st, rng):
    """StarConnectivityPlacer against `starPlace`: every centre label and wire order,
    gates on and off the centre, measurements of 1-3 qubits, 3-qubit gates, non-star graphs."""
    SP = SPEC["StarConnectivityPlacer"]
    count = 600 if ctx.thorough else 200
    for i in range(count):
        enc = Enc()
        shape = "star5" if rng.random() < 0.85 else rng.choice(["line5", "ring5", "tee5", "line4"])
        nodes, edges = label_device(rng, shape, rng.choice(["id", "perm", "gap", "str"]))
        N = len(nodes)
        G = SPEC["build_graph"](nodes, edges)
        wn = rng.sample(nodes, N)
        gl = []
        for _ in range(rng.randint(0, 6)):
            x = rng.random()
            if x < 0.12:
                qs = rng.sample(range(N), rng.choice([1, 2, 3]))
                gl.append(f"gates.M({','.join(map(str, qs))})")
            elif x < 0.18 and N >= 3:
                a, b, c3 = rng.sample(range(N), 3)
                gl.append(f"gates.TOFFOLI({a},{b},{c3})")
            else:
                gl.append(random_gate(rng, N, "named"))
        c = SPEC["build_circuit"](N, wn, gl)
        before = SPEC["snapshot"](c, names=False)
        ids_before = [id(g) for g in c.queue]
        line = "STARP " + enc.device(list(G.nodes), edges) + " " + enc.circ(N, list(c.wire_names), [enc.gate(g) for g in c.queue])
        kind, r = real_outcome(lambda: SP(G)(c))
        info = {"nodes": nodes, "edges": edges, "n": N, "wire_names": wn, "gates": gl}
        if kind == "err":
            exp = "ERR"
            info["error"] = f"{type(r).__name__}: {r}"
            ctx.stat("starplacer_raises")
        else:
            exp = " ".join(str(enc.name(w)) for w in c.wire_names)
            ctx.stat("starplacer_swapped" if list(c.wire_names) != wn else "starplacer_kept")
            if SPEC["snapshot"](c, names=False) != before or [id(g) for g in c.queue] != ids_before or set(c.wire_names) != set(nodes):
                st.note("placerprop", f"StarConnectivityPlacer changed the queue or gave wire_names {c.wire_names}", info)
        st.add("star", line, exp, info)
        ctx.case(("starp", shape, exp == "ERR", tuple(gl)[:3]))


def restrict_suite(ctx, st, rng):
    """restrict_connectivity_qubits (also through Passes(on_qubits=...)) against `restrict`."""
    rc = SPEC["restrict_connectivity_qubits"]
    count = 400 if ctx.thorough else 150
    for i in range(count):
        enc = Enc()
        shape = rng.choice(list(SHAPES))
        nodes, edges = label_device(rng, shape, rng.choice(["id", "perm", "gap", "str"]))
        G = SPEC["build_graph"](nodes, edges)
        k = rng.randint(1, len(nodes))
        qs = rng.sample(nodes, k)
        if rng.random() < 0.1:
            qs[rng.randrange(k)] = "zz" if isinstance(nodes[0], str) else 88
        if rng.random() < 0.1:
            qs.append(qs[0])
        kind, r = real_outcome(lambda: (rc(G, qs) if rng.random() < 0.5 else SPEC["Passes"]([], connectivity=G, on_qubits=qs).connectivity))
        line = "RESTRICT " + enc.device(list(G.nodes), edges) + f" {len(qs)} " + " ".join(str(enc.name(q)) for q in qs)
        if kind == "err":
            exp = "ERR"
        else:
            exp = (frozenset(enc.name(v) for v in r.nodes), frozenset(frozenset((enc.name(a), enc.name(b))) for a, b in r.edges))
        st.add("restrict", line, exp, {"nodes": nodes, "edges": edges, "qubits": qs})
        ctx.case(("restrict", shape, k, kind))
        ctx.stat("restrict_" + kind)


def sort_suite(ctx, st, rng):
    """`sorted(mapping, key=mapping.get)` against `sortedKeys` (bijections and ties)."""
    for i in range(60 if ctx.thorough else 25):
        k = rng.randint(0, 7)
        keys = rng.sample(range(10, 40), k)
        vals = list(range(k))
        rng.shuffle(vals)
        if rng.random() < 0.25 and k:
            vals = [rng.randrange(k) for _ in range(k)]
        m = dict(zip(keys, vals))
        st.add("sort", f"SORT {k} " + " ".join(f"{a} {b}" for a, b in m.items()), " ".join(map(str, sorted(m, key=m.get))), None)
        ctx.case(("sort", k, tuple(vals)))


def record_pass(p, log, enc):
    """make one pass object log its call (dynamic subclass; qibo itself is untouched)."""
    base = type(p)

    def call(self, circuit, *a, **k):
        entry = {"kind": base.__name__, "conn": SPEC["graph_key"](self.connectivity) if getattr(self, "connectivity", None) is not None else None,
                 "in": (circuit.nqubits, list(circuit.wire_names), [enc.gate(g) for g in circuit.queue]), "in_gates": list(circuit.queue)}
        try:
            r = base.__call__(self, circuit, *a, **k)
        except Exception as e:
            entry["err"] = e
            log.append(entry)
            raise
        entry["out"] = r
        oc = r[0] if isinstance(r, tuple) else r
        if isinstance(oc, Circuit):   # snapshot now: later passes may rename the wires of this very object
            entry["out_state"] = (oc.nqubits, list(oc.wire_names), [enc.gate(g) for g in oc.queue])
        entry["in_after"] = (circuit.nqubits, list(circuit.wire_names), [enc.gate(g) for g in circuit.queue])
        log.append(entry)
        return r

    p.__class__ = type("Rec" + base.__name__, (base,), {"__call__": call})


def pipe_record(ctx, st, case):
    """one real run of Passes.__call__ with every pass recorded; queues the PIPE line."""
    enc = Enc()
    G, P = SPEC["build_passes"](case)
    D = SPEC["device_graph"](case)
    log = []
    for p in P.passes:
        record_pass(p, log, enc)
    c = SPEC["build_circuit"](case["n"], case["wire_names"], case["gates"])
    n0, w0, q0 = c.nqubits, list(c.wire_names), [enc.gate(g) for g in c.queue]
    kind, r = real_outcome(lambda: P(c))
    # device nodes in an order that makes Python's set iteration order the node order
    nodes = list(P.connectivity.nodes)
    for e in log:
        if e["kind"] == "Preprocessing" and "out" in e and e["out_state"][0] > e["in"][0]:
            tail = list(e["out_state"][1])[e["in"][0]:]
            nodes = [v for v in nodes if v not in tail] + tail
    toks = []
    states = []
    for e in log:
        k = e["kind"]
        if k == "Preprocessing":
            toks.append("PRE")
            if "out" in e:
                o = e["out_state"]
                states.append((o[0], [enc.name(w) for w in o[1]], len(o[2]), "keep"))   # an Optimizer leaves final_layout alone
        elif k == "StarConnectivityPlacer":
            toks.append("STAR")
            if "out" in e:
                a = e["in_after"]
                states.append((a[0], [enc.name(w) for w in a[1]], len(a[2]), None))
        elif k in ("Random", "Subgraph", "ReverseTraversal"):
            if "out" in e:
                a = e["in_after"]
                toks.append(f"PLACE {len(a[1])} " + " ".join(str(enc.name(w)) for w in a[1]))
                states.append((a[0], [enc.name(w) for w in a[1]], len(a[2]), None))
            else:
                toks.append("PLACE ERR")
        elif k in ("ShortestPaths", "Sabre", "StarConnectivityRouter"):
            if "out" in e:
                _, lay = e["out"]
                o = e["out_state"]
                wn = list(o[1])
                l2p = [lay[w] for w in wn]
                q = o[2]
                toks.append("ROUTE " + enc.gates_toks(q) + f" {len(l2p)} " + " ".join(map(str, l2p)))
                states.append((o[0], [enc.name(w) for w in wn], len(q), l2p))
            else:
                toks.append("ROUTE ERR")
        elif k == "Unroller":
            st.unroll_log.append((case, e["in_gates"], list(e["out"].queue) if "out" in e else None))
            if "out" in e:
                o = e["out_state"]
                q = o[2]
                toks.append("UNROLL " + enc.gates_toks(q))
                states.append((o[0], [enc.name(w) for w in o[1]], len(q), "keep"))
            else:
                toks.append("UNROLL ERR")
        # hand-over: every pass that has a connectivity was given the pipeline's own
        if e["conn"] is not None and e["conn"] != SPEC["graph_key"](D):
            st.note("handover", f"{k} was called with a connectivity different from the pipeline's (case {case_label(case)})", case)
    nat = SPEC["natives_of"](case.get("natives", "default"))
    line = ("PIPE " + enc.device(nodes, [e for e in P.connectivity.edges]) + f" {mask_of(nat)} " + enc.circ(n0, w0, q0)
            + f" {len(toks)} " + " ".join(toks))
    if kind == "err":
        exp = ("ERR", len(log) - 1, states)
    else:
        out, lay = r
        verdict = []
        for fn in (lambda: SPEC["assert_placement"](out, P.connectivity), lambda: SPEC["assert_connectivity"](P.connectivity, out),
                   lambda: SPEC["assert_decomposition"](out, nat)):
            verdict.append(real_outcome(fn)[0] == "ok")
        verdict.append(bool(P.is_satisfied(out)))
        final = (out.nqubits, [enc.name(w) for w in out.wire_names], len(out.queue),
                 None if lay is None else [lay[w] for w in out.wire_names])
        exp = ("OK", states, final, verdict)
    st.add("pipe", line, exp, case)
    ctx.case(("pipe", case_label(case), case["shape"], case["n"], kind))
    ctx.stat("pipe_" + kind)


class TableShapes:
    """shape of the real translation tables (rows reached from given gates), in the token
    format of DriverC10 / DriverC11: tags = exact parameter values."""
    TABLES = ["gpi2_dec", "u3_dec", "cz_dec", "iswap_dec", "opt_dec", "cnot_dec_temp"]

    def __init__(self):
        from qibo.transpiler import decompositions as D
        self.tables = [getattr(D, t) for t in self.TABLES]
        self.cls = {f: i for i, f in enumerate(FLAGS)}
        self.cls["Align"] = 9
        self.tags = {}
        self.rows = [dict() for _ in self.tables]
        self.done = set()

    def cid(self, name):
        return self.cls.setdefault(name, 10 + len(self.cls))

    @staticmethod
    def pkey(g):
        import numpy as np
        ps = []
        for p in g.parameters:
            a = np.asarray(p)
            ps.append((float(a.real) + 0.0).hex() if a.ndim == 0 else (a.astype(complex) + 0.0).tobytes())
        return (type(g).__name__, tuple(ps))

    def tag(self, g):
        return 0 if isinstance(g, gates.M) else self.tags.setdefault(self.pkey(g), len(self.tags) + 1)

    def ugate(self, g):
        return (self.cid(type(g).__name__), tuple(int(q) for q in g.qubits), self.tag(g), 1 if g.is_controlled_by else 0)

    def close(self, g, depth=0):
        k = self.pkey(g)
        if k in self.done or depth > 6:
            return
        self.done.add(k)
        c, t = self.cid(type(g).__name__), self.tag(g)
        for i, table in enumerate(self.tables):
            if type(g) not in table.decompositions:
                continue
            try:
                tmpl = list(table._check_instance(g, SPEC["_NB"]))
            except Exception:
                continue      # producing the entry raises: no row
            self.rows[i][(c, t)] = [self.ugate(x) for x in tmpl]
            for x in tmpl:
                self.close(x, depth + 1)

    @staticmethod
    def utoks(u):
        c, qs, t, cb = u
        return f"{c} {len(qs)} " + " ".join(map(str, qs)) + f" {t} {cb}"

    def tokens(self):
        out = []
        for i, table in enumerate(self.tables):
            cs = sorted(self.cid(c.__name__) for c in table.decompositions)
            out.append(f"{len(cs)} " + " ".join(map(str, cs)))
            out.append(str(len(self.rows[i])))
            for (c, t), tmpl in sorted(self.rows[i].items()):
                out.append(f"{c} {t} {len(tmpl)} " + " ".join(self.utoks(u) for u in tmpl))
        return " ".join(out)


def dispatch_suite(ctx, st, rng):
    """the unroller INSIDE the model: (a) LOCAL — locality of the real tables' shapes (every
    class of the six tables, boundary and random parameters); (b) DISPATCH — for the real
    Unroller calls recorded inside real pipeline runs (queues that went through padding,
    placement and routing), C10's dispatch model on the tables' shapes must return the real
    result, and closed + local tables must give the contract `unrollOk` (T11_unrollOk_derived)."""
    import math
    import numpy as np
    from vlib import qgates
    sh = TableShapes()
    infos = qgates.gate_infos()
    grid = [0.0, math.pi, -math.pi, math.pi / 2, -math.pi / 2, 2 * math.pi, 1e-9, 0.3, -1.1, 2.0]
    classes = {c.__name__ for t in sh.tables for c in t.decompositions}
    for name in sorted(classes):
        info = infos.get(name)
        if info is None or not info.generic:
            continue
        for j in range(8 if ctx.thorough else 4):
            vals = [grid[(j + i) % len(grid)] if j < 3 else rng.choice(grid + [round(rng.uniform(-3, 3), 3)]) for i in range(info.np)]
            try:
                sh.close(info.make(list(range(info.nq)), vals))
            except Exception:
                continue
            if not info.np:
                break
    for g in (gates.Unitary(np.asarray(gates.RY(0, 0.7).matrix(SPEC["_NB"])) @ np.asarray(gates.RZ(0, -0.4).matrix(SPEC["_NB"])), 0),
              gates.fSim(0, 1, 0.4, 1.1), gates.Unitary(np.asarray(gates.CRY(0, 1, 0.9).matrix(SPEC["_NB"])), 0, 1)):
        try:
            sh.close(g)
        except Exception:
            pass
    st.add("local", "LOCAL " + sh.tokens(), "true", {"rows": sum(len(r) for r in sh.rows), "classes": len(classes)})
    ctx.stat("local_rows_checked", sum(len(r) for r in sh.rows))
    for case, gin, gout in st.unroll_log[: (1500 if ctx.thorough else 300)]:
        nat = SPEC["natives_of"](case.get("natives", "default"))
        sh = TableShapes()
        for g in gin:
            sh.close(g)
        ins = [sh.ugate(g) for g in gin]
        exp = "ERR" if gout is None else [f"{c}:{','.join(map(str, qs))}:{t}" for c, qs, t, cb in (sh.ugate(g) for g in gout)]
        if gout is not None:
            for g in gout:
                sh.close(g)
        st.add("dispatch", f"DISPATCH {mask_of(nat)} 8 {sh.tokens()} {len(ins)} " + " ".join(sh.utoks(u) for u in ins), exp,
               {"passes": case_label(case), "natives": case.get("natives"), "gates": case["gates"], "n": case["n"], "nodes": case["nodes"]})
        ctx.case(("dispatch", case_label(case), case.get("natives"), len(ins), exp == "ERR"))
        ctx.stat("dispatch_unroller_calls")


def process_driver(ctx, st):
    if not st.lines:
        return
    res = run_driver(st.lines, driver=DRIVER)
    for line, (suite, exp, info) in zip(res, st.expect):
        line = line.strip()
        if suite == "pad":
            (e, n) = exp
            if e[0] == "ERR":
                if line != "ERR":
                    st.note("pad", f"Preprocessing raises, model gives {line}: {info}", info)
                continue
            if line == "ERR":
                st.note("pad", f"model refuses, Preprocessing returns wire_names of {e[0]} qubits: {info}", info)
                continue
            a, w, qb = [x.strip() for x in line.split("|")]
            w = [int(x) for x in w.split()]
            if int(a) != e[0] or w[:n] != e[1][:n] or sorted(w) != sorted(e[1]) or (qb == "1") != e[2]:
                st.note("pad", f"model {line} / real {e}: {info}", info)
        elif suite in ("assert", "sort", "star"):
            if line != exp:
                st.note(suite, f"model '{line}' / real '{exp}': {info}", info)
        elif suite == "restrict":
            if exp == "ERR" or line == "ERR":
                if line != exp:
                    st.note("restrict", f"model '{line}' / real '{exp}': {info}", info)
                continue
            a, b = (line.split("|") + [""])[:2]
            nodes = frozenset(int(x) for x in a.split())
            t = [int(x) for x in b.split()]
            edges = frozenset(frozenset((t[2 * k], t[2 * k + 1])) for k in range(len(t) // 2))
            if (nodes, edges) != exp:
                st.note("restrict", f"model '{line}' / real {exp}: {info}", info)
        elif suite == "pipe":
            parts = [x.strip() for x in line.split(";")]
            if exp[0] == "ERR":
                # the model must stop at the same pass
                if not parts[-1].startswith("ERR@") or int(parts[-1][4:]) != exp[1]:
                    st.note("pipe", f"real pipeline raises in pass {exp[1]}, model: {line[-80:]} ({case_label(info)})", info)
                continue
            states, final, verdict = exp[1], exp[2], exp[3]
            if parts[-1].startswith("ERR@") or not parts[-1].startswith("#"):
                st.note("pipe", f"model stops ({parts[-1]}) where the real pipeline returns ({case_label(info)})", info)
                continue
            got_states = []
            valid = []
            for p in parts[:-1]:
                f = [x.strip() for x in p.split("|")]
                lay = None if f[3] == "N" else [int(x) for x in f[3].split()[1:]]
                got_states.append((int(f[0]), [int(x) for x in f[1].split()], int(f[2]), lay))
                valid.append(f[4] == "1")
            lay = None
            want_states = []
            for s in states:
                lay = lay if s[3] == "keep" else s[3]
                want_states.append((s[0], s[1], s[2], lay))
            if got_states != want_states:
                st.note("pipe", f"pass-by-pass states differ ({case_label(info)}): model {got_states} real {want_states}", info)
                continue   # the contracts are evaluated on the model's states: meaningless once they differ
            elif want_states and (want_states[-1] != final):
                st.note("pipe", f"Passes returned {final}, its last pass produced {want_states[-1]} ({case_label(info)})", info)
            elif not want_states and final[3] is not None:
                st.note("pipe", f"empty pipeline returned layout {final[3]}", info)
            tail, _, fold = parts[-1][1:].partition("@")
            if tail.split() != ["1" if b else "0" for b in verdict]:
                st.note("pipe", f"acceptance verdicts: model {parts[-1]} real {verdict} ({case_label(info)})", info)
            if not all(valid):
                st.note("contract", f"a pass's answer violates the contract the composition theorem assumes: bits {valid} ({case_label(info)})", info)
            # the fold theorem on this very pass list: flags of the list => real verdicts, layoutAfter = real layout
            ft = fold.split()
            flags, flay = [x == "1" for x in ft[:3]], (None if ft[3] == "N" else [int(x) for x in ft[4:]])
            st.ctx.stat("fold_flags_" + "".join(ft[:3]))
            if all(valid) and any(f and not v for f, v in zip(flags, verdict[:3])):
                st.note("fold", f"pass list {case_label(info)}: the fold predicts placed/connectivity/native = {flags}, real assertions say {verdict[:3]}", info)
            if all(valid) and flags[1] and flags[2] and not verdict[3]:
                st.note("fold", f"pass list {case_label(info)}: the fold predicts is_satisfied, real is_satisfied is False", info)
            if flay != final[3]:
                st.note("fold", f"pass list {case_label(info)}: layoutAfter gives {flay}, Passes returned {final[3]}", info)
        elif suite == "local":
            if line != "true":
                st.note("local", f"the real translation tables are not local (a template gate names a qubit index twice or is a measurement): {info}", info)
        elif suite == "dispatch":
            head, _, rest = line.partition("|")
            bits = head.split()
            body = [x.strip() for x in rest.split("|")]
            if bits[1] != "1":
                st.note("local", f"tables reached from the routed circuit are not local: {info}", info)
            if exp == "ERR" or body[0] == "ERR":
                if (exp == "ERR") != (body[0] == "ERR"):
                    st.note("dispatch", f"unroller inside the model: model {body[0][:120]} / real {str(exp)[:120]} ({info})", info)
                continue
            got = body[0].split()[1:]
            if got != exp:
                st.note("dispatch", f"unroller inside the model: model {got[:12]} / real {exp[:12]} ({info})", info)
            elif bits == ["1", "1", "1"] and body[1] != "1":
                st.note("dispatch", f"closed, local tables and an admissible queue, but unrollOk fails on the dispatch result ({info})", info)
            elif bits == ["1", "1", "1"]:
                st.ctx.stat("dispatch_contract_derived")


# ---------------------------------------------------------------------------
# direct search on the real code


def search_suite(ctx, rng):
    """the property itself on the real pipeline; returns failing (case, calls, same, bad)."""
    run_case = SPEC["run_case"]
    failing = []
    cases = []
    # systematic: every placer x router x native set (x with/without padding)
    placers = ["none", "Random", "Subgraph", "ReverseTraversal", "Star"]
    routers = ["ShortestPaths", "Sabre", "Star", "none"]
    unrolls = ["none"] + NATIVE_NAMES
    combos = [(p, r, u) for p in placers for r in routers for u in unrolls]
    rng.shuffle(combos)
    for p, r, u in combos:
        shape = "star5" if "Star" in (p, r) else rng.choice(MAIN_SHAPES)
        cases.append(make_case(rng, shape=shape, placer=p, router=r, unroll=u, restrict=False if "Star" in (p, r) else "auto",
                               ngates=rng.randint(3, 9)))
    # arbitrary pass lists: extra Preprocessing / Unroller passes at any position
    for _ in range(1500 if ctx.thorough else 150):
        cases.append(make_odd(rng, make_case(rng, ngates=rng.randint(1, 8))))
    # star device: reporting measurements met while their qubit sits on the centre, leaf-leaf gates after them
    for _ in range(800 if ctx.thorough else 90):
        cases.append(make_star_mid(rng))
    if TWO_ROUTERS:
        for _ in range(300 if ctx.thorough else 40):
            cases.append(make_two_routers(rng))
    # random
    for _ in range(16000 if ctx.thorough else 1300):
        cases.append(make_case(rng))
    # circuits smaller than the device with permuted wire-name subsets, measured registers
    for _ in range(4000 if ctx.thorough else 350):
        cases.append(make_case(rng, shape=rng.choice(MAIN_SHAPES), pre=True, small=True, mode="det", meas=rng.choice(["trailing", "mid"]),
                               router=rng.choice(["ShortestPaths", "Sabre"]), ngates=rng.randint(2, 9)))
    # the optimizer pass Rearrange in the pipeline (search only: not a pass of the Lean model)
    for _ in range(500 if ctx.thorough else 60):
        cases.append(make_rearrange(rng))
    if DM_FLAG:
        for _ in range(200 if ctx.thorough else 30):
            case = make_case(rng, mode="det", meas=rng.choice(["trailing", "rich"]), ngates=rng.randint(1, 6))
            case["density_matrix"] = True
            cases.append(case)
    # ONE Passes object called two or three times with circuits whose wire_names list the device qubits in
    # different orders (permuted names; smaller circuits whose padding yields another order), plain and rich
    for _ in range(1200 if ctx.thorough else 140):
        case = make_case(rng, shape=rng.choice(MAIN_SHAPES + ["grid6", "line4"]), router=rng.choice(["Sabre", "Sabre", "ShortestPaths", "auto"]),
                         meas=rng.choice(["rich", "trailing", "none"]), ngates=rng.randint(2, 8))
        case["calls"] = rng.choice([2, 2, 3])
        cases.append(case)
    for case in cases:
        calls = rng.choice([1, 1, 1, 2])
        same = calls == 2 and rng.random() < 0.4
        if case.get("calls"):
            calls, same = case["calls"], False
            ctx.stat("search_reuse_other_wire_order")
        try:
            bad = run_case(case, calls=calls, same_circuit=same)
        except Exception as e:  # the harness itself must not stop the check
            bad = [("harness", f"{type(e).__name__}: {e}")]
        lab = case_label(case)
        ctx.case(("search", lab, case["shape"], case["n"], case["natives"], tuple(case["gates"])[:2]))
        ctx.stat("search_" + lab)
        ctx.stat("search_shape_" + case["shape"])
        if case["on_qubits"] is not None:
            ctx.stat("search_on_qubits")
        if case["n"] < len(case["on_qubits"] or case["nodes"]):
            ctx.stat("search_smaller_than_device")
        if case["det"]:
            ctx.stat("search_outcomes_compared")
        if any("p0=" in c or "p1=" in c for c in case["gates"]):
            ctx.stat("search_noisy_measurements")
        if any("basis=" in c for c in case["gates"]):
            ctx.stat("search_basis_measurements")
        gl_ = case["gates"]
        if any(c.startswith("gates.M(") and "collapse" not in c and any(not x.startswith("gates.M(") for x in gl_[i + 1:]) for i, c in enumerate(gl_)):
            ctx.stat("search_final_not_trailing_measurements")
        if len([d for d in case["passes"] if d[0] in ("pre", "unroller")]) > len({d[0] for d in case["passes"] if d[0] in ("pre", "unroller")}):
            ctx.stat("search_repeated_passes")
        if bad:
            failing.append((case, calls, same, bad))
    ctx.sample({"kind": "pipeline case", "case": {k: cases[0][k] for k in ("nodes", "edges", "on_qubits", "n", "wire_names", "gates", "passes")}})
    return failing, cases


def shared_suite(ctx, st, rng):
    """pass OBJECTS shared by several pipelines / built with another device's graph (SPEC
    run_shared), and the recorded hand-over: at every call, every pass object of the calling
    pipeline holds the calling pipeline's connectivity (model: runPassesObj,
    T11_handover_history_free)."""
    failing = []
    for i in range(1500 if ctx.thorough else 160):
        case = make_shared(rng)
        try:
            bad = SPEC["run_shared"](case)
        except Exception as e:
            bad = [("harness", f"{type(e).__name__}: {e}")]
        lab = case_label(case)
        ctx.case(("shared", lab, case["variant"], tuple(case["schedule"]), case["ctor"], tuple(p["n"] for p in case["pipelines"])))
        ctx.stat("shared_" + case["variant"])
        ctx.stat("shared_ctor" if case["ctor"] is not None else "shared_reuse")
        if bad:
            failing.append((case, bad))
        # recorded hand-over on the real objects (independent of the property check above)
        if i % 2 == 0:
            try:
                handover_record(ctx, st, case)
            except Exception as e:
                st.note("handover", f"recording failed: {type(e).__name__}: {e} ({lab})", case)
    ctx.sample({"kind": "shared pass objects", "case": {k: case[k] for k in ("passes", "schedule", "ctor", "variant")}})
    return failing


def handover_record(ctx, st, case):
    """run the schedule of a shared case with every pass object recording the connectivity
    it holds when called."""
    enc = Enc()
    subs = [dict(p, passes=case["passes"], natives=case.get("natives", "default")) for p in case["pipelines"]]
    conn0 = None
    if case.get("ctor") is not None:
        conn0 = SPEC["build_graph"](subs[case["ctor"]]["nodes"], subs[case["ctor"]]["edges"])
    objs = [SPEC["make_pass"](d, conn0) for d in case["passes"]]
    log = []
    for o in objs:
        record_pass(o, log, enc)
    pipes = [SPEC["Passes"](objs, connectivity=SPEC["build_graph"](x["nodes"], x["edges"]), native_gates=SPEC["natives_of"](x["natives"]),
                            on_qubits=x.get("on_qubits")) for x in subs]
    for step, k in enumerate(case["schedule"]):
        del log[:]
        c = SPEC["build_circuit"](subs[k]["n"], subs[k]["wire_names"], subs[k]["gates"])
        real_outcome(lambda: pipes[k](c))
        want = SPEC["graph_key"](SPEC["device_graph"](subs[k]))
        for e in log:
            ctx.stat("handover_calls_recorded")
            if e["conn"] is not None and e["conn"] != want:
                st.note("handover", f"{e['kind']} was called with a connectivity that is not the calling pipeline's: step {step+1} of schedule "
                                    f"{case['schedule']}, constructor graph {case.get('ctor')}, passes {case_label(case)}", case)


def placer_direct_suite(ctx, rng):
    """(d) every placer called on its own: queue untouched (same gate objects), wire names a
    permutation of the nodes, nqubits kept, connectivity graph untouched, second call valid."""
    bad = []
    for i in range(600 if ctx.thorough else 200):
        shape = rng.choice(MAIN_SHAPES)
        kind = rng.choice(["Random", "Subgraph", "ReverseTraversal", "Star"] if shape == "star5" else ["Random", "Subgraph", "ReverseTraversal"])
        nodes, edges = label_device(rng, shape, rng.choice(["id", "perm", "gap", "str"]))
        N = len(nodes)
        wn = rng.sample(nodes, N)
        gl = random_recipe(rng, N, rng.randint(2, 9), rng.choice(["int", "named"]), rng.choice(["none", "trailing", "mid"]))
        desc = placer_desc(rng, kind)
        code = (f"G = build_graph({nodes!r}, {edges!r}); c = build_circuit({N}, {wn!r}, {gl!r})\n"
                f"p = make_pass({desc!r}); p.connectivity = G\n"
                "before = snapshot(c, names=False); ids = [id(g) for g in c.queue]; g0 = graph_key(G)\n"
                "try:\n    r = p(c)\nexcept Exception as e:\n    r = e\n"
                "ok = isinstance(r, Exception) and expected_refusal({'n': %d, 'wire_names': %r, 'gates': %r, 'passes': [%r]}, r)\n" % (N, wn, gl, desc)
                + "ok = ok or (r is None and snapshot(c, names=False) == before and ids == [id(g) for g in c.queue] and sorted(map(repr, c.wire_names)) == sorted(map(repr, G.nodes)) and len(c.wire_names) == c.nqubits == " + str(N) + " and graph_key(G) == g0)\n")
        env = dict(SPEC)
        try:
            exec(code, env)
            ok = env["ok"]
        except Exception as e:
            ok = False
            env["r"] = e
        ctx.case(("placer", kind, shape, tuple(gl)[:2]))
        ctx.stat("placer_direct_" + kind)
        if not ok:
            bad.append((kind, code, repr(env.get("r")), env["c"].wire_names if "c" in env else None))
    return bad


STUB_SRC = r'''
from qibo.backends import _Global


class Stub(NumpyBackend):
    """a hardware-like backend: simulation + qubits / connectivity / natives."""
    def __init__(self, qubits, conn, natives):
        super().__init__()
        self._q, self._c, self._n = qubits, conn, natives
        self.seen = []

    @property
    def qubits(self):
        return self._q

    @property
    def connectivity(self):
        return self._c

    @property
    def natives(self):
        return self._n

    def execute_circuit(self, circuit, initial_state=None, nshots=1000):
        self.seen.append(circuit)
        return super().execute_circuit(circuit, initial_state, nshots)


def run_default(case):
    """circuit() on a stub backend: the default transpiler is installed, the executed circuit
    fits the device, is accepted by the transpiler's own check, and the outcomes are those
    of the untranspiled circuit."""
    old = (_Global._backend, _Global._transpiler)
    bad = []
    try:
        b = Stub(list(case["nodes"]), [tuple(e) for e in case["edges"]], list(case["natives_list"]))
        _Global._backend, _Global._transpiler = b, None
        if case.get("custom"):
            # a user pipeline installed with set_transpiler is the one circuit() uses
            nat0 = NativeGates[list(case["natives_list"])]
            custom = Passes([Preprocessing(), Random(seed=case["custom"]), ShortestPaths(seed=case["custom"]), Unroller(nat0)],
                            connectivity=build_graph(case["nodes"], case["edges"]), native_gates=nat0)
            _Global.set_transpiler(custom)
            if _Global.transpiler() is not custom:
                bad.append(("default:set_transpiler", "get_transpiler() does not return the pipeline given to set_transpiler"))
        t = _Global.transpiler()
        D = build_graph(case["nodes"], case["edges"])
        for k in range(case.get("calls", 1)):
            c = build_circuit(case["n"], case["wire_names"], case["gates"], case.get("density_matrix"))
            ref = build_circuit(case["n"], case["wire_names"], case["gates"], case.get("density_matrix"))
            bits = case["inputs"][k % len(case["inputs"])]
            N = len(case["nodes"])
            try:
                frequencies(ref, bits, nshots=6)
            except Exception:
                break    # qibo refuses to execute the untranspiled circuit itself (e.g. only collapsing measurements): nothing to compare
            try:
                r = c(initial_state=basis_state(list(bits) + [0] * (N - case["n"])), nshots=6)
            except Exception as e:
                bad.append(("default:raises", f"{type(e).__name__}: {e}"))
                break
            out = b.seen[-1]
            if out.nqubits != N or set(out.wire_names) != set(case["nodes"]):
                bad.append(("default:placement", f"executed circuit has wire_names {out.wire_names}"))
                break
            nat = NativeGates[list(case["natives_list"])]
            for g in out.queue:
                if isinstance(g, gates.M):
                    continue
                if len(g.qubits) == 2 and not D.has_edge(out.wire_names[g.qubits[0]], out.wire_names[g.qubits[1]]):
                    bad.append(("default:connectivity", f"{g.name}{g.qubits} off the device edges"))
                if not (getattr(NativeGates, type(g).__name__, NativeGates.NONE) & nat):
                    bad.append(("default:decomposition", f"{g.name} is not native for {case['natives_list']}"))
            if not t.is_satisfied(out):
                bad.append(("default:is_satisfied", f"the default transpiler rejects its own output (its native_gates: {t.native_gates})"))
            if any(isinstance(g, gates.M) for g in ref.queue):
                fa = frequencies(ref, bits, nshots=6)
                fb = (dict(r.frequencies(binary=True)), {regname_str(k): dict(v) for k, v in r.frequencies(binary=True, registers=True).items()})
                if fa != fb:
                    bad.append(("default:samples", f"bits {bits}: {fb} from circuit() on the device, {fa} untranspiled"))
            if bad:
                break
    finally:
        _Global._backend, _Global._transpiler = old
    return bad


def run_platforms(case):
    """a hardware provider exposes several platforms under ONE backend name: after every
    set_backend(provider, platform=X) — whatever was selected, executed or asked for before —
    the transpiler in force is built for X (its qubits, couplers, natives), and circuit()
    hands the backend a circuit that is executable on X and reports the logical outcomes.
    case: platforms = {name: (qubits, couplers, natives)}, steps = [(platform, touch, circuit | None)],
    touch in 'execute' | 'get' | 'none'."""
    import sys, types, qibo
    PROVIDER = "c11fakehw"
    old = (_Global._backend, _Global._transpiler)
    oldmod = sys.modules.get(PROVIDER)
    plats = case["platforms"]

    class FakeHW(Stub):
        def __init__(self, platform):
            q, c, nat = plats[platform]
            super().__init__(list(q), [tuple(e) for e in c], list(nat))
            self.name = PROVIDER
            self.platform = platform

    class MetaBackend:
        @staticmethod
        def load(platform=None, **kw):
            return FakeHW(platform)

    mod = types.ModuleType(PROVIDER)
    mod.MetaBackend = MetaBackend
    sys.modules[PROVIDER] = mod
    bad = []
    try:
        _Global._backend, _Global._transpiler = None, None
        for k, (plat, touch, circ) in enumerate(case["steps"]):
            qubits, couplers, natives = plats[plat]
            where = f"step {k+1} of {[(p, t) for p, t, _ in case['steps']]} (platform {plat})"
            qibo.set_backend(PROVIDER, platform=plat)
            b = qibo.get_backend()
            if getattr(b, "platform", None) != plat:
                bad.append(("platform:backend", f"{where}: the backend in force is {b} / {getattr(b, 'platform', None)}"))
                break
            if touch == "none":
                continue
            nat = NativeGates[list(natives)]
            D = build_graph(qubits, couplers)
            if touch == "execute":
                n = circ["n"]
                c = build_circuit(n, circ["wire_names"], circ["gates"])
                ref = build_circuit(n, circ["wire_names"], circ["gates"])
                bits = circ["bits"]
                try:
                    r = c(initial_state=basis_state(list(bits) + [0] * (len(qubits) - n)), nshots=6)
                except Exception as e:
                    bad.append(("platform:raises", f"{where}: {type(e).__name__}: {e}"))
                    break
                out = b.seen[-1] if b.seen else None
                if out is None or out.nqubits != len(qubits) or set(out.wire_names) != set(qubits):
                    bad.append(("platform:placement", f"{where}: the executed circuit lives on {None if out is None else out.wire_names}, the platform has {qubits}"))
                    break
                for g in out.queue:
                    if isinstance(g, gates.M):
                        continue
                    if len(g.qubits) == 2 and not D.has_edge(out.wire_names[g.qubits[0]], out.wire_names[g.qubits[1]]):
                        bad.append(("platform:connectivity", f"{where}: {g.name} on {[out.wire_names[q] for q in g.qubits]} is not a coupler of the platform"))
                        break
                    if not (getattr(NativeGates, type(g).__name__, NativeGates.NONE) & nat):
                        bad.append(("platform:decomposition", f"{where}: {g.name} is not native for {natives}"))
                        break
                fa = frequencies(ref, bits, nshots=6)
                fb = (dict(r.frequencies(binary=True)), {regname_str(k2): dict(v) for k2, v in r.frequencies(binary=True, registers=True).items()})
                if fa != fb:
                    bad.append(("platform:samples", f"{where}: {fb} from circuit() on the platform, {fa} untranspiled"))
            t = qibo.get_transpiler()
            tn, te = set(map(repr, t.connectivity.nodes)) if t.connectivity is not None else None, \
                {frozenset(map(repr, e)) for e in t.connectivity.edges} if t.connectivity is not None else None
            if tn != set(map(repr, qubits)) or te != {frozenset(map(repr, e)) for e in couplers} or t.native_gates != nat:
                bad.append(("platform:transpiler", f"{where}: the transpiler in force targets nodes {sorted(tn or [])} edges {sorted(map(sorted, te or []))} natives {t.native_gates}; "
                            f"the platform has qubits {qubits} couplers {couplers} natives {natives}"))
            if bad:
                break
    finally:
        _Global._backend, _Global._transpiler = old
        if oldmod is None:
            sys.modules.pop(PROVIDER, None)
        else:
            sys.modules[PROVIDER] = oldmod
    return bad


class Plain(NumpyBackend):
    """a simulator that records what it is asked to execute."""
    def __init__(self):
        super().__init__()
        self.seen = []

    def execute_circuit(self, circuit, initial_state=None, nshots=1000):
        self.seen.append(circuit)
        return super().execute_circuit(circuit, initial_state, nshots)


def fill(codes, values):
    return [c.format_map({f"p{i}": v for i, v in enumerate(values)}) for c in codes]


def run_params(case):
    """a HISTORY on one circuit object: executed through the installed transpiler (default
    transpiler of a hardware-like backend, or qibo.set_transpiler on a simulator), parameters
    updated (set_parameters list / dict / flat, or gate.parameters), executed again, ...:
    every execution reports what a freshly built circuit with the CURRENT parameters reports
    when simulated directly, and the circuit it hands to the backend fits the device."""
    import qibo
    old = (_Global._backend, _Global._transpiler)
    bad = []
    try:
        nat0 = NativeGates[list(case["natives_list"])]
        D = build_graph(case["nodes"], case["edges"])
        if case["route"] == "default":
            b = Stub(list(case["nodes"]), [tuple(e) for e in case["edges"]], list(case["natives_list"]))
            _Global._backend, _Global._transpiler = b, None
        else:
            b = Plain()
            _Global._backend, _Global._transpiler = b, None
            passes = [Preprocessing()] + ([Random(seed=case["seed"])] if case["route"] == "set+placer" else []) \
                + [Sabre(seed=case["seed"]) if case["seed"] % 2 else ShortestPaths(seed=case["seed"]), Unroller(nat0)]
            qibo.set_transpiler(Passes(passes, connectivity=D, native_gates=nat0))
        n, N = case["n"], len(case["nodes"])
        c = build_circuit(n, case["wire_names"], fill(case["gates"], case["history"][0][1]))
        for k, (mode, values) in enumerate(case["history"]):
            label = f"execution {k+1} (after {[m for m, _ in case['history'][1:k+1]]})"
            if k > 0:
                per_gate, flat, it = [], [], iter(eval(v, {"np": np}) for v in values)
                for g in c.parametrized_gates:
                    v = next(it)
                    per_gate.append((v, 0.0, 0.0) if isinstance(g, gates.U3) else v)
                    flat += [v, 0.0, 0.0] if isinstance(g, gates.U3) else [v]
                if mode == "list":
                    c.set_parameters(per_gate)
                elif mode == "dict":
                    c.set_parameters(dict(zip(c.parametrized_gates, per_gate)))
                elif mode == "flat":
                    c.set_parameters(flat)
                else:
                    for g, v in zip(c.parametrized_gates, per_gate):
                        g.parameters = v
            ref = build_circuit(n, case["wire_names"], fill(case["gates"], values))
            bits = case["inputs"][k % len(case["inputs"])]
            try:
                r = c(initial_state=basis_state(list(bits) + [0] * (N - n)), nshots=6)
            except Exception as e:
                bad.append(("params:raises", f"{label}: {type(e).__name__}: {e}"))
                break
            out = b.seen[-1]
            if out.nqubits != N or set(out.wire_names) != set(case["nodes"]):
                bad.append(("params:placement", f"{label}: executed circuit has wire_names {out.wire_names}"))
                break
            for g in out.queue:
                if isinstance(g, gates.M):
                    continue
                if len(g.qubits) == 2 and not D.has_edge(out.wire_names[g.qubits[0]], out.wire_names[g.qubits[1]]):
                    bad.append(("params:connectivity", f"{label}: {g.name}{g.qubits} off the device edges"))
                if not (getattr(NativeGates, type(g).__name__, NativeGates.NONE) & nat0):
                    bad.append(("params:decomposition", f"{label}: {g.name} is not native for {case['natives_list']}"))
            fa = frequencies(ref, bits, nshots=6)
            fb = (dict(r.frequencies(binary=True)), {regname_str(k2): dict(v) for k2, v in r.frequencies(binary=True, registers=True).items()})
            if fa != fb:
                bad.append(("params:samples", f"{label}: parameters {values}, input bits {bits}: the circuit object executed through the "
                            f"transpiler reports {fb}, a fresh circuit with the same parameters {fa}"))
            if bad:
                break
    finally:
        _Global._backend, _Global._transpiler = old
    return bad
'''


def default_suite(ctx, rng):
    env = dict(SPEC)
    exec(compile(STUB_SRC, "<C11 stub>", "exec"), env)
    failing = []
    nat_lists = [["CZ", "GPI2", "RZ", "Z", "I", "M"], ["CZ", "U3", "RZ", "Z", "I", "M"], ["iSWAP", "GPI2", "RZ", "Z", "I", "M"],
                 ["iSWAP", "U3", "RZ", "Z", "I", "M"], ["CZ", "iSWAP", "GPI2", "RZ", "Z", "I", "M"]]
    for i in range(200 if ctx.thorough else 50):
        shape = rng.choice(MAIN_SHAPES + ["line3", "grid6"])
        nodes, edges = label_device(rng, shape, rng.choice(["id", "perm", "gap", "str"]))
        N = len(nodes)
        n = rng.randint(1, N)
        wn = rng.sample(nodes, n)
        if all(isinstance(x, int) for x in nodes) and set(range(n)) <= set(nodes) and rng.random() < 0.4:
            wn = None
        case = {"nodes": nodes, "edges": edges, "natives_list": nat_lists[i % len(nat_lists)], "n": n, "wire_names": wn,
                "gates": random_recipe(rng, n, rng.randint(1, 8), "det", rng.choice(["trailing", "rich"])), "calls": rng.choice([1, 2]),
                "inputs": [[rng.randrange(2) for _ in range(n)] for _ in range(2)]}
        if i % 3 == 2:
            case["custom"] = rng.randrange(1, 1000)
        try:
            bad = env["run_default"](case)
        except Exception as e:
            bad = [("harness", f"{type(e).__name__}: {e}")]
        ctx.case(("default", shape, n, tuple(case["natives_list"])))
        ctx.stat("default_transpiler_runs")
        if bad:
            failing.append((case, bad))
    return failing


PAR_1Q = ["gates.RX({0}, theta={{p}})", "gates.RY({0}, theta={{p}})", "gates.U3({0}, {{p}}, 0.0, 0.0)"]
PAR_2Q = ["gates.CRX({0},{1}, {{p}})", "gates.CRY({0},{1}, {{p}})", "gates.RXX({0},{1}, {{p}})", "gates.RYY({0},{1}, {{p}})"]
DIAG_1Q = ["gates.RZ({0}, {{p}})", "gates.U1({0}, {{p}})"]
DIAG_2Q = ["gates.CRZ({0},{1}, {{p}})", "gates.CU1({0},{1}, {{p}})", "gates.RZZ({0},{1}, {{p}})"]
FLIP_ANGLES = ["0.0", "np.pi", "-np.pi", "2*np.pi", "3*np.pi"]


def params_case(rng, i):
    """a circuit with deterministic outcomes for every parameter vector of its history:
    rotations about X / Y by multiples of pi, diagonal gates with arbitrary angles."""
    nat_lists = [["CZ", "GPI2", "RZ", "Z", "I", "M"], ["CZ", "U3", "RZ", "Z", "I", "M"], ["iSWAP", "GPI2", "RZ", "Z", "I", "M"],
                 ["CZ", "iSWAP", "U3", "RZ", "Z", "I", "M"]]
    shape = rng.choice(MAIN_SHAPES + ["line3", "line4", "grid6"])
    nodes, edges = label_device(rng, shape, rng.choice(["id", "perm", "gap", "str"]))
    N = len(nodes)
    n = rng.randint(1, N)
    wn = rng.sample(nodes, n)
    if all(isinstance(x, int) for x in nodes) and set(range(n)) <= set(nodes) and rng.random() < 0.3:
        wn = None
    codes, kinds = [], []
    for _ in range(rng.randint(2, 7)):
        two = n >= 2 and rng.random() < 0.5
        r = rng.random()
        qs = rng.sample(range(n), 2) if two else [rng.randrange(n)]
        if r < 0.55:
            pool, kind = (PAR_2Q, "flip") if two else (PAR_1Q, "flip")
        elif r < 0.7:
            pool, kind = (DIAG_2Q, "diag") if two else (DIAG_1Q, "diag")
        else:
            pool, kind = (CNOT_2Q, None) if two else (DET_1Q, None)
        code = rng.choice(pool).format(*qs)
        if kind:
            code = code.replace("{p}", "{p%d}" % len(kinds))
            kinds.append(kind)
        codes.append(code)
    if not kinds:
        codes.insert(0, "gates.RX(0, theta={p0})")
        kinds.append("flip")
    qs = list(range(n))
    rng.shuffle(qs)
    qs = qs[: rng.randint(1, n)]
    reg = 0
    while qs:
        k = rng.randint(1, len(qs))
        part, qs = qs[:k], qs[k:]
        codes.append(f"gates.M({','.join(map(str, part))}, register_name='r{reg}')")
        reg += 1
    val = lambda kind: rng.choice(FLIP_ANGLES) if kind == "flip" else repr(round(rng.uniform(-3, 3), 3))
    history = [("build", [val(k) for k in kinds])]
    for _ in range(rng.randint(1, 3)):
        history.append((rng.choice(["list", "list", "dict", "flat", "gate"]), [val(k) for k in kinds]))
    return {"nodes": nodes, "edges": edges, "natives_list": nat_lists[i % len(nat_lists)], "n": n, "wire_names": wn, "gates": codes,
            "history": history, "route": ["default", "set", "set+placer"][i % 3], "seed": rng.randrange(1, 1000),
            "inputs": [[rng.randrange(2) for _ in range(n)] for _ in range(2)]}


def params_suite(ctx, rng):
    env = dict(SPEC)
    exec(compile(STUB_SRC, "<C11 stub>", "exec"), env)
    failing = []
    for i in range(400 if ctx.thorough else 60):
        case = params_case(rng, i)
        try:
            bad = env["run_params"](case)
        except Exception as e:
            bad = [("harness", f"{type(e).__name__}: {e}")]
        ctx.case(("params", case["route"], case["n"], len(case["nodes"]), tuple(m for m, _ in case["history"]), tuple(case["natives_list"])))
        ctx.stat("params_histories")
        ctx.stat("params_route_" + case["route"])
        if bad:
            failing.append((case, bad))
    ctx.sample({"kind": "parameter-update history", "case": {k: case[k] for k in ("gates", "history", "route", "n")}})
    return failing


def platforms_case(rng, i):
    """two or three platforms of one provider: same qubit names with other couplers, other
    names, other sizes, other natives; a history of selections with an execution, a
    get_transpiler() or nothing in between."""
    nat_lists = [["CZ", "GPI2", "RZ", "Z", "I", "M"], ["CZ", "U3", "RZ", "Z", "I", "M"], ["iSWAP", "GPI2", "RZ", "Z", "I", "M"]]
    variant = ["couplers", "couplers", "names", "sizes", "natives"][i % 5]
    shapes5 = ["line5", "star5", "ring5", "tee5"]
    plats = {}
    base_nodes, _ = label_device(rng, "line5", rng.choice(["id", "perm", "gap", "str"]))
    nat0 = rng.choice(nat_lists)
    for j in range(rng.choice([2, 2, 3])):
        if variant == "couplers":
            shape = shapes5[(i + j) % 4]
            k, edges = SHAPES[shape]
            names = list(base_nodes)
            plats[f"p{j}"] = (names, [(names[a], names[b]) for a, b in edges], nat0)
        elif variant == "natives":
            k, edges = SHAPES["line5"]
            names = list(base_nodes)
            plats[f"p{j}"] = (names, [(names[a], names[b]) for a, b in edges], nat_lists[(i + j) % 3])
        else:
            shape = rng.choice(shapes5 if variant == "names" else ["line3", "line4", "ring4", "line5", "grid6", "star5"])
            nodes, edges = label_device(rng, shape, rng.choice(["id", "perm", "gap", "str"]))
            plats[f"p{j}"] = (nodes, edges, rng.choice(nat_lists))
    names = list(plats)
    seq = [rng.choice(names)]
    for _ in range(rng.randint(1, 3)):
        seq.append(rng.choice([x for x in names if x != seq[-1]] if rng.random() < 0.8 else names))
    steps = []
    for k, pl in enumerate(seq):
        touch = "execute" if k == len(seq) - 1 else rng.choice(["execute", "execute", "get", "none"])
        circ = None
        if touch == "execute":
            q = plats[pl][0]
            n = rng.randint(1, len(q))
            circ = {"n": n, "wire_names": rng.sample(list(q), n), "gates": random_recipe(rng, n, rng.randint(2, 7), "det", "trailing"),
                    "bits": [rng.randrange(2) for _ in range(n)]}
        steps.append((pl, touch, circ))
    return {"platforms": plats, "steps": steps, "variant": variant}


def collapse_split_probe(ctx):
    """observation only (reported to the lead, K09-1 class): a multi-qubit collapse=True measurement
    made non-trailing by the basis rotation of a later measurement is split by Sabre / ShortestPaths."""
    try:
        G = SPEC["build_graph"](range(3), [(0, 1), (1, 2)])
        for R in (SPEC["ShortestPaths"], SPEC["Sabre"]):
            c = Circuit(3)
            c.add(gates.M(0, 1, register_name="c", collapse=True))
            c.add(gates.M(2, basis=gates.X))
            try:
                out, _ = R(connectivity=G)(c)
            except Exception:
                ctx.stat("observed_midcircuit_collapse_refused")
                continue
            ms = [(g.register_name, len(g.qubits), g.collapse) for g in out.queue if isinstance(g, gates.M)]
            ctx.stat("observed_midcircuit_collapse_kept" if ("c", 2, True) in ms else "observed_midcircuit_collapse_split")
    except Exception:
        pass


def platforms_suite(ctx, rng):
    env = dict(SPEC)
    exec(compile(STUB_SRC, "<C11 stub>", "exec"), env)
    failing = []
    for i in range(300 if ctx.thorough else 50):
        case = platforms_case(rng, i)
        try:
            bad = env["run_platforms"](case)
        except Exception as e:
            bad = [("harness", f"{type(e).__name__}: {e}")]
        ctx.case(("platforms", case["variant"], tuple((p, t) for p, t, _ in case["steps"]), tuple(len(v[0]) for v in case["platforms"].values())))
        ctx.stat("platform_histories")
        ctx.stat("platform_switches", len(case["steps"]) - 1)
        if bad:
            failing.append((case, bad))
    ctx.sample({"kind": "platform history", "case": {"platforms": case["platforms"], "steps": [(p, t) for p, t, _ in case["steps"]]}})
    return failing


def platforms_replay(case, kinds):
    return (SPEC_SRC + STUB_SRC + "\ncase = " + repr(case) + "\nbad = run_platforms(case)\nprint(bad)\n"
            + f"assert not [b for b in bad if b[0] in {sorted(kinds)!r}], bad\n")


def params_replay(case, kinds):
    return (SPEC_SRC + STUB_SRC + "\ncase = " + repr(case) + "\nbad = run_params(case)\nprint(bad)\n"
            + f"assert not [b for b in bad if b[0] in {sorted(kinds)!r}], bad\n")


def default_replay(case, kinds):
    return (SPEC_SRC + STUB_SRC + "\ncase = " + repr(case) + "\nbad = run_default(case)\nprint(bad)\n"
            + f"assert not [b for b in bad if b[0] in {sorted(kinds)!r}], bad\n")


def shrink(case, calls, same, kinds):
    run_case = SPEC["run_case"]
    cur = dict(case)
    gl = list(case["gates"])
    changed = True
    budget = 80
    import time as _time
    t_end = _time.time() + 30
    while changed and budget > 0 and _time.time() < t_end:
        changed = False
        for i in range(len(gl) - 1, -1, -1):
            budget -= 1
            if budget <= 0 or _time.time() > t_end:
                break
            cur["gates"] = gl[:i] + gl[i + 1:]
            try:
                b2 = run_case(cur, calls=calls, same_circuit=same)
            except Exception:
                continue
            if kinds <= {k for k, _ in b2}:
                gl = gl[:i] + gl[i + 1:]
                changed = True
    cur["gates"] = gl
    return cur


def fail_key(case, kind, detail):
    """stable key: pass that owns the failure + kind."""
    labs = {d[0]: (d[1] if len(d) > 1 else "") for d in case["passes"]}
    if kind in ("raises:PlacementError", "reuse") and labs.get("placer") == "Star" and "PlacementError" in detail \
            and "more than 2 qubits" in detail \
            and any(c.startswith("gates.M(") and c.count(",") >= 2 + c.count("=") for c in case["gates"]):
        return "raises:star-placer-measurement"
    if kind == "registers-dropped":
        return "registers-dropped:" + (labs.get("router") or "none")
    if len([d for d in case["passes"] if d[0] == "router"]) > 1 and kind in ("operator", "measurements", "samples", "layout"):
        return "two-routers:layout"
    return f"{case_label(case)}:{kind}"


def selftest_spec(ctx):
    """the executable spec must reject wrong pipelines (guards the harness itself)."""
    check_output = SPEC["check_output"]
    case = {"shape": "line3", "nodes": [0, 1, 2], "edges": [(0, 1), (1, 2)], "on_qubits": None, "n": 3, "wire_names": [0, 1, 2],
            "gates": ["gates.CNOT(0,2)", "gates.M(2,0, register_name='a')"], "passes": [["router", "Sabre", {}]], "natives": "default",
            "exact": True, "det": True, "inputs": [[1, 0, 0]]}
    G, P = SPEC["build_passes"](case)
    D = SPEC["device_graph"](case)
    ok = True
    # unrouted circuit returned as is, with an identity layout
    c = SPEC["build_circuit"](3, [0, 1, 2], case["gates"])
    r = check_output(case, c, None, c, {0: 0, 1: 1, 2: 2}, P, D)
    ok &= any(k in ("connectivity", "accept:connectivity") for k, _ in r)
    # correctly routed circuit, wrong layout reported
    w = Circuit(3, wire_names=[0, 1, 2])
    w.add(gates.SWAP(0, 1))
    w.add(gates.CNOT(1, 2))
    w.add(gates.M(2, 1, register_name="a"))
    r = check_output(case, c, None, w, {0: 0, 1: 1, 2: 2}, P, D)
    ok &= any(k == "operator" for k, _ in r)
    r = check_output(case, c, None, w, {0: 1, 1: 0, 2: 2}, P, D)
    ok &= not r
    # measurement attached to the wrong qubits / in the wrong order
    w2 = Circuit(3, wire_names=[0, 1, 2])
    w2.add(gates.SWAP(0, 1))
    w2.add(gates.CNOT(1, 2))
    w2.add(gates.M(1, 2, register_name="a"))
    r = check_output(case, c, None, w2, {0: 1, 1: 0, 2: 2}, P, D)
    ok &= any(k in ("measurements", "samples") for k, _ in r)
    ctx.ob("C11_spec_selftest", ok, "search", "" if ok else "the executable spec accepts a wrong pipeline output")


def run(ctx):
    MODULES, THEOREMS = registry(PROP)
    ctx.theorems = THEOREMS
    build_and_audit(ctx, PROP, MODULES, THEOREMS)
    rng = ctx.rng
    selftest_spec(ctx)
    st = Suite(ctx)
    pad_suite(ctx, st, rng)
    assert_suite(ctx, st, rng)
    star_suite(ctx, st, rng)
    restrict_suite(ctx, st, rng)
    sort_suite(ctx, st, rng)
    failing, cases = search_suite(ctx, rng)
    # the recorded pipeline replay on a subset of the search cases (all pass combinations)
    sub = cases[: (3000 if ctx.thorough else 700)]
    for case in sub:
        if any(d[0] == "rearrange" for d in case["passes"]):
            continue
        try:
            pipe_record(ctx, st, case)
        except Exception as e:
            st.note("pipe", f"recording failed: {type(e).__name__}: {e} ({case_label(case)})", case)
    dispatch_suite(ctx, st, rng)
    sbad = shared_suite(ctx, st, rng)
    process_driver(ctx, st)
    pbad = placer_direct_suite(ctx, rng)
    dbad = default_suite(ctx, rng)
    hbad = params_suite(ctx, rng)
    qbad = platforms_suite(ctx, rng)
    collapse_split_probe(ctx)

    # failing inputs on the real code ------------------------------------------------
    seen = set()
    corr_of = {"padding": ["C11_corr_pad", "C11_corr_pipeline"], "placement": ["C11_corr_pipeline"], "layout": ["C11_corr_pipeline"],
               "accept:is_satisfied": ["C11_corr_asserts", "C11_corr_pipeline"], "accept:connectivity": ["C11_corr_pipeline", "C11_corr_contracts"],
               "accept:decomposition": ["C11_corr_pipeline", "C11_corr_contracts"], "connectivity": ["C11_corr_contracts"],
               "measurement-attributes": ["C11_corr_pad", "C11_corr_contracts", "C11_corr_pipeline"],
               "register-distribution": ["C11_corr_pad", "C11_corr_contracts", "C11_corr_pipeline"],
               "decomposition": ["C11_corr_contracts", "C11_corr_dispatch"], "measurements": ["C11_corr_contracts"], "registers-dropped": ["C11_corr_contracts"], "restrict": ["C11_corr_restrict"]}
    for case, calls, same, bad in failing:
        for kind in sorted({k for k, _ in bad}):
            det = next(d for k, d in bad if k == kind)
            key = fail_key(case, kind, det)
            if key in seen:
                continue
            seen.add(key)
            cur = shrink(case, calls, same, {kind}) if kind != "harness" else case
            broken = ["C11_search_property"] + corr_of.get(kind, [])
            if kind.startswith("raises") or key.startswith("raises:"):
                broken += ["C11_corr_pipeline", "C11_corr_star_placer"]
            ctx.fail(key, f"pipeline {case_label(cur)} on device nodes {cur['nodes']} edges {cur['edges']} on_qubits {cur['on_qubits']}, "
                          f"circuit n={cur['n']} wire_names={cur['wire_names']} gates={cur['gates']}: {det}"[:900],
                     replay_code(cur, calls, {kind}, same), expected="no violation of C11", observed=[list(b) for b in bad][:4], broken=broken)
    for kind, code, r, wn in pbad:
        ctx.fail(f"placer:{kind}", f"placer {kind} called directly does not leave the gates alone / give a one-to-one assignment: result {r}, wire_names {wn}",
                 SPEC_SRC + "\n" + code + "\nassert ok, (r, c.wire_names)\n", expected="queue untouched, wire_names a permutation of the device nodes",
                 observed=[r, wn], broken=["C11_search_placers"])
    for case, bad in dbad:
        for kind in sorted({k for k, _ in bad}):
            key = "default-transpiler:" + kind.split(":", 1)[1]
            ctx.fail(key, f"default transpiler of a backend with qubits {case['nodes']}, connectivity {case['edges']}, natives {case['natives_list']}; "
                          f"circuit n={case['n']} wire_names={case['wire_names']} gates={case['gates']}: {next(d for k, d in bad if k == kind)}"[:900],
                     default_replay(case, {kind}), expected="no violation of C11", observed=[list(b) for b in bad][:4], broken=["C11_search_default_transpiler"])
    seen_s = set()
    for case, bad in sbad:
        for kind in sorted({k for k, _ in bad}):
            key = "shared-passes:" + kind.split(":", 1)[-1]
            if key in seen_s:
                continue
            seen_s.add(key)
            ctx.fail(key, f"pass objects {case_label(case)} shared by the pipelines {[(p['nodes'], p['on_qubits']) for p in case['pipelines']]} "
                          f"(schedule {case['schedule']}, constructor graph of pipeline {case['ctor']}): {next(d for k, d in bad if k == kind)}"[:900],
                     SPEC_SRC + "\ncase = " + repr(case) + "\nbad = run_shared(case)\nprint(bad)\nassert not bad, bad\n",
                     expected="every pipeline transpiles for its own device, whatever its pass objects were used for before",
                     observed=[list(b) for b in bad][:4], broken=["C11_search_shared_passes", "C11_corr_handover"])
    seen_h = set()
    for case, bad in hbad:
        for kind in sorted({k for k, _ in bad}):
            key = "execute-history:" + kind.split(":", 1)[-1]
            if key in seen_h:
                continue
            seen_h.add(key)
            ctx.fail(key, f"one circuit object executed through the installed transpiler ({case['route']}) on device {case['nodes']} {case['edges']}, "
                          f"natives {case['natives_list']}; circuit n={case['n']} wire_names={case['wire_names']} gates={case['gates']}, "
                          f"parameter history {case['history']}: {next(d for k, d in bad if k == kind)}"[:900],
                     params_replay(case, {kind}), expected="every execution reports the outcomes of the circuit with its current parameters",
                     observed=[list(b) for b in bad][:4], broken=["C11_search_execute_history"])
    seen_q = set()
    for case, bad in qbad:
        for kind in sorted({k for k, _ in bad}):
            key = "default-transpiler:" + kind
            if key in seen_q:
                continue
            seen_q.add(key)
            ctx.fail(key, f"platforms {case['platforms']} of one provider selected one after the other with set_backend: {next(d for k, d in bad if k == kind)}"[:900],
                     platforms_replay(case, {kind}), expected="after every set_backend the transpiler in force is built for the selected platform",
                     observed=[list(b) for b in bad][:4], broken=["C11_search_platform_switch"])
    # correspondence failures: name a concrete input of the suite as the failing input if the
    # search did not find one (model and code disagree = one of them is not what the theorems are about)
    for suite, obname in (("star", "C11_corr_star_placer"),):
        for info in st.cases.get(suite, [])[:1]:
            if "error" in info and "more than 2 qubits" in info["error"] and any(c.startswith("gates.M(") for c in info["gates"]):
                code = (SPEC_SRC + f"\nG = build_graph({info['nodes']!r}, {info['edges']!r}); c = build_circuit({info['n']}, {info['wire_names']!r}, {info['gates']!r})\n"
                        "StarConnectivityPlacer(G)(c)\n")
                ctx.fail("raises:star-placer-measurement", f"StarConnectivityPlacer refuses a circuit because of a measurement on more than two qubits: {info['gates']} ({info['error']})",
                         code, expected="a placement (measurements are not gates the placer has to route)", observed=info["error"], broken=[obname, "C11_search_property"])

    for info in (st.cases.get("padprop", []) + st.cases.get("pad", []))[:1]:
        code = (SPEC_SRC + f"\nG = build_graph({info['nodes']!r}, {info['edges']!r}); c = build_circuit({info['n']}, {info['wire_names']!r}, {info['gates']!r})\n"
                "before = snapshot(c); own = list(c.wire_names)\n"
                "try:\n    r = Preprocessing(G)(c)\nexcept ValueError:\n    r = None\n"
                "fits = set(own) <= set(G.nodes) and len(set(own)) == len(own) and len(own) <= len(G.nodes)\n"
                "assert (r is not None) == fits, 'refusal'\n"
                "if r is not None:\n"
                "    assert list(r.wire_names[:len(own)]) == own and sorted(map(repr, r.wire_names)) == sorted(map(repr, G.nodes)), r.wire_names\n"
                "    assert r.nqubits == len(G.nodes) and snapshot(r)[2] == before[2] and snapshot(c) == before\n")
        ctx.fail("Preprocessing:padding", f"Preprocessing on device nodes {info['nodes']} and a circuit with n={info['n']} wire_names={info['wire_names']} does not keep the circuit's wires in position / append the unused nodes / keep the queue",
                 code, expected="own wires first, unused device nodes appended, queue unchanged", observed=st.detail.get("padprop", st.detail.get("pad", ""))[:300],
                 broken=["C11_corr_pad", "C11_corr_pipeline"])
    ctx.ob("C11_search_property", not failing, "search", f"{len(failing)} failing cases; first: {failing[0][3][:2]}" if failing else "")
    ctx.ob("C11_search_placers", not pbad, "search", f"{len(pbad)} failing placer calls" if pbad else "")
    ctx.ob("C11_search_default_transpiler", not dbad, "search", f"{len(dbad)} failing cases; first: {dbad[0][1][:2]}" if dbad else "")
    ctx.ob("C11_corr_pad", not st.bad.get("pad") and not st.bad.get("padprop"), "correspondence", st.detail.get("pad", st.detail.get("padprop", "")))
    ctx.ob("C11_corr_asserts", not st.bad.get("assert"), "correspondence", st.detail.get("assert", ""))
    ctx.ob("C11_corr_star_placer", not st.bad.get("star") and not st.bad.get("placerprop"), "correspondence", st.detail.get("star", st.detail.get("placerprop", "")))
    ctx.ob("C11_corr_restrict", not st.bad.get("restrict"), "correspondence", st.detail.get("restrict", ""))
    ctx.ob("C11_corr_sorted", not st.bad.get("sort"), "correspondence", st.detail.get("sort", ""))
    ctx.ob("C11_search_shared_passes", not sbad, "search", f"{len(sbad)} failing cases; first: {sbad[0][1][:2]}" if sbad else "")
    ctx.ob("C11_search_platform_switch", not qbad, "search", f"{len(qbad)} failing cases; first: {qbad[0][1][:2]}" if qbad else "")
    ctx.ob("C11_search_execute_history", not hbad, "search", f"{len(hbad)} failing cases; first: {hbad[0][1][:2]}" if hbad else "")
    ctx.ob("C11_corr_handover", not st.bad.get("handover"), "correspondence", st.detail.get("handover", ""))
    ctx.ob("C11_corr_fold", not st.bad.get("fold"), "correspondence", st.detail.get("fold", ""))
    ctx.ob("C11_tables_local", not st.bad.get("local"), "correspondence", st.detail.get("local", ""))
    ctx.ob("C11_corr_dispatch", not st.bad.get("dispatch"), "correspondence", st.detail.get("dispatch", ""))
    ctx.ob("C11_corr_pipeline", not st.bad.get("pipe"), "correspondence", st.detail.get("pipe", ""))
    ctx.ob("C11_corr_contracts", not st.bad.get("contract"), "correspondence", st.detail.get("contract", ""))
    ctx.sample({"suite": "measurement entries", "meaning": "reporting measurements at the start / middle / end (final but not trailing), on star devices met while their qubit sits on the centre with leaf-leaf gates after them, with register names, readout-error maps (float / list / dict p0, p1) and X / Y bases, circuits smaller than the device and equal: every entry of the output keeps its maps re-keyed to the physical qubits, and the exact outcome distribution of every register (marginal of the final state on the entry's own qubits through its own readout-error maps, states computed with explicit matrices) equals the input entry's; deterministic circuits with p in {0, 1} are also sampled through qibo's execution"})
    ctx.sample({"suite": "pipeline replay", "meaning": "every pass object of a real Passes.__call__ logs its call; the Lean model runPasses is fed the oracle answers (placer wire names, routed queue + layout, unrolled queue), must reproduce nqubits / wire_names / queue length / final layout after every pass and the four acceptance verdicts, and validates each answer against the contract T11_compose assumes (permOf, routeOk, unrollOk)"})
    ctx.sample({"suite": "property search", "meaning": "is_satisfied and each assert_* on the output, independent edge / native test, exact (integer data) or up-to-phase operator identity out == P_layout . (in (x) 1), own wires kept by padding, registers and qubit order of measurements, outcomes on basis states, input and graph not mutated, Passes object and circuit object reused"})
    ctx.sample({"suite": "unroller inside the model", "meaning": "LOCAL: localCheck on the shapes of all six real translation tables (every class, boundary and random parameters) = hypothesis TablesLocal of T11_unrollOk_derived; DISPATCH: for the real Unroller calls recorded inside real pipeline runs, C10's dispatch model on the real tables' shapes returns the real unrolled queue gate by gate, and closedCheck && localCheck && unrollInputOk give unrollOk (T11_dispatch_pass_valid)"})
    ctx.sample({"suite": "fold", "meaning": "PIPE lines carry arbitrary pass lists (extra Preprocessing / Unroller passes at any position); the driver evaluates placedAfter / connAfter / decAfter / layoutAfter of the list: the flags must imply the real assert_* verdicts and is_satisfied, layoutAfter must be the layout Passes returned (T11_fold_invariants, T11_fold_layout)"})
    ctx.sample({"suite": "histories", "meaning": "shared pass objects: the same Preprocessing / placer / router / unroller INSTANCES in two Passes objects (other device, other labels, on_qubits restriction), interleaved schedules, passes constructed with another device's graph: every call is checked with the full spec for its own device and every pass object must hold the calling pipeline's connectivity when called; execute histories: one circuit object executed through set_transpiler / a stub backend's default transpiler, parameters updated by set_parameters (list, dict, flat) or gate.parameters, executed again: registers compared with a fresh circuit simulated directly"})
    ctx.trusted.append("placer searches (Random sampling, Subgraph isomorphism, ReverseTraversal) and routers are oracles of the pipeline model: their answers are validated on every run (permOf / routeOk), their internals are C09; the unroller's contract unrollOk is derived from C10's dispatch model and the locality / closure of the real tables' shapes (decided on every run), and still validated on every recorded run")
    ctx.trusted.append("measurements enter the operator identity as a fixed 2x2 marker on each measured qubit; outcomes are compared on basis-state inputs of deterministic circuits")
    ctx.notes.append("devices: 5-node star / line / ring / T, 2-4-node lines and ring, 2x3 grid, labels = ints in order, permuted ints, ints with gaps, strings; on_qubits restrictions to connected 3-5 node subsets; circuits of 1..N qubits with wire-name subsets in arbitrary order or default names; placers none / Random / Subgraph / ReverseTraversal(Sabre|ShortestPaths, depth) / StarConnectivityPlacer x routers ShortestPaths / Sabre / StarConnectivityRouter / none x 8 native sets / no unroller, with and without Preprocessing; trailing registers with unsorted qubits, one-qubit mid-circuit and collapsing measurements; calls repeated on the same Passes object (fresh and same circuit); default transpiler through a stub backend")
    from props import basis_meas
    basis_meas.run(ctx, PROP, ["rearrange1", "rearrange2", "preprocessing"])
