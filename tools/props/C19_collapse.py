"""C19 (part: both noisy simulation modes agree) — circuits with COLLAPSING measurements before,
between and after the noise channels, through the real `execute_circuit_repeated`.

Every random draw of a shot goes through `backend.sample_shots(probabilities, 1)`: the index of
a unitary-mixture channel (`apply_channel`), the outcome of a collapsing measurement
(`M.apply` / `M.apply_density_matrix` -> `MeasurementResult.add_shot`) and the sample of the final
measurements (`CircuitResult(..., nshots=1).samples()`).  `ForcedBackend` replaces the drawn value
by a forced one (after the real sampler has validated the vector) and records the vector, so that

  (1) the whole sampling TREE of one state-vector shot is enumerated on the real code (only
      branches of non-zero probability), every leaf with its weight (product of the
      probabilities the real code handed to the sampler) and its outcomes (collapse outcomes in
      queue order + final sample);
  (2) ONE call with `nshots = number of leaves` and the leaves forced one after the other must
      consume exactly the forced draws, and shot k must report exactly the outcomes of leaf k
      (`result.samples()` and the collapse gates' `result.samples()`): the shots of a repeated
      execution are independent re-runs of the whole queue;
  (3) the outcome distribution `sum of leaf weights per outcome tuple` must equal the one of the
      density-matrix execution of the same queue, obtained in the same way (there only the
      measurements draw): the branch probabilities of the density-matrix run.
"""
from __future__ import annotations

import contextlib
import io

PRE_FORCED = '''from qibo.backends import NumpyBackend
class Forced:
    def __init__(self):
        self.b = NumpyBackend(); self.real = self.b.sample_shots; self.b.sample_shots = self.sample
        self.tape = None; self.free = False; self.used = []; self.vecs = []
    def sample(self, probabilities, nshots):
        if self.tape is None or nshots != 1:
            return self.real(probabilities, nshots)
        self.real(probabilities, nshots)  # the real draw validates the vector; its value is replaced
        p = np.real(np.asarray(probabilities, dtype=complex)).ravel()
        if self.tape:
            i = self.tape.pop(0)
        elif self.free:
            i = int(np.argmax(p > 1e-12))
        else:
            raise RuntimeError("more draws than forced values")
        if i >= len(p):
            raise RuntimeError(f"forced value {i} is not offered: the sampler gets {len(p)} probabilities")
        self.used.append(i); self.vecs.append(p)
        return np.array([i])
    def run(self, circuit, nshots, tape, free):
        self.tape, self.free, self.used, self.vecs = list(tape), free, [], []
        for g in circuit.queue:
            if isinstance(g, gates.M):
                g.result.reset()
        try:
            res = self.b.execute_circuit(circuit, nshots=nshots)
            if circuit.measurements:
                res.samples()  # an execution that is not repeated draws its samples lazily: draw them now, under control
            left = len(self.tape)
        finally:
            self.tape = None
        return res, left
def outcomes(circuit, res, nshots):
    """per shot: (collapse outcomes in queue order ..., final sample)"""
    cols = [g for g in circuit.queue if isinstance(g, gates.M) and g.collapse]
    per = [[] for _ in range(nshots)]
    for g in cols:
        s = [tuple(int(x) for x in np.asarray(v).ravel()) for v in g.result.samples()]
        if len(s) != nshots:
            raise RuntimeError(f"a collapsing measurement recorded {len(s)} shots in an execution of {nshots}")
        for k in range(nshots):
            per[k].append(s[k])
    fin = np.asarray(res.samples(binary=True)) if circuit.measurements else np.zeros((nshots, 0))
    return [tuple(per[k]) + (tuple(int(x) for x in fin[k]),) for k in range(nshots)]
def tree(fb, circuit, limit=600):
    """every leaf of non-zero probability of the sampling tree of one shot: (tape, weight, outcome)"""
    leaves, tape = [], []
    while True:
        res, _ = fb.run(circuit, 1, tape, True)
        used, vecs = list(fb.used), list(fb.vecs)
        w = 1.0
        for i, p in zip(used, vecs):
            w *= float(p[i])
        leaves.append((tuple(used), w, outcomes(circuit, res, 1)[0]))
        if len(leaves) > limit:
            raise RuntimeError("too many leaves")
        k = len(used) - 1
        nxt = None
        while k >= 0:
            later = [j for j in range(used[k] + 1, len(vecs[k])) if vecs[k][j] > 1e-12]
            if later:
                nxt = later[0]
                break
            k -= 1
        if k < 0:
            return leaves
        tape = used[:k] + [nxt]
def distribution(leaves):
    d = {}
    for _, w, o in leaves:
        d[o] = d.get(o, 0.0) + w
    return d
'''

CHECK = '''# a circuit with a unitary channel of non-zero strength needs one trajectory per shot in state-vector mode
strong = any(isinstance(g, gates.UnitaryChannel) and float(np.real(g.coefficient_sum)) > 0 for g in c.queue)
flag_ok = (not strong) or (bool(c.has_unitary_channel) and bool(c.repeated_execution))
fb = Forced()
leaves = tree(fb, c)
forced = [i for t, _, _ in leaves for i in t]
res, left = fb.run(c, len(leaves), forced, False)
got = outcomes(c, res, len(leaves))
want = [o for _, _, o in leaves]
cdm = Circuit(c.nqubits, density_matrix=True)
for g in c.queue:
    cdm.add(g)
dsv, ddm = distribution(leaves), distribution(tree(fb, cdm))
print("leaves", len(leaves), "unused forced draws", left)
print("state-vector distribution ", {k: round(v, 6) for k, v in sorted(dsv.items())})
print("density-matrix distribution", {k: round(v, 6) for k, v in sorted(ddm.items())})
print("non-trivial unitary channel in the queue:", strong, " has_unitary_channel:", c.has_unitary_channel, " repeated_execution:", c.repeated_execution)
ok = flag_ok and left == 0 and got == want and set(dsv) == set(ddm) and all(abs(dsv[k] - ddm[k]) < 1e-10 for k in dsv)
'''


def gen_case(rng, k):
    """source of a circuit `c` (density_matrix=False) with explicit noise channels and collapsing
    measurements; k selects where the first collapse sits relative to the first channel."""
    n = rng.choice([2, 2, 3])
    lines = [f"c = Circuit({n})"]

    def unitary():
        r = rng.random()
        if r < 0.35:
            return f"gates.H({rng.randrange(n)})"
        if r < 0.6:
            return f"gates.RX({rng.randrange(n)}, theta={rng.choice([0.5, 1.25, 2.0])})"
        if r < 0.8:
            return f"gates.RY({rng.randrange(n)}, theta={rng.choice([0.75, 1.5])})"
        a, b = rng.sample(range(n), 2)
        return f"gates.{rng.choice(['CNOT', 'CZ', 'SWAP'])}({a}, {b})"

    def channel():
        q = rng.randrange(n)
        r = rng.random()
        if r < 0.5:
            return f"gates.PauliNoiseChannel({q}, [('X', {rng.choice([0.125, 0.25])})])"
        if r < 0.75:
            return f"gates.PauliNoiseChannel({q}, [('Y', 0.125), ('Z', 0.25)])"
        if r < 0.9:
            return f"gates.DepolarizingChannel(({q},), {rng.choice([0.25, 0.5])})"
        return f"gates.UnitaryChannel(({q},), [(0.25, X), (0.125, Z)])"

    def zero_channel():
        q = rng.randrange(n)
        return rng.choice([f"gates.PauliNoiseChannel({q}, [('X', 0.0)])", f"gates.DepolarizingChannel(({q},), 0.0)",
                           f"gates.UnitaryChannel(({q},), [(0.0, X), (0.0, Z)])", f"gates.PauliNoiseChannel({q}, [('Y', 0), ('Z', 0.0)])"])

    def collapse():
        if n >= 3 and rng.random() < 0.25:
            return f"gates.M({', '.join(map(str, rng.sample(range(n), 2)))}, collapse=True)"
        return f"gates.M({rng.randrange(n)}, collapse=True)"

    # shape of the queue: U = some unitaries, C = channel, K = collapsing measurement
    #                     Z = channel of ZERO strength (a perfect qubit in a noise table), N = gates noised through a NoiseModel
    #                     whose LAST rule to fire has strength zero.  Shapes without K: only the channels make the execution repeated.
    shapes = ["UKUCU", "UCUZ", "UKUCUKU", "UCZU", "UCUKUCU", "N", "UCUCUK", "ZUCUZ", "KUCU", "UKUKUCU", "UCKCUZ", "UUKCKU", "N", "UZCZ"]
    shape = shapes[k % len(shapes)] if k < 2 * len(shapes) else rng.choice(shapes)
    if shape == "N":
        a, b = rng.sample(range(n), 2)
        lines += [f"c.add(gates.H({a}))", f"c.add(gates.RX({b}, theta=1.25))", f"c.add(gates.CNOT({a}, {b}))", f"c.add(gates.S({a}))",
                  f"c.add(gates.M({a}, {b}))", "nm = NoiseModel()",
                  f"nm.add({rng.choice(['PauliError([(\'X\', 0.25)])', 'DepolarizingError(0.5)'])}, gates.{rng.choice(['H', 'CNOT', 'RX'])})",
                  f"nm.add({rng.choice(['PauliError([(\'X\', 0.0)])', 'DepolarizingError(0.0)', 'DepolarizingError(0)'])}, gates.S)",
                  "c = nm.apply(c)"]
        return "\n".join(lines) + "\n", shape
    for ch in shape:
        if ch == "U":
            for _ in range(rng.randint(1, 2)):
                lines.append(f"c.add({unitary()})")
        elif ch == "C":
            lines.append(f"c.add({channel()})")
        elif ch == "Z":
            lines.append(f"c.add({zero_channel()})")
        else:
            lines.append(f"c.add({collapse()})")
    mq = sorted(rng.sample(range(n), rng.randint(1, n)))
    lines.append(f"c.add(gates.M({', '.join(map(str, mq))}))")
    return "\n".join(lines) + "\n", shape


def collapse_suite(ctx, C19):
    rng = ctx.rng
    bad = 0
    env0 = {}
    exec(C19.PRELUDE + PRE_FORCED, env0)  # noqa: S102 - own text
    ncases = 40 if ctx.thorough else 16
    for k in range(ncases):
        src, shape = gen_case(rng, k)
        replay = C19.PRELUDE + PRE_FORCED + src + CHECK + "raise SystemExit(0 if ok else 1)\n"
        env = dict(env0)
        ctx.case(("collapse-tree", src))
        ctx.stat("collapse_tree:" + shape)
        try:
            with contextlib.redirect_stdout(io.StringIO()):
                exec(src + CHECK, env)  # noqa: S102 - generated above
        except Exception as e:  # noqa: BLE001
            bad += 1
            ctx.fail("repeated:collapse-tree", f"repeated execution of a circuit with collapsing measurements and noise channels (shape {shape}) with forced draws: "
                     f"{type(e).__name__}: {e}", replay, broken=["C19_collapse_tree"])
            continue
        ctx.stat("collapse_tree_leaves", len(env["leaves"]))
        if env["ok"]:
            continue
        bad += 1
        dsv, ddm = env["dsv"], env["ddm"]
        if not env["flag_ok"]:
            what = ("the circuit contains a unitary channel of non-zero strength but has_unitary_channel / repeated_execution is False "
                    f"(shape {shape}: the flag must be an OR over all the channels added, whatever the order)")
            key = "flag:has_unitary_channel"
        elif env["left"] or env["got"] != env["want"]:
            firstbad = next((i for i, (a, b) in enumerate(zip(env["got"], env["want"])) if a != b), None)
            what = (f"forcing the {len(env['leaves'])} leaves of the one-shot sampling tree one after the other in ONE repeated execution: "
                    f"{env['left']} forced draws unused, first differing shot {firstbad}"
                    + (f" (got {env['got'][firstbad]}, leaf {env['want'][firstbad]})" if firstbad is not None else "")
                    + " - the shots are not independent re-runs of the whole queue")
            key = "repeated:collapse-tree"
        else:
            worst = max(abs(dsv.get(o, 0.0) - ddm.get(o, 0.0)) for o in set(dsv) | set(ddm))
            what = (f"outcome distribution of the state-vector trajectories (collapse outcomes + final sample) differs from the density-matrix "
                    f"execution by {worst:.3e} (shape {shape})")
            key = "trajectory-mean:collapse"
        ctx.fail(key, what, replay, expected=str({o: round(v, 8) for o, v in sorted(ddm.items())}),
                 observed=str({o: round(v, 8) for o, v in sorted(dsv.items())}), broken=["C19_collapse_tree"])
    ctx.ob("C19_collapse_tree", bad == 0, "search", f"{bad} failures" if bad else "")
